(* Typed.v: the library's own type annotations make scalar validators well-formed.
   [pred_typed k p] is the boolean reading of "p is a Predicate[T] for the target type T of k",
   [proc_typed k p] likewise for processors; both are then shown to satisfy Total.stage_ok,
   which instantiates C01 for every scalar built "as annotated". *)
From Coq Require Import ZArith List Bool Lia QArith.
From KV Require Import Base.PyVal Base.Prims Model.Validator Model.Sem Proofs.Scalar Proofs.Total.
Import ListNotations.
Open Scope nat_scope.

Definition is_plain_num (v : pyval) : bool :=      (* int / bool / float: ordering never raises *)
  match v with VInt _ | VBool _ | VFloat _ => true | _ => false end.

Definition nonzero_int (v : pyval) : bool :=
  match v with VInt z => negb (Z.eqb z 0) | VBool b => b | _ => false end.

Definition nonzero_float (v : pyval) : bool :=
  match v with
  | VInt z => negb (Z.eqb z 0)
  | VBool b => b
  | VFloat (FFin _ m _) => negb (Z.eqb m 0)
  | VFloat _ => true
  | _ => false
  end.

Definition is_str (v : pyval) : bool := match v with VStr _ => true | _ => false end.
Definition is_bytes (v : pyval) : bool := match v with VBytes _ => true | _ => false end.
Definition not_snan (v : pyval) : bool := negb (is_dec_snan (unsub v)).

(* predicates the annotations admit on each scalar kind (D12 documents why Decimal and
   datetime admit no ordering / equality predicate here) *)
Definition pred_typed (k : scalar_kind) (p : predicate) : bool :=
  match k, p with
  | _, PUser _ => true
  | (KStr | KBytes | KInt | KFloat | KBool | KUuid | KDate | KDatetime), PChoices _ => true
  | KStr, (PMinLength _ | PMaxLength _ | PExactLength _ | PNotBlank | PRegex _ | PEmail) => true
  | KStr, (PStartsWith s | PEndsWith s) => is_str s
  | KBytes, (PMinLength _ | PMaxLength _ | PExactLength _ | PNotBlank) => true
  | KBytes, (PStartsWith s | PEndsWith s) => is_bytes s
  | (KStr | KBytes | KInt | KFloat | KBool | KUuid | KDate), PEqualTo m => not_snan m
  | (KInt | KBool | KFloat), (PMin b _ | PMax b _) => is_plain_num b
  | (KInt | KBool), PMultipleOf f => nonzero_int f
  | KFloat, PMultipleOf f => nonzero_float f
  | KDate, (PMin (VDate _) _ | PMax (VDate _) _) => true
  | KUuid, (PMin (VUuid _) _ | PMax (VUuid _) _) => true
  | _, _ => false
  end.

Definition proc_typed (k : scalar_kind) (p : processor) : bool :=
  match k, p with
  | _, ProcUser _ => true
  | (KStr | KBytes), (Strip | Upper | Lower) => true
  | _, _ => false
  end.

Section Typed.
  Variable E : env.

  (* user processors return a value of the type they were given *)
  Hypothesis uproc_typed : forall id y, type_of (uproc E id y) = type_of y.

  Definition has_kind (k : scalar_kind) (y : pyval) : Prop := exact_type y (ktype k) = true.

  Lemma exact_type_of y t : exact_type y t = true -> type_of y = t.
  Proof. unfold exact_type. intros H. apply pytype_eqb_eq in H. exact H. Qed.

  Ltac kind_inv H :=
    unfold has_kind in H; apply exact_type_of in H; cbn [ktype] in H;
    match goal with
    | y : pyval |- _ => destruct y; cbn [type_of] in H; try discriminate
    end.

  Lemma hashable_scalar k y :
    match k with KType _ | KDecimal => False | _ => True end ->
    has_kind k y -> hashable (chashable E) y = true.
  Proof.
    intros Hk H. destruct k; try contradiction; kind_inv H; reflexivity.
  Qed.

  Lemma py_le_plain strict a b :
    is_plain_num a = true -> is_plain_num b = true -> exists r, py_le_gen strict a b = Ok r.
  Proof.
    destruct a; try discriminate; destruct b; try discriminate; intros _ _;
      unfold py_le_gen; cbn [unsub is_dec_nan orb num_of]; eexists; reflexivity.
  Qed.

  Lemma py_eq_p_total a b : not_snan b = true -> is_dec_snan (unsub a) = false ->
                            exists r, py_eq_p a b = Ok r.
  Proof.
    unfold not_snan, py_eq_p. intros Hb Ha. apply negb_true_iff in Hb. rewrite Ha, Hb.
    cbn [andb orb]. eexists; reflexivity.
  Qed.

  Definition kind_shape (k : scalar_kind) (y : pyval) : Prop :=
    match k with
    | KStr => exists s, y = VStr s
    | KInt => exists z, y = VInt z
    | KFloat => exists f, y = VFloat f
    | KBool => exists b, y = VBool b
    | KBytes => exists s, y = VBytes s
    | KDecimal => exists d, y = VDecimal d
    | KUuid => exists u, y = VUuid u
    | KDate => exists o, y = VDate o
    | KDatetime => exists u t, y = VDatetime u t
    | KType _ => True
    end.

  Lemma has_kind_shape k y : has_kind k y -> kind_shape k y.
  Proof.
    intros H. unfold has_kind in H. apply exact_type_of in H.
    destruct k; cbn [ktype kind_shape] in *; try exact I;
      destruct y; cbn [type_of] in H; try discriminate; eauto.
  Qed.

  Lemma float_q_nonzero n0 m0 e0 :
    (m0 =? 0)%Z = false -> q_is_zero (sgn_q n0 (inject_Z m0 * pow_q 2 e0)) = false.
  Proof.
    intros Hp. unfold q_is_zero, sgn_q. rewrite Z.eqb_neq in *.
    assert (Hpow : forall e, (0 <= e)%Z -> (2 ^ e <> 0)%Z) by (intros; apply Z.pow_nonzero; lia).
    destruct n0; unfold pow_q; destruct (0 <=? e0)%Z eqn:He; cbn [Qopp Qnum Qmult inject_Z Qden];
      try (apply Z.leb_le in He; specialize (Hpow _ He); nia); lia.
  Qed.

  Lemma mod_int_ok a f :
    nonzero_int f = true -> exists r, py_mod_is_zero (VInt a) f = Ok r.
  Proof.
    destruct f; try discriminate; cbn [nonzero_int]; intros Hp.
    - destruct b; [|discriminate]. unfold py_mod_is_zero. cbn. eexists; reflexivity.
    - unfold py_mod_is_zero. cbn [unsub num_of numkind_of int_val]. unfold mod_int.
      apply negb_true_iff in Hp. rewrite Hp. eexists; reflexivity.
  Qed.

  Lemma mod_bool_ok a f :
    nonzero_int f = true -> exists r, py_mod_is_zero (VBool a) f = Ok r.
  Proof.
    destruct f; try discriminate; cbn [nonzero_int]; intros Hp.
    - destruct b; [|discriminate]. unfold py_mod_is_zero. cbn. eexists; reflexivity.
    - unfold py_mod_is_zero. cbn [unsub num_of numkind_of int_val]. unfold mod_int.
      apply negb_true_iff in Hp. rewrite Hp. eexists; reflexivity.
  Qed.

  Lemma mod_float_total x y : (forall b, y = NumFin b -> q_is_zero b = false) -> exists r, mod_float x y = Ok r.
  Proof.
    intros H. unfold mod_float. destruct y as [b| |].
    - rewrite (H b eq_refl). destruct x; eexists; reflexivity.
    - destruct x; eexists; reflexivity.
    - eexists; reflexivity.
  Qed.

  Lemma mod_float_ok a f :
    nonzero_float f = true -> exists r, py_mod_is_zero (VFloat a) f = Ok r.
  Proof.
    destruct f; try discriminate; cbn [nonzero_float]; intros Hp;
      unfold py_mod_is_zero; cbn [unsub num_of numkind_of]; apply mod_float_total.
    - destruct b; [|discriminate]. intros q Hq. inversion Hq. reflexivity.
    - intros q Hq. inversion Hq. apply negb_true_iff in Hp. unfold q_is_zero. cbn [inject_Z Qnum]. exact Hp.
    - destruct f as [| n0 | n0 m0 e0]; cbn [float_num]; intros q Hq; try discriminate.
      inversion Hq. apply float_q_nonzero. apply negb_true_iff in Hp. exact Hp.
  Qed.

  Lemma pred_typed_ok k p y :
    pred_typed k p = true -> has_kind k y -> exists b, pred_eval E p y = Ok b.
  Proof.
    intros Hp Hy. pose proof (has_kind_shape k y Hy) as Hs.
    destruct p as [mn ex|mx ex|fct|cs|eqm|n|n|n| |n|n|n|sw|ew| |rid| |n|n|uid]; cbn [pred_eval].
    - (* PMin *)
      destruct k; try discriminate; cbn [pred_typed kind_shape] in *.
      + destruct Hs as [z ->]. apply py_le_plain; [exact Hp | reflexivity].
      + destruct Hs as [f ->]. apply py_le_plain; [exact Hp | reflexivity].
      + destruct Hs as [b ->]. apply py_le_plain; [exact Hp | reflexivity].
      + destruct Hs as [u ->]. destruct mn; try discriminate. unfold py_le_gen; cbn. eexists; reflexivity.
      + destruct Hs as [o ->]. destruct mn; try discriminate. unfold py_le_gen; cbn. eexists; reflexivity.
    - (* PMax *)
      destruct k; try discriminate; cbn [pred_typed kind_shape] in *.
      + destruct Hs as [z ->]. apply py_le_plain; [reflexivity | exact Hp].
      + destruct Hs as [f ->]. apply py_le_plain; [reflexivity | exact Hp].
      + destruct Hs as [b ->]. apply py_le_plain; [reflexivity | exact Hp].
      + destruct Hs as [u ->]. destruct mx; try discriminate. unfold py_le_gen; cbn. eexists; reflexivity.
      + destruct Hs as [o ->]. destruct mx; try discriminate. unfold py_le_gen; cbn. eexists; reflexivity.
    - (* PMultipleOf *)
      destruct k; try discriminate; cbn [pred_typed kind_shape] in *.
      + destruct Hs as [z ->]. apply mod_int_ok; exact Hp.
      + destruct Hs as [f ->]. apply mod_float_ok; exact Hp.
      + destruct Hs as [b ->]. apply mod_bool_ok; exact Hp.
    - (* PChoices *)
      assert (Hk : match k with KType _ | KDecimal => False | _ => True end) by (destruct k; try exact I; discriminate).
      rewrite (hashable_scalar k y Hk Hy). destruct (unsub y); eexists; reflexivity.
    - (* PEqualTo *)
      apply py_eq_p_total.
      + destruct k; try discriminate; exact Hp.
      + destruct k; try discriminate; cbn [kind_shape] in Hs;
          repeat (match goal with H : exists _, _ |- _ => destruct H end); subst; reflexivity.
    - destruct k; discriminate.
    - destruct k; discriminate.
    - destruct k; discriminate.
    - destruct k; discriminate.
    - destruct k; try discriminate; cbn [kind_shape] in Hs; destruct Hs as [s ->]; cbn; eexists; reflexivity.
    - destruct k; try discriminate; cbn [kind_shape] in Hs; destruct Hs as [s ->]; cbn; eexists; reflexivity.
    - destruct k; try discriminate; cbn [kind_shape] in Hs; destruct Hs as [s ->]; cbn; eexists; reflexivity.
    - destruct k; try discriminate; cbn [kind_shape pred_typed] in *; destruct Hs as [s ->];
        destruct sw; try discriminate; cbn; eexists; reflexivity.
    - destruct k; try discriminate; cbn [kind_shape pred_typed] in *; destruct Hs as [s ->];
        destruct ew; try discriminate; cbn; eexists; reflexivity.
    - destruct k; try discriminate; cbn [kind_shape] in Hs; destruct Hs as [s ->]; cbn; eexists; reflexivity.
    - destruct k; try discriminate; cbn [kind_shape] in Hs; destruct Hs as [s ->]; cbn; eexists; reflexivity.
    - destruct k; try discriminate; cbn [kind_shape] in Hs; destruct Hs as [s ->]; cbn; eexists; reflexivity.
    - destruct k; discriminate.
    - destruct k; discriminate.
    - eexists; reflexivity.
  Qed.

  Lemma proc_typed_ok k p y :
    proc_typed k p = true -> has_kind k y ->
    exists y', proc_apply E p y = Ok y' /\ has_kind k y'.
  Proof.
    intros Hp Hy. pose proof (has_kind_shape k y Hy) as Hs.
    destruct p as [| | |uid]; cbn [proc_apply].
    - destruct k; try discriminate; cbn [kind_shape] in Hs; destruct Hs as [s ->]; cbn;
        eexists; split; reflexivity.
    - destruct k; try discriminate; cbn [kind_shape] in Hs; destruct Hs as [s ->]; cbn [py_case unsub].
      + destruct (all_ascii s); eexists; split; reflexivity.
      + eexists; split; reflexivity.
    - destruct k; try discriminate; cbn [kind_shape] in Hs; destruct Hs as [s ->]; cbn [py_case unsub].
      + destruct (all_ascii s); eexists; split; reflexivity.
      + eexists; split; reflexivity.
    - eexists; split; [reflexivity|]. unfold has_kind, exact_type in *. rewrite uproc_typed. exact Hy.
  Qed.

  (* every scalar validator built without a coercer and as the annotations prescribe is well-formed *)
  Theorem wf_scalar_typed k pre ps aps :
    forallb (proc_typed k) pre = true -> forallb (pred_typed k) ps = true ->
    wf E (Scalar k None pre ps aps).
  Proof.
    intros Hpre Hps. cbn [wf]. exists (has_kind k). split.
    - intros x y H. apply gate_exact in H. destruct H as [H ->]. exact H.
    - split.
      + intros p y Hin Hy. rewrite forallb_forall in Hpre. apply proc_typed_ok; auto.
      + intros p y Hin Hy. rewrite forallb_forall in Hps. eapply pred_typed_ok; eauto.
  Qed.

  (* stdlib constructors return their own type; user coercers return the target type *)
  Definition otype (k : okind) : pytype :=
    match k with OkDecimal => TDecimal | OkUuid => TUuid | OkDate => TDate | OkDatetime => TDatetime end.
  Hypothesis oracle_typed : forall k x y, oracle E k x = Some y -> exact_type y (otype k) = true.

  Definition default_coercer (k : scalar_kind) : option coercer :=
    match k with
    | KDecimal => Some CoDecimal | KUuid => Some CoUuid
    | KDate => Some CoDate | KDatetime => Some CoDatetime
    | _ => None
    end.

  Lemma default_coercer_typed k c x y :
    default_coercer k = Some c -> coerce_apply E c x = Some y -> has_kind k y.
  Proof.
    destruct k; try discriminate; intros H; inversion H; subst; cbn [coerce_apply]; unfold has_kind; cbn [ktype].
    - destruct (exact_type x TDecimal) eqn:Hx; [intros H1; inversion H1; subst; exact Hx|].
      destruct (_ || _); [|discriminate]. apply (oracle_typed OkDecimal).
    - destruct (exact_type x TUuid) eqn:Hx; [intros H1; inversion H1; subst; exact Hx|].
      destruct (exact_type x TStr); [|discriminate]. apply (oracle_typed OkUuid).
    - destruct (exact_type x TDate) eqn:Hx; [intros H1; inversion H1; subst; exact Hx|].
      destruct (isinstance _ x TStr); [|discriminate]. apply (oracle_typed OkDate).
    - destruct (exact_type x TDatetime) eqn:Hx; [intros H1; inversion H1; subst; exact Hx|].
      destruct (isinstance _ x TStr); [|discriminate]. apply (oracle_typed OkDatetime).
  Qed.

  Theorem wf_scalar_default_coercer k c pre ps aps :
    default_coercer k = Some c ->
    forallb (proc_typed k) pre = true -> forallb (pred_typed k) ps = true ->
    wf E (Scalar k (Some c) pre ps aps).
  Proof.
    intros Hc Hpre Hps. cbn [wf]. exists (has_kind k). split.
    - intros x y H. apply gate_coerced in H. eapply default_coercer_typed; eauto.
    - split.
      + intros p y Hin Hy. rewrite forallb_forall in Hpre. apply proc_typed_ok; auto.
      + intros p y Hin Hy. rewrite forallb_forall in Hps. eapply pred_typed_ok; eauto.
  Qed.
End Typed.
