(* C08 / C09: what the validate_signature wrapper checks, when the body runs, what it receives. *)
From Coq Require Import ZArith List Bool Lia.
From KV Require Import Base.PyVal Base.Prims Model.Validator Model.Sem Model.Signature.
Import ListNotations.

(* ---------- small facts ---------- *)

Lemma err_set_keys errs k i k' :
  In k' (map fst (err_set errs k i)) <-> k' = k \/ In k' (map fst errs).
Proof.
  induction errs as [|[k0 i0] errs IH]; cbn [err_set map fst In].
  - split; intros [H|H]; auto; contradiction.
  - destruct (Nat.eqb k0 k) eqn:E; cbn [map fst In].
    + apply Nat.eqb_eq in E. subst k0. split; intros H; [destruct H; auto | destruct H as [H|[H|H]]; auto].
    + rewrite IH. split; intros H; [destruct H as [H|[H|H]]; auto | destruct H as [H|[H|H]]; auto].
Qed.

Lemma err_set_nonempty errs k i : err_set errs k i <> [].
Proof. destruct errs as [|[k0 i0] r]; cbn; [discriminate|]. destruct (Nat.eqb k0 k); discriminate. Qed.

Lemma kw_set_keys kws k v : In k (map fst kws) -> map fst (kw_set kws k v) = map fst kws.
Proof.
  induction kws as [|[k0 v0] r IH]; cbn [kw_set map fst In]; intros H; [contradiction|].
  destruct (Nat.eqb k0 k) eqn:E; cbn [map fst]; [reflexivity|].
  destruct H as [H|H]; [subst; rewrite Nat.eqb_refl in E; discriminate|]. rewrite IH by exact H. reflexivity.
Qed.

Lemma lookup_kw_set kws k v k' :
  In k (map fst kws) -> lookup (kw_set kws k v) k' = if Nat.eqb k k' then Some v else lookup kws k'.
Proof.
  induction kws as [|[k0 v0] r IH]; cbn [kw_set map fst In lookup]; intros H; [contradiction|].
  destruct (Nat.eqb k0 k) eqn:E; cbn [lookup].
  - apply Nat.eqb_eq in E. subst k0. destruct (Nat.eqb k k'); reflexivity.
  - destruct H as [H|H]; [subst; rewrite Nat.eqb_refl in E; discriminate|].
    rewrite (IH H). destruct (Nat.eqb k0 k') eqn:E2; [|reflexivity].
    apply Nat.eqb_eq in E2. subst k'. rewrite Nat.eqb_sym, E. reflexivity.
Qed.

Section Spec.
  Variable rec : runner.
  Variable t : tables.

  (* the check the wrapper applies to the i-th positional argument: key of the error entry,
     whether it is a *args item, and the validator *)
  Definition pos_check (i : nat) : option (nat * bool * validator) :=
    match nth_error (t_positional t) i with
    | Some (Some (k, v)) => Some (k, false, v)
    | Some None => None
    | None => match t_varargs t with Some (k, v) => Some (k, true, v) | None => None end
    end.

  (* ... and to the keyword argument k *)
  Definition kw_check (k : nat) : option validator :=
    match lookup (t_schema t) k with
    | Some ov => ov
    | None => match t_kwargs t with
              | Some v => if mem k (t_ignored_extra t) then None else Some v
              | None => None
              end
    end.

  Definition verdict (ov : option validator) (a : pyval) : outcome :=
    match ov with Some v => rec v a | None => OValid a end.

  Definition pos_v (i : nat) : option validator :=
    match pos_check i with Some (_, _, v) => Some v | None => None end.

  (* what reaches the body in place of argument a *)
  Definition deliver (ov : option validator) (a : pyval) : pyval :=
    match verdict ov a with OValid w => w | _ => a end.

  Definition rejected (ov : option validator) (a : pyval) : bool :=
    match verdict ov a with OInvalid _ => true | _ => false end.

  Fixpoint deliver_pos (i : nat) (args : list pyval) : list pyval :=
    match args with [] => [] | a :: r => deliver (pos_v i) a :: deliver_pos (S i) r end.

  Fixpoint pos_rejected (i : nat) (args : list pyval) : list (nat * bool) :=   (* key, is_var *)
    match args with
    | [] => []
    | a :: r =>
        match pos_check i with
        | Some (k, isv, v) => if rejected (Some v) a then (k, isv) :: pos_rejected (S i) r
                              else pos_rejected (S i) r
        | None => pos_rejected (S i) r
        end
    end.

  Fixpoint pos_normal (i : nat) (args : list pyval) : bool :=
    match args with [] => true | a :: r => normal (verdict (pos_v i) a) && pos_normal (S i) r end.

  Lemma pos_loop_spec : forall args i s,
      pos_normal i args = true ->
      exists s', pos_loop rec t i args s = inr s' /\
                 s_args s' = s_args s ++ deliver_pos i args /\
                 s_kwargs s' = s_kwargs s /\
                 (forall k, In k (map fst (s_errs s')) <->
                            In k (map fst (s_errs s)) \/ In (k, false) (pos_rejected i args)) /\
                 (s_errs s' = [] <-> s_errs s = [] /\ forall k, ~ In (k, false) (pos_rejected i args)) /\
                 (exists extra, s_var_errs s' = s_var_errs s ++ extra /\
                                (extra = [] <-> forall k, ~ In (k, true) (pos_rejected i args))).
  Proof.
    induction args as [|a args IH]; intros i s Hn; cbn [pos_loop deliver_pos pos_rejected pos_normal] in *.
    - exists s. rewrite app_nil_r. repeat split; auto; try tauto.
      + intros [H|H]; [exact H | contradiction].
      + exists []. rewrite app_nil_r. split; [reflexivity|]. split; auto.
    - apply andb_prop in Hn. destruct Hn as [Ha Hn].
      unfold pos_v, pos_check in *.
      destruct (nth_error (t_positional t) i) as [[[k v]|]|] eqn:En.
      + (* declared, checked *)
        unfold deliver, rejected, verdict in *. cbn [verdict] in Ha.
        destruct (rec v a) as [w|inv| | |] eqn:Er; try discriminate.
        * destruct (IH (S i) {| s_errs := s_errs s; s_var_errs := s_var_errs s; s_args := s_args s ++ [w]; s_kwargs := s_kwargs s |} Hn)
            as [s' [E1 [E2 [E3 [E4 [E5 E6]]]]]]. cbn [s_errs s_var_errs s_args s_kwargs] in *.
          exists s'. rewrite E1, E2, <- app_assoc. split; [reflexivity|]; split; [reflexivity|]; split; [exact E3|]; split; [exact E4|]; split; [exact E5 | exact E6].
        * destruct (IH (S i) {| s_errs := err_set (s_errs s) k inv; s_var_errs := s_var_errs s; s_args := s_args s ++ [a]; s_kwargs := s_kwargs s |} Hn)
            as [s' [E1 [E2 [E3 [E4 [E5 E6]]]]]]. cbn [s_errs s_var_errs s_args s_kwargs] in *.
          exists s'. rewrite E1, E2, <- app_assoc. split; [reflexivity|]. split; [reflexivity|]. split; [exact E3|]. split; [|split].
          -- intros k'. rewrite E4, err_set_keys. cbn [In]. split; intros H.
             ++ destruct H as [[H|H]|H]; [right; left; subst; reflexivity | left; exact H | right; right; exact H].
             ++ destruct H as [H|[H|H]]; [left; right; exact H | left; left; congruence | right; exact H].
          -- split; intros H.
             ++ apply E5 in H. destruct H as [H _]. exfalso. exact (err_set_nonempty _ _ _ H).
             ++ destruct H as [_ H]. exfalso. apply (H k). left; reflexivity.
          -- destruct E6 as [extra [X1 X2]]. exists extra. split; [exact X1|]. rewrite X2. split; intros H k' Hin.
             ++ destruct Hin as [Hin|Hin]; [discriminate | exact (H k' Hin)].
             ++ apply (H k'). right; exact Hin.
      + (* declared, not checked *)
        cbn [deliver verdict] in *.
        destruct (IH (S i) {| s_errs := s_errs s; s_var_errs := s_var_errs s; s_args := s_args s ++ [a]; s_kwargs := s_kwargs s |} Hn)
          as [s' [E1 [E2 [E3 [E4 [E5 E6]]]]]]. cbn [s_errs s_var_errs s_args s_kwargs] in *.
        exists s'. unfold deliver, verdict. rewrite E1, E2, <- app_assoc. split; [reflexivity|]; split; [reflexivity|]; split; [exact E3|]; split; [exact E4|]; split; [exact E5 | exact E6].
      + (* beyond the declared positionals: *args *)
        destruct (t_varargs t) as [[k v]|] eqn:Ev.
        * unfold deliver, rejected, verdict in *. cbn [verdict] in Ha.
          destruct (rec v a) as [w|inv| | |] eqn:Er; try discriminate.
          -- destruct (IH (S i) {| s_errs := s_errs s; s_var_errs := s_var_errs s; s_args := s_args s ++ [w]; s_kwargs := s_kwargs s |} Hn)
               as [s' [E1 [E2 [E3 [E4 [E5 E6]]]]]]. cbn [s_errs s_var_errs s_args s_kwargs] in *.
             exists s'. rewrite E1, E2, <- app_assoc. split; [reflexivity|]; split; [reflexivity|]; split; [exact E3|]; split; [exact E4|]; split; [exact E5 | exact E6].
          -- destruct (IH (S i) {| s_errs := s_errs s; s_var_errs := s_var_errs s ++ [(a, inv)]; s_args := s_args s ++ [a]; s_kwargs := s_kwargs s |} Hn)
               as [s' [E1 [E2 [E3 [E4 [E5 E6]]]]]]. cbn [s_errs s_var_errs s_args s_kwargs] in *.
             exists s'. rewrite E1, E2, <- app_assoc. split; [reflexivity|]. split; [reflexivity|]. split; [exact E3|]. split; [|split].
             ++ intros k'. rewrite E4. cbn [In]. split; intros H.
                ** destruct H as [H|H]; [left; exact H | right; right; exact H].
                ** destruct H as [H|[H|H]]; [left; exact H | discriminate | right; exact H].
             ++ rewrite E5. split; intros [H1 H2]; (split; [exact H1|]); intros k' Hin.
                ** destruct Hin as [Hin|Hin]; [discriminate | exact (H2 k' Hin)].
                ** apply (H2 k'). right; exact Hin.
             ++ destruct E6 as [extra [X1 X2]]. exists ((a, inv) :: extra). split.
                ** rewrite X1, <- app_assoc. reflexivity.
                ** split; [discriminate|]. intros H. exfalso. apply (H k). left; reflexivity.
        * cbn [deliver verdict] in *.
          destruct (IH (S i) {| s_errs := s_errs s; s_var_errs := s_var_errs s; s_args := s_args s ++ [a]; s_kwargs := s_kwargs s |} Hn)
            as [s' [E1 [E2 [E3 [E4 [E5 E6]]]]]]. cbn [s_errs s_var_errs s_args s_kwargs] in *.
          exists s'. unfold deliver, verdict. rewrite E1, E2, <- app_assoc. split; [reflexivity|]; split; [reflexivity|]; split; [exact E3|]; split; [exact E4|]; split; [exact E5 | exact E6].
  Qed.

  (* ---------- keyword arguments ---------- *)

  Definition dk (ka : nat * pyval) : nat * pyval := (fst ka, deliver (kw_check (fst ka)) (snd ka)).

  Fixpoint kw_rejected (kws : list (nat * pyval)) : list nat :=
    match kws with
    | [] => []
    | (k, a) :: r => if rejected (kw_check k) a then k :: kw_rejected r else kw_rejected r
    end.

  Fixpoint kw_normal (kws : list (nat * pyval)) : bool :=
    match kws with [] => true | (k, a) :: r => normal (verdict (kw_check k) a) && kw_normal r end.

  Lemma kw_set_mid pre k a suf w :
    ~ In k (map fst pre) -> kw_set (pre ++ (k, a) :: suf) k w = pre ++ (k, w) :: suf.
  Proof.
    induction pre as [|[k0 v0] pre IH]; cbn [app kw_set map fst In]; intros H.
    - rewrite Nat.eqb_refl. reflexivity.
    - destruct (Nat.eqb k0 k) eqn:E; [apply Nat.eqb_eq in E; exfalso; apply H; left; exact E|].
      rewrite IH; [reflexivity | intros Hin; apply H; right; exact Hin].
  Qed.

  Lemma kw_loop_spec : forall suf pre s,
      NoDup (map fst (pre ++ suf)) -> s_kwargs s = pre ++ suf -> kw_normal suf = true ->
      exists s', kw_loop rec t suf s = inr s' /\
                 s_kwargs s' = pre ++ map dk suf /\ s_args s' = s_args s /\
                 (forall k, In k (map fst (s_errs s')) <-> In k (map fst (s_errs s)) \/ In k (kw_rejected suf)) /\
                 (s_errs s' = [] <-> s_errs s = [] /\ kw_rejected suf = []).
  Proof.
    induction suf as [|[k a] suf IH]; intros pre s Hnd Hs Hn; cbn [kw_loop map kw_rejected kw_normal] in *.
    - exists s. repeat split; auto; try tauto. intros [H|H]; [exact H | contradiction].
    - apply andb_prop in Hn. destruct Hn as [Ha Hn].
      assert (Hk : ~ In k (map fst pre)).
      { rewrite map_app in Hnd. cbn [map fst] in Hnd. apply NoDup_remove_2 in Hnd. intros Hin. apply Hnd. apply in_or_app. left; exact Hin. }
      assert (Hnd' : forall a', NoDup (map fst ((pre ++ [(k, a')]) ++ suf))).
      { intros a'. rewrite <- app_assoc. cbn [app]. rewrite map_app in *. cbn [map fst] in *. exact Hnd. }
      assert (Hskip : forall s0, s_kwargs s0 = pre ++ (k, a) :: suf -> s_args s0 = s_args s -> s_errs s0 = s_errs s ->
                                 deliver (kw_check k) a = a -> rejected (kw_check k) a = false ->
                                 exists s', kw_loop rec t suf s0 = inr s' /\
                                            s_kwargs s' = pre ++ dk (k, a) :: map dk suf /\ s_args s' = s_args s /\
                                            (forall k0, In k0 (map fst (s_errs s')) <-> In k0 (map fst (s_errs s)) \/
                                                          In k0 (if rejected (kw_check k) a then k :: kw_rejected suf else kw_rejected suf)) /\
                                            (s_errs s' = [] <-> s_errs s = [] /\
                                               (if rejected (kw_check k) a then k :: kw_rejected suf else kw_rejected suf) = [])).
      { intros s0 K1 K2 K3 Hd Hr. rewrite Hr.
        destruct (IH (pre ++ [(k, a)]) s0 (Hnd' a) ltac:(rewrite K1, <- app_assoc; reflexivity) Hn) as [s' [E1 [E2 [E3 [E4 E5]]]]].
        exists s'. rewrite E1. split; [reflexivity|]. split; [rewrite E2, <- app_assoc; unfold dk; cbn [fst snd app]; rewrite Hd; reflexivity|].
        split; [congruence|]. rewrite K3 in *. split; assumption. }
      unfold kw_check in *.
      destruct (lookup (t_schema t) k) as [[v|]|] eqn:El.
      + (* declared and checked *)
        unfold deliver, rejected, verdict in *.
        destruct (rec v a) as [w|inv| | |] eqn:Er; try discriminate.
        * destruct (IH (pre ++ [(k, w)]) {| s_errs := s_errs s; s_var_errs := s_var_errs s; s_args := s_args s; s_kwargs := kw_set (s_kwargs s) k w |}
                       (Hnd' w) ltac:(cbn [s_kwargs]; rewrite Hs, kw_set_mid by exact Hk; rewrite <- app_assoc; reflexivity) Hn)
            as [s' [E1 [E2 [E3 [E4 E5]]]]]. cbn [s_errs s_args s_kwargs] in *.
          exists s'. rewrite E1. split; [reflexivity|]. split; [rewrite E2, <- app_assoc; unfold dk, deliver, verdict, kw_check; cbn [fst snd app]; rewrite El, Er; reflexivity|].
          split; [exact E3|]. split; assumption.
        * destruct (IH (pre ++ [(k, a)]) {| s_errs := err_set (s_errs s) k inv; s_var_errs := s_var_errs s; s_args := s_args s; s_kwargs := s_kwargs s |}
                       (Hnd' a) ltac:(cbn [s_kwargs]; rewrite Hs, <- app_assoc; reflexivity) Hn)
            as [s' [E1 [E2 [E3 [E4 E5]]]]]. cbn [s_errs s_args s_kwargs] in *.
          exists s'. rewrite E1. split; [reflexivity|]. split; [rewrite E2, <- app_assoc; unfold dk, deliver, verdict, kw_check; cbn [fst snd app]; rewrite El, Er; reflexivity|].
          split; [exact E3|]. split.
          -- intros k0. rewrite E4, err_set_keys. cbn [In]. split; intros H.
             ++ destruct H as [[H|H]|H]; [right; left; congruence | left; exact H | right; right; exact H].
             ++ destruct H as [H|[H|H]]; [left; right; exact H | left; left; congruence | right; exact H].
          -- split; intros H.
             ++ apply E5 in H. destruct H as [H _]. exfalso. exact (err_set_nonempty _ _ _ H).
             ++ destruct H as [_ H]. discriminate.
      + (* declared, not checked *)
        apply (Hskip s Hs eq_refl eq_refl); reflexivity.
      + destruct (t_kwargs t) as [v|] eqn:Ek.
        * destruct (mem k (t_ignored_extra t)) eqn:Ei; [apply (Hskip s Hs eq_refl eq_refl); reflexivity|].
          unfold deliver, rejected, verdict in *.
          destruct (rec v a) as [w|inv| | |] eqn:Er; try discriminate.
          -- destruct (IH (pre ++ [(k, w)]) {| s_errs := s_errs s; s_var_errs := s_var_errs s; s_args := s_args s; s_kwargs := kw_set (s_kwargs s) k w |}
                         (Hnd' w) ltac:(cbn [s_kwargs]; rewrite Hs, kw_set_mid by exact Hk; rewrite <- app_assoc; reflexivity) Hn)
               as [s' [E1 [E2 [E3 [E4 E5]]]]]. cbn [s_errs s_args s_kwargs] in *.
             exists s'. rewrite E1. split; [reflexivity|]. split; [rewrite E2, <- app_assoc; unfold dk, deliver, verdict, kw_check; cbn [fst snd app]; rewrite El, Ek, Ei, Er; reflexivity|].
             split; [exact E3|]. split; assumption.
          -- destruct (IH (pre ++ [(k, a)]) {| s_errs := err_set (s_errs s) k inv; s_var_errs := s_var_errs s; s_args := s_args s; s_kwargs := s_kwargs s |}
                         (Hnd' a) ltac:(cbn [s_kwargs]; rewrite Hs, <- app_assoc; reflexivity) Hn)
               as [s' [E1 [E2 [E3 [E4 E5]]]]]. cbn [s_errs s_args s_kwargs] in *.
             exists s'. rewrite E1. split; [reflexivity|]. split; [rewrite E2, <- app_assoc; unfold dk, deliver, verdict, kw_check; cbn [fst snd app]; rewrite El, Ek, Ei, Er; reflexivity|].
             split; [exact E3|]. split.
             ++ intros k0. rewrite E4, err_set_keys. cbn [In]. split; intros H.
                ** destruct H as [[H|H]|H]; [right; left; congruence | left; exact H | right; right; exact H].
                ** destruct H as [H|[H|H]]; [left; right; exact H | left; left; congruence | right; exact H].
             ++ split; intros H.
                ** apply E5 in H. destruct H as [H _]. exfalso. exact (err_set_nonempty _ _ _ H).
                ** destruct H as [_ H]. discriminate.
        * apply (Hskip s Hs eq_refl eq_refl); reflexivity.
  Qed.

  (* ---------- the whole wrapper ---------- *)

  Definition post (b : bres) : wres :=
    match b with
    | BRaise e => WRaise e
    | BReturn r =>
        match t_return t with
        | None => WReturn r
        | Some v => match rec v r with
                    | OValid _ => WReturn r
                    | OInvalid inv => WRetErr inv
                    | o => WAbort o
                    end
        end
    end.

  Lemma var_rejected_name : forall args i k,
      In (k, true) (pos_rejected i args) -> exists v, t_varargs t = Some (k, v).
  Proof.
    induction args as [|a args IH]; intros i k H; cbn [pos_rejected] in H; [contradiction|].
    unfold pos_check in H.
    destruct (nth_error (t_positional t) i) as [[[k0 v0]|]|].
    - destruct (rejected (Some v0) a); [destruct H as [H|H]; [discriminate|]|]; apply (IH _ _ H).
    - apply (IH _ _ H).
    - destruct (t_varargs t) as [[k0 v0]|]; [|apply (IH _ _ H)].
      destruct (rejected (Some v0) a); [destruct H as [H|H]; [injection H as ->; eauto|]|]; apply (IH _ _ H).
  Qed.

  Definition rejected_keys (args : list pyval) (kwargs : list (nat * pyval)) (k : nat) : Prop :=
    In (k, false) (pos_rejected 0 args) \/ In (k, true) (pos_rejected 0 args) \/ In k (kw_rejected kwargs).

  (* every check is accepted: the body runs, with the payloads *)
  Theorem wrap_runs body args kwargs :
    NoDup (map fst kwargs) -> pos_normal 0 args = true -> kw_normal kwargs = true ->
    pos_rejected 0 args = [] -> kw_rejected kwargs = [] ->
    wrap rec t body args kwargs = post (body (deliver_pos 0 args) (map dk kwargs)).
  Proof.
    intros Hnd Hp Hk Rp Rk. unfold wrap, validate_call.
    destruct (pos_loop_spec args 0 {| s_errs := []; s_var_errs := []; s_args := []; s_kwargs := kwargs |} Hp)
      as [s1 [E1 [A1 [K1 [_ [N1 [extra [V1 V2]]]]]]]]. cbn [s_errs s_var_errs s_args s_kwargs app] in *.
    rewrite E1.
    assert (Hs1 : s_errs s1 = []) by (apply N1; split; [reflexivity | intros k; rewrite Rp; intros []]).
    assert (Hx : extra = []) by (apply V2; intros k; rewrite Rp; intros []).
    assert (Hc : close_varargs t s1 = s1) by (unfold close_varargs; rewrite V1, Hx; reflexivity).
    rewrite Hc.
    destruct (kw_loop_spec kwargs [] s1 Hnd K1 Hk) as [s2 [E2 [K2 [A2 [_ N2]]]]]. cbn [app] in *.
    rewrite E2. assert (Hs2 : s_errs s2 = []) by (apply N2; split; assumption).
    rewrite Hs2, A2, A1, K2. reflexivity.
  Qed.

  (* some check is rejected: InvalidArgsError, whatever the body is; its keys are exactly the
     failing parameters' names *)
  Theorem wrap_rejects body args kwargs :
    NoDup (map fst kwargs) -> pos_normal 0 args = true -> kw_normal kwargs = true ->
    (pos_rejected 0 args <> [] \/ kw_rejected kwargs <> []) ->
    exists errs, wrap rec t body args kwargs = WArgsErr errs /\ errs <> [] /\
                 forall k, In k (map fst errs) <-> rejected_keys args kwargs k.
  Proof.
    intros Hnd Hp Hk Hr. unfold wrap, validate_call.
    destruct (pos_loop_spec args 0 {| s_errs := []; s_var_errs := []; s_args := []; s_kwargs := kwargs |} Hp)
      as [s1 [E1 [A1 [K1 [I1 [N1 [extra [V1 V2]]]]]]]]. cbn [s_errs s_var_errs s_args s_kwargs app] in *.
    rewrite E1.
    (* the *args entry *)
    assert (Hclose : exists s1', close_varargs t s1 = s1' /\ s_kwargs s1' = s_kwargs s1 /\ s_args s1' = s_args s1 /\
                                 (forall k, In k (map fst (s_errs s1')) <->
                                            In (k, false) (pos_rejected 0 args) \/ In (k, true) (pos_rejected 0 args)) /\
                                 (s_errs s1' = [] <-> pos_rejected 0 args = [])).
    { unfold close_varargs. rewrite V1. destruct extra as [|x extra].
      - exists s1. split; [reflexivity|]. split; [reflexivity|]. split; [reflexivity|].
        assert (Hnov : forall k, ~ In (k, true) (pos_rejected 0 args)) by (apply V2; reflexivity).
        split.
        + intros k. rewrite I1. split; intros H; [destruct H as [[]|H]; left; exact H | destruct H as [H|H]; [right; exact H | destruct (Hnov k H)]].
        + rewrite N1. split.
          * intros [_ H]. destruct (pos_rejected 0 args) as [|[k b] r] eqn:Er; [reflexivity|].
            destruct b; [destruct (Hnov k (or_introl eq_refl)) | destruct (H k (or_introl eq_refl))].
          * intros ->. split; [reflexivity | intros k []].
      - assert (Hv : exists k0, In (k0, true) (pos_rejected 0 args)).
        { destruct (pos_rejected 0 args) as [|kb r] eqn:Er.
          - exfalso. assert (Hq : x :: extra = []) by (apply V2; intros k []). discriminate.
          - assert (Hne : ~ (forall k, ~ In (k, true) (kb :: r))) by (intros Hc; apply V2 in Hc; discriminate).
            clear - Hne. induction (kb :: r) as [|[k b] l IH].
            + exfalso. apply Hne. intros k [].
            + destruct b; [exists k; left; reflexivity|].
              destruct IH as [k0 Hk0]; [|exists k0; right; exact Hk0].
              intros Hc. apply Hne. intros k1 [H|H]; [discriminate | exact (Hc k1 H)]. }
        destruct Hv as [k0 Hk0]. destruct (var_rejected_name _ _ _ Hk0) as [v0 Ev]. rewrite Ev. cbn [app].
        eexists. split; [reflexivity|]. cbn [s_errs s_kwargs s_args]. split; [reflexivity|]. split; [reflexivity|]. split.
        + intros k. rewrite err_set_keys, I1. split; intros H.
          * destruct H as [H|[[]|H]]; [subst; right; exact Hk0 | left; exact H].
          * destruct H as [H|H]; [right; right; exact H|]. left.
            destruct (var_rejected_name _ _ _ H) as [v1 Ev1]. rewrite Ev in Ev1. congruence.
        + split; intros H; [exfalso; exact (err_set_nonempty _ _ _ H) | rewrite H in Hk0; destruct Hk0]. }
    destruct Hclose as [s1' [Ec [Kc [Ac [Ic Nc]]]]]. rewrite Ec.
    destruct (kw_loop_spec kwargs [] s1' Hnd ltac:(rewrite Kc; exact K1) Hk) as [s2 [E2 [K2 [A2 [I2 N2]]]]].
    rewrite E2.
    assert (Hne : s_errs s2 <> []).
    { intros H. apply N2 in H. destruct H as [H1 H2]. apply Nc in H1. destruct Hr as [Hr|Hr]; contradiction. }
    destruct (s_errs s2) as [|e errs] eqn:Es; [contradiction|].
    eexists. split; [reflexivity|]. split; [discriminate|].
    intros k. rewrite I2, Ic. unfold rejected_keys. tauto.
  Qed.
End Spec.

(* ---------- the tables are the parameters ---------- *)

Definition is_positional (p : param) : bool :=
  match p_kind p with PosOnly | PosOrKw => true | _ => false end.

Definition is_named (p : param) : bool :=
  match p_kind p with PosOrKw | KwOnly => true | _ => false end.

Definition positionals (ps : list param) : list param := filter is_positional ps.

(* the parameter a keyword binds to by name (positional-only parameters cannot be named) *)
Fixpoint find_named (ps : list param) (k : nat) : option param :=
  match ps with
  | [] => None
  | p :: r => if is_named p && Nat.eqb (p_name p) k then Some p else find_named r k
  end.

Definition var_pos (d : deco) : option (nat * validator) :=
  first_some (fun p => match p_kind p with
                       | VarPos => match p_check (d_ignore d) p with Some v => Some (p_name p, v) | None => None end
                       | _ => None end) (d_params d).

Definition var_kw (d : deco) : option validator :=
  first_some (fun p => match p_kind p with VarKw => p_check (d_ignore d) p | _ => None end) (d_params d).

Lemma positional_table d :
  t_positional (mk_tables d)
  = map (fun p => match p_check (d_ignore d) p with Some v => Some (p_name p, v) | None => None end)
        (positionals (d_params d)).
Proof.
  unfold mk_tables, positionals. cbn [t_positional]. induction (d_params d) as [|p ps IH]; [reflexivity|].
  cbn [flat_map filter]. unfold is_positional at 1. destruct (p_kind p); cbn [app map]; rewrite IH; reflexivity.
Qed.

Lemma schema_table d k :
  lookup (t_schema (mk_tables d)) k
  = match find_named (d_params d) k with Some p => Some (p_check (d_ignore d) p) | None => None end.
Proof.
  unfold mk_tables. cbn [t_schema]. induction (d_params d) as [|p ps IH]; [reflexivity|].
  cbn [flat_map find_named]. unfold is_named at 1.
  destruct (p_kind p); cbn [app lookup andb]; try exact IH;
    (destruct (Nat.eqb (p_name p) k); [reflexivity | exact IH]).
Qed.

Lemma schema_names d k :
  mem k (map fst (t_schema (mk_tables d))) = match find_named (d_params d) k with Some _ => true | None => false end.
Proof.
  unfold mk_tables, mem. cbn [t_schema]. induction (d_params d) as [|p ps IH]; [reflexivity|].
  cbn [flat_map find_named]. unfold is_named at 1.
  destruct (p_kind p); cbn [app map fst existsb andb]; try exact IH;
    (rewrite Nat.eqb_sym; destruct (Nat.eqb (p_name p) k); [reflexivity | exact IH]).
Qed.

Lemma mem_filter n f l : mem n (filter f l) = mem n l && f n.
Proof.
  unfold mem. induction l as [|x l IH]; [reflexivity|]. cbn [filter existsb].
  destruct (f x) eqn:Ef; cbn [existsb]; rewrite IH; destruct (Nat.eqb n x) eqn:E; cbn [orb andb]; try reflexivity.
  - apply Nat.eqb_eq in E. subst x. rewrite Ef. reflexivity.
  - apply Nat.eqb_eq in E. subst x. rewrite Ef. apply andb_false_r.
Qed.

(* the i-th positional argument is checked by the validator of the i-th positional parameter
   (positional-only or not) if that parameter is checked; arguments beyond them by *args *)
Theorem pos_check_params d i :
  pos_check (mk_tables d) i
  = match nth_error (positionals (d_params d)) i with
    | Some p => match p_check (d_ignore d) p with Some v => Some (p_name p, false, v) | None => None end
    | None => match var_pos d with Some (k, v) => Some (k, true, v) | None => None end
    end.
Proof.
  unfold pos_check. rewrite positional_table, nth_error_map.
  destruct (nth_error (positionals (d_params d)) i) as [p|]; cbn [option_map].
  - destruct (p_check (d_ignore d) p); reflexivity.
  - reflexivity.
Qed.

(* a keyword argument is checked by the validator of the parameter of that name if there is one
   (and it is checked); otherwise by **kwargs unless the keyword itself is ignored *)
Theorem kw_check_params d k :
  kw_check (mk_tables d) k
  = match find_named (d_params d) k with
    | Some p => p_check (d_ignore d) p
    | None => match var_kw d with
              | Some v => if mem k (d_ignore d) then None else Some v
              | None => None
              end
    end.
Proof.
  unfold kw_check. rewrite schema_table.
  destruct (find_named (d_params d) k) as [p|] eqn:Ef; [reflexivity|].
  change (t_kwargs (mk_tables d)) with (var_kw d). destruct (var_kw d); [|reflexivity].
  change (t_ignored_extra (mk_tables d))
    with (filter (fun n => negb (mem n (map fst (t_schema (mk_tables d))))) (d_ignore d)).
  rewrite mem_filter, schema_names, Ef. cbn [negb]. rewrite andb_true_r. reflexivity.
Qed.

(* ---------- delivery ---------- *)

Lemma deliver_checked rec v a w : rec v a = OValid w -> deliver rec (Some v) a = w.
Proof. unfold deliver, verdict. intros ->. reflexivity. Qed.

Lemma deliver_unchecked rec a : deliver rec None a = a.
Proof. reflexivity. Qed.

Lemma find_named_in ps : forall p,
    NoDup (map p_name ps) -> In p ps -> is_named p = true -> find_named ps (p_name p) = Some p.
Proof.
  induction ps as [|q ps IH]; intros p Hnd Hin Hn; [contradiction|].
  cbn [map] in Hnd. inversion Hnd as [|? ? Hq Hnd']; subst. cbn [find_named].
  destruct Hin as [->|Hin].
  - rewrite Hn, Nat.eqb_refl. reflexivity.
  - destruct (is_named q && Nat.eqb (p_name q) (p_name p)) eqn:E; [|apply IH; assumption].
    apply andb_prop in E. destruct E as [_ E]. apply Nat.eqb_eq in E. exfalso. apply Hq. rewrite E. apply in_map. exact Hin.
Qed.

(* a positional-or-keyword parameter is checked by the same validator whichever way it is passed *)
Theorem pos_kw_same d i p :
  NoDup (map p_name (d_params d)) ->
  nth_error (positionals (d_params d)) i = Some p -> p_kind p = PosOrKw ->
  pos_v (mk_tables d) i = kw_check (mk_tables d) (p_name p).
Proof.
  intros Hnd Hi Hk. unfold pos_v. rewrite pos_check_params, Hi, kw_check_params.
  assert (Hin : In p (d_params d)).
  { apply nth_error_In in Hi. unfold positionals in Hi. apply filter_In in Hi. apply Hi. }
  rewrite (find_named_in _ p Hnd Hin) by (unfold is_named; rewrite Hk; reflexivity).
  destruct (p_check (d_ignore d) p); reflexivity.
Qed.

(* the return value *)
Lemma post_return_checked rec t v r :
  t_return t = Some v ->
  post rec t (BReturn r) = match rec v r with
                           | OValid _ => WReturn r
                           | OInvalid inv => WRetErr inv
                           | o => WAbort o
                           end.
Proof. intros H. unfold post. rewrite H. reflexivity. Qed.

Lemma post_return_unchecked rec t r : t_return t = None -> post rec t (BReturn r) = WReturn r.
Proof. intros H. unfold post. rewrite H. reflexivity. Qed.

Lemma post_raise rec t e : post rec t (BRaise e) = WRaise e.
Proof. reflexivity. Qed.
