(* TextP: the canonical text of a UUID reads back as the UUID, for every 128-bit value. *)
From Coq Require Import ZArith List Bool Lia.
From KV Require Import Base.PyVal Base.Prims Model.Text.
Import ListNotations.
Open Scope Z_scope.

Lemma hexval_hexdigit d : 0 <= d < 16 -> hexval (hexdigit d) = Some d.
Proof.
  intros Hd. unfold hexdigit, hexval.
  destruct (d <? 10) eqn:E10.
  - apply Z.ltb_lt in E10.
    replace ((48 <=? 48 + d) && (48 + d <=? 57)) with true; [f_equal; lia|].
    symmetry. apply andb_true_intro. split; apply Z.leb_le; lia.
  - apply Z.ltb_ge in E10.
    replace ((48 <=? 87 + d) && (87 + d <=? 57)) with false.
    2:{ symmetry. apply andb_false_intro2. apply Z.leb_gt. lia. }
    replace ((97 <=? 87 + d) && (87 + d <=? 102)) with true; [f_equal; lia|].
    symmetry. apply andb_true_intro. split; apply Z.leb_le; lia.
Qed.

Lemma of_hex_app a : forall acc b,
  of_hex acc (a ++ b) = match of_hex acc a with Some acc' => of_hex acc' b | None => None end.
Proof.
  induction a as [|c a IH]; intros acc b; cbn [app of_hex]; [reflexivity|].
  destruct (hexval c); [apply IH | reflexivity].
Qed.

Lemma of_to_hex w : forall n acc, 0 <= n < 16 ^ Z.of_nat w ->
  of_hex acc (to_hex w n) = Some (acc * 16 ^ Z.of_nat w + n).
Proof.
  induction w as [|w IH]; intros n acc Hn.
  - cbn [to_hex of_hex]. change (16 ^ Z.of_nat 0) with 1 in *. f_equal. lia.
  - rewrite Nat2Z.inj_succ, Z.pow_succ_r in * by lia.
    cbn [to_hex]. rewrite of_hex_app.
    assert (Hq : 0 <= n / 16 < 16 ^ Z.of_nat w).
    { split; [apply Z.div_pos; lia | apply Z.div_lt_upper_bound; lia]. }
    rewrite (IH (n / 16) acc Hq). cbn [of_hex].
    rewrite hexval_hexdigit by (apply Z.mod_pos_bound; lia).
    f_equal. pose proof (Z.div_mod n 16 ltac:(lia)). lia.
Qed.

Lemma to_hex_length w : forall n, length (to_hex w n) = w.
Proof. induction w as [|w IH]; intros n; cbn [to_hex]; [reflexivity|]. rewrite app_length, IH. cbn. lia. Qed.

Definition plain (c : Z) : Prop := not_dash c = true /\ is_brace c = false.

Lemma hexdigit_plain d : 0 <= d < 16 -> plain (hexdigit d).
Proof.
  intros Hd. unfold plain, hexdigit, not_dash, is_brace, dash.
  destruct (d <? 10) eqn:E; [apply Z.ltb_lt in E | apply Z.ltb_ge in E];
    (split; [apply negb_true_iff; apply Z.eqb_neq; lia | apply orb_false_intro; apply Z.eqb_neq; lia]).
Qed.

Lemma to_hex_plain w : forall n, Forall plain (to_hex w n).
Proof.
  induction w as [|w IH]; intros n; cbn [to_hex]; [constructor|].
  apply Forall_app. split; [apply IH|]. constructor; [|constructor].
  apply hexdigit_plain. apply Z.mod_pos_bound. lia.
Qed.

Lemma Forall_firstn {A} (P : A -> Prop) : forall k l, Forall P l -> Forall P (firstn k l).
Proof. induction k as [|k IH]; intros [|x l] H; cbn [firstn]; try constructor; inversion H; subst; auto. Qed.
Lemma Forall_skipn {A} (P : A -> Prop) : forall k l, Forall P l -> Forall P (skipn k l).
Proof. induction k as [|k IH]; intros [|x l] H; cbn [skipn]; try assumption; inversion H; subst; auto. Qed.

Lemma filter_plain l : Forall plain l -> filter not_dash l = l.
Proof. induction 1 as [|c l [Hc _] _ IH]; cbn [filter]; [reflexivity|]. rewrite Hc, IH. reflexivity. Qed.

Lemma lstrip_id (f : Z -> bool) l : Forall (fun c => f c = false) l -> lstrip f l = l.
Proof. destruct 1 as [|c l Hc _]; cbn [lstrip]; [reflexivity|]. rewrite Hc. reflexivity. Qed.

Lemma strip_id (f : Z -> bool) l : Forall (fun c => f c = false) l -> strip_with f l = l.
Proof.
  intros H. unfold strip_with. rewrite (lstrip_id f l H).
  rewrite (lstrip_id f (rev l)) by (apply Forall_rev; exact H). apply rev_involutive.
Qed.

Lemma skipn_skipn {A} : forall a b (l : list A), skipn a (skipn b l) = skipn (a + b) l.
Proof.
  intros a b. revert a. induction b as [|b IH]; intros a l.
  - rewrite Nat.add_0_r. reflexivity.
  - rewrite Nat.add_succ_r. destruct l as [|x l]; [rewrite !skipn_nil; reflexivity|]. cbn [skipn]. apply IH.
Qed.

Lemma uuid_pieces (h : list Z) :
  firstn 8 h ++ firstn 4 (skipn 8 h) ++ firstn 4 (skipn 12 h) ++ firstn 4 (skipn 16 h) ++ skipn 20 h = h.
Proof.
  transitivity (firstn 8 h ++ skipn 8 h); [|apply firstn_skipn]. f_equal.
  transitivity (firstn 4 (skipn 8 h) ++ skipn 4 (skipn 8 h)); [|apply firstn_skipn]. f_equal.
  rewrite skipn_skipn. change (4 + 8)%nat with 12%nat.
  transitivity (firstn 4 (skipn 12 h) ++ skipn 4 (skipn 12 h)); [|apply firstn_skipn]. f_equal.
  rewrite skipn_skipn. change (4 + 12)%nat with 16%nat.
  transitivity (firstn 4 (skipn 16 h) ++ skipn 4 (skipn 16 h)); [|apply firstn_skipn]. f_equal.
  rewrite skipn_skipn. reflexivity.
Qed.

Lemma parse_dashed h : Forall plain h -> length h = 32%nat -> uuid_parse (dashed h) = of_hex 0 h.
Proof.
  intros Hp Hl. unfold uuid_parse, dashed.
  assert (Hb : Forall (fun c => is_brace c = false) h) by (eapply Forall_impl; [|exact Hp]; intros c [_ Hc]; exact Hc).
  rewrite strip_id.
  2:{ repeat (apply Forall_app; split; [apply Forall_firstn; try apply Forall_skipn; exact Hb | constructor; [reflexivity|]]).
      apply Forall_skipn. exact Hb. }
  assert (Hfd : forall l, filter not_dash (dash :: l) = filter not_dash l) by reflexivity.
  rewrite !filter_app, !Hfd, !filter_app, !Hfd, !filter_app, !Hfd, !filter_app, !Hfd.
  rewrite !filter_plain by (try apply Forall_firstn; try apply Forall_skipn; exact Hp).
  rewrite uuid_pieces, Hl. reflexivity.
Qed.

Theorem uuid_roundtrip n : 0 <= n < 2 ^ 128 -> uuid_parse (uuid_str n) = Some n.
Proof.
  intros Hn. unfold uuid_str. rewrite parse_dashed by (try apply to_hex_plain; apply to_hex_length).
  rewrite (of_to_hex 32 n 0) by (change (16 ^ Z.of_nat 32) with (2 ^ 128); exact Hn). f_equal.
Qed.

(* ---------- Decimal(int): the value built is the integer ---------- *)
From Coq Require Import QArith.
From KV Require Import Model.Validator Model.Sem.

Lemma dec_of_int_num z : exists q, num_of (dec_of_int z) = Some (NumFin q) /\ Qeq q (inject_Z z).
Proof.
  unfold dec_of_int. cbn [num_of dec_num]. eexists. split; [reflexivity|].
  unfold pow_q. cbn [Z.leb Z.compare Z.pow]. unfold sgn_q.
  destruct (z <? 0)%Z eqn:Ez; [apply Z.ltb_lt in Ez | apply Z.ltb_ge in Ez];
    unfold Qeq, Qopp, Qmult, inject_Z; cbn [Qnum Qden Z.pow_pos Pos.iter Pos.mul]; lia.
Qed.

Theorem decimal_of_int E :
  (forall z, oracle E OkDecimal (VInt z) = Some (dec_of_int z)) ->
  forall z fuel m, run E m (S fuel) (Scalar KDecimal (Some CoDecimal) [] [] []) (VInt z) = OValid (dec_of_int z).
Proof.
  intros Ho z fuel m. cbn [run step]. unfold scalar_body.
  assert (Hg : mode_eqb m Sync && nonempty (@nil apredicate) = false) by (destruct m; reflexivity).
  rewrite Hg. unfold gate. cbn [coerce_apply].
  change (exact_type (VInt z) TDecimal) with false. cbv iota.
  change (isinstance (ckind E) (VInt z) TStr) with false.
  change (isinstance (ckind E) (VInt z) TInt) with true. cbn [orb]. rewrite Ho.
  cbn [procs_apply]. unfold all_failing. cbn [failing_preds pbind]. destruct m; reflexivity.
Qed.
(* the other documented spellings read the same: 32 digits without dashes, and the canonical text in braces *)
Lemma plain_nobrace h : Forall plain h -> Forall (fun c => is_brace c = false) h.
Proof. intros H. eapply Forall_impl; [|exact H]. intros c [_ Hc]. exact Hc. Qed.

Theorem uuid_hex_roundtrip n : 0 <= n < 2 ^ 128 -> uuid_parse (to_hex 32 n) = Some n.
Proof.
  intros Hn. unfold uuid_parse.
  rewrite strip_id by (apply plain_nobrace; apply to_hex_plain).
  rewrite filter_plain by apply to_hex_plain. rewrite to_hex_length. cbn [Nat.eqb].
  rewrite (of_to_hex 32 n 0) by (change (16 ^ Z.of_nat 32) with (2 ^ 128); exact Hn). f_equal.
Qed.

Lemma dashed_nobrace h : Forall plain h -> Forall (fun c => is_brace c = false) (dashed h).
Proof.
  intros Hp. pose proof (plain_nobrace h Hp) as Hb. unfold dashed.
  repeat (apply Forall_app; split; [apply Forall_firstn; try apply Forall_skipn; exact Hb | constructor; [reflexivity|]]).
  apply Forall_skipn. exact Hb.
Qed.

Lemma strip_braced s : Forall (fun c => is_brace c = false) s -> strip_with is_brace (123 :: s ++ [125]) = s.
Proof.
  intros H. unfold strip_with. cbn [lstrip]. change (is_brace 123) with true. cbv iota.
  assert (Hl : lstrip is_brace (s ++ [125]) = s ++ [125] \/ s = []).
  { destruct H as [|c s Hc Hs]; [right; reflexivity|]. left. cbn [app lstrip]. rewrite Hc. reflexivity. }
  destruct Hl as [Hl | ->].
  - rewrite Hl, rev_app_distr. cbn [rev app lstrip]. change (is_brace 125) with true. cbv iota.
    rewrite (lstrip_id is_brace (rev s)) by (apply Forall_rev; exact H). apply rev_involutive.
  - reflexivity.
Qed.

Theorem uuid_braced_roundtrip n : 0 <= n < 2 ^ 128 -> uuid_parse (123 :: uuid_str n ++ [125]) = Some n.
Proof.
  intros Hn. unfold uuid_parse, uuid_str.
  rewrite strip_braced by (apply dashed_nobrace; apply to_hex_plain).
  pose proof (uuid_roundtrip n Hn) as R. unfold uuid_parse, uuid_str in R.
  rewrite strip_id in R by (apply dashed_nobrace; apply to_hex_plain). exact R.
Qed.
Lemma hexval_range c d : hexval c = Some d -> 0 <= d < 16.
Proof.
  unfold hexval.
  destruct ((48 <=? c) && (c <=? 57)) eqn:E1.
  { apply andb_prop in E1. destruct E1 as [A B]. apply Z.leb_le in A. apply Z.leb_le in B. intros H; injection H as <-. lia. }
  destruct ((97 <=? c) && (c <=? 102)) eqn:E2.
  { apply andb_prop in E2. destruct E2 as [A B]. apply Z.leb_le in A. apply Z.leb_le in B. intros H; injection H as <-. lia. }
  destruct ((65 <=? c) && (c <=? 70)) eqn:E3; [|discriminate].
  apply andb_prop in E3. destruct E3 as [A B]. apply Z.leb_le in A. apply Z.leb_le in B. intros H; injection H as <-. lia.
Qed.

Lemma of_hex_bound s : forall acc n, 0 <= acc -> of_hex acc s = Some n ->
  acc * 16 ^ Z.of_nat (length s) <= n < (acc + 1) * 16 ^ Z.of_nat (length s).
Proof.
  induction s as [|c s IH]; intros acc n Ha H.
  - cbn [of_hex] in H. injection H as <-. cbn [length]. change (16 ^ Z.of_nat 0) with 1. lia.
  - cbn [of_hex] in H. destruct (hexval c) as [d|] eqn:Ed; [|discriminate].
    pose proof (hexval_range c d Ed) as Hd.
    specialize (IH (16 * acc + d) n ltac:(lia) H).
    cbn [length]. rewrite Nat2Z.inj_succ, Z.pow_succ_r by lia.
    assert (Hp : 0 < 16 ^ Z.of_nat (length s)) by (apply Z.pow_pos_nonneg; lia).
    nia.
Qed.

(* whatever the model parser answers is a 128-bit value *)
Theorem uuid_parse_range s n : uuid_parse s = Some n -> 0 <= n < 2 ^ 128.
Proof.
  unfold uuid_parse. set (h := filter not_dash (strip_with is_brace s)).
  destruct (Nat.eqb (length h) 32) eqn:El; [|discriminate].
  apply Nat.eqb_eq in El. intros H.
  pose proof (of_hex_bound h 0 n ltac:(lia) H) as B. rewrite El in B.
  change (16 ^ Z.of_nat 32) with (2 ^ 128) in B. lia.
Qed.

(* distinct UUIDs have distinct canonical texts *)
Theorem uuid_str_injective n m : 0 <= n < 2 ^ 128 -> 0 <= m < 2 ^ 128 -> uuid_str n = uuid_str m -> n = m.
Proof.
  intros Hn Hm E. pose proof (uuid_roundtrip n Hn) as Rn. rewrite E, (uuid_roundtrip m Hm) in Rn. congruence.
Qed.

(* ================= dates ================= *)
(* ---------- proofs ---------- *)
Lemma decval_decdigit d : 0 <= d < 10 -> decval (decdigit d) = Some d.
Proof.
  intros Hd. unfold decval, decdigit.
  replace ((48 <=? 48 + d) && (48 + d <=? 57)) with true; [f_equal; lia|].
  symmetry. apply andb_true_intro. split; apply Z.leb_le; lia.
Qed.

Lemma of_dec_app a : forall acc b,
  of_dec acc (a ++ b) = match of_dec acc a with Some acc' => of_dec acc' b | None => None end.
Proof.
  induction a as [|c a IH]; intros acc b; cbn [app of_dec]; [reflexivity|].
  destruct (decval c); [apply IH | reflexivity].
Qed.

Lemma of_to_dec w : forall n acc, 0 <= n < 10 ^ Z.of_nat w ->
  of_dec acc (to_dec w n) = Some (acc * 10 ^ Z.of_nat w + n).
Proof.
  induction w as [|w IH]; intros n acc Hn.
  - cbn [to_dec of_dec]. change (10 ^ Z.of_nat 0) with 1 in *. f_equal. lia.
  - rewrite Nat2Z.inj_succ, Z.pow_succ_r in * by lia.
    cbn [to_dec]. rewrite of_dec_app.
    assert (Hq : 0 <= n / 10 < 10 ^ Z.of_nat w).
    { split; [apply Z.div_pos; lia | apply Z.div_lt_upper_bound; lia]. }
    rewrite (IH (n / 10) acc Hq). cbn [of_dec].
    rewrite decval_decdigit by (apply Z.mod_pos_bound; lia).
    f_equal. pose proof (Z.div_mod n 10 ltac:(lia)). lia.
Qed.

Lemma to_dec4 y : to_dec 4 y = [decdigit (y / 10 / 10 / 10 mod 10); decdigit (y / 10 / 10 mod 10); decdigit (y / 10 mod 10); decdigit (y mod 10)].
Proof. reflexivity. Qed.
Lemma to_dec2 y : to_dec 2 y = [decdigit (y / 10 mod 10); decdigit (y mod 10)].
Proof. reflexivity. Qed.

Lemma days_in_month_le y m : days_in_month y m <= 31.
Proof. unfold days_in_month. destruct (m =? 2); [destruct (is_leap y); lia|]. destruct ((m =? 4) || (m =? 6) || (m =? 9) || (m =? 11)); lia. Qed.

Theorem date_roundtrip y m d : valid_ymd y m d = true -> date_parse (date_iso y m d) = Some (y, m, d).
Proof.
  intros Hv. pose proof Hv as Hv'. unfold valid_ymd in Hv'.
  repeat (apply andb_prop in Hv'; destruct Hv' as [Hv' ?]).
  repeat match goal with H : (_ <=? _) = true |- _ => apply Z.leb_le in H end.
  pose proof (days_in_month_le y m) as Hdim.
  unfold date_parse, date_iso. rewrite to_dec4, !to_dec2.
  cbn [app length Nat.eqb nth firstn skipn]. rewrite !Z.eqb_refl. cbn [andb].
  rewrite <- to_dec4, <- !to_dec2.
  rewrite (of_to_dec 4 y 0) by (change (10 ^ Z.of_nat 4) with 10000; lia).
  rewrite (of_to_dec 2 m 0) by (change (10 ^ Z.of_nat 2) with 100; lia).
  rewrite (of_to_dec 2 d 0) by (change (10 ^ Z.of_nat 2) with 100; lia).
  cbn [Z.mul Z.add]. rewrite Hv. reflexivity.
Qed.

(* ================= datetimes ================= *)
(* ---------- proofs ---------- *)
Lemma to_dec6 u : to_dec 6 u = [decdigit (u / 10 / 10 / 10 / 10 / 10 mod 10); decdigit (u / 10 / 10 / 10 / 10 mod 10); decdigit (u / 10 / 10 / 10 mod 10);
                                decdigit (u / 10 / 10 mod 10); decdigit (u / 10 mod 10); decdigit (u mod 10)].
Proof. reflexivity. Qed.

Lemma time_roundtrip H M Sc : 0 <= H < 24 -> 0 <= M < 60 -> 0 <= Sc < 60 -> parse_time (time_iso H M Sc) = Some (H, M, Sc).
Proof.
  intros HH HM HS. unfold parse_time, time_iso. rewrite !to_dec2.
  cbn [app length Nat.eqb nth firstn skipn]. rewrite !Z.eqb_refl. cbn [andb].
  rewrite <- !to_dec2.
  rewrite (of_to_dec 2 H 0) by (change (10 ^ Z.of_nat 2) with 100; lia).
  rewrite (of_to_dec 2 M 0) by (change (10 ^ Z.of_nat 2) with 100; lia).
  rewrite (of_to_dec 2 Sc 0) by (change (10 ^ Z.of_nat 2) with 100; lia).
  cbn [Z.mul Z.add].
  replace (H <? 24) with true by (symmetry; apply Z.ltb_lt; lia).
  replace (M <? 60) with true by (symmetry; apply Z.ltb_lt; lia).
  replace (Sc <? 60) with true by (symmetry; apply Z.ltb_lt; lia). reflexivity.
Qed.

Lemma off_roundtrip tz : valid_off tz = true -> parse_off (off_iso tz) = Some tz.
Proof.
  destruct tz as [o|]; [|reflexivity]. cbn [valid_off]. intros Hv.
  apply andb_prop in Hv. destruct Hv as [Hlo Hhi].
  apply Z.ltb_lt in Hlo. apply Z.ltb_lt in Hhi.
  set (a := Z.abs o). assert (Ha : 0 <= a < 86400) by (subst a; lia).
  assert (Hq : 0 <= a / 3600 < 24) by (split; [apply Z.div_pos; lia | apply Z.div_lt_upper_bound; lia]).
  assert (Hr : 0 <= a mod 3600 / 60 < 60).
  { pose proof (Z.mod_pos_bound a 3600 ltac:(lia)). split; [apply Z.div_pos; lia | apply Z.div_lt_upper_bound; lia]. }
  assert (Hs : 0 <= a mod 60 < 60) by (apply Z.mod_pos_bound; lia).
  assert (Hsum : a / 3600 * 3600 + a mod 3600 / 60 * 60 + a mod 60 = a).
  { clear - Ha. Z.div_mod_to_equations. lia. }
  assert (Hsg : (((if o <? 0 then dash else plus) =? plus) || ((if o <? 0 then dash else plus) =? dash)) = true) by (destruct (o <? 0); reflexivity).
  assert (Hsign : (if (if o <? 0 then dash else plus) =? dash then -1 else 1) * a = o).
  { subst a. destruct (o <? 0) eqn:Eo; [apply Z.ltb_lt in Eo | apply Z.ltb_ge in Eo].
    - change (dash =? dash) with true. cbv iota. lia.
    - change (plus =? dash) with false. cbv iota. lia. }
  unfold off_iso, parse_off. fold a. rewrite !to_dec2.
  destruct (a mod 60 =? 0) eqn:E60.
  - apply Z.eqb_eq in E60.
    cbn [app length Nat.eqb nth firstn skipn]. rewrite Z.eqb_refl, Hsg. cbn [andb]. rewrite <- !to_dec2.
    rewrite (of_to_dec 2 (a / 3600) 0) by (change (10 ^ Z.of_nat 2) with 100; lia).
    rewrite (of_to_dec 2 (a mod 3600 / 60) 0) by (change (10 ^ Z.of_nat 2) with 100; lia).
    cbn [Z.mul Z.add].
    replace (a / 3600 <? 24) with true by (symmetry; apply Z.ltb_lt; lia).
    replace (a mod 3600 / 60 <? 60) with true by (symmetry; apply Z.ltb_lt; lia). cbn [andb].
    f_equal. f_equal. rewrite <- Hsign at 2. f_equal. lia.
  - cbn [app length Nat.eqb nth firstn skipn]. rewrite !Z.eqb_refl, Hsg. cbn [andb]. rewrite <- !to_dec2.
    rewrite (of_to_dec 2 (a / 3600) 0) by (change (10 ^ Z.of_nat 2) with 100; lia).
    rewrite (of_to_dec 2 (a mod 3600 / 60) 0) by (change (10 ^ Z.of_nat 2) with 100; lia).
    rewrite (of_to_dec 2 (a mod 60) 0) by (change (10 ^ Z.of_nat 2) with 100; lia).
    cbn [Z.mul Z.add].
    replace (a / 3600 <? 24) with true by (symmetry; apply Z.ltb_lt; lia).
    replace (a mod 3600 / 60 <? 60) with true by (symmetry; apply Z.ltb_lt; lia).
    replace (a mod 60 <? 60) with true by (symmetry; apply Z.ltb_lt; lia). cbn [andb].
    f_equal. f_equal. rewrite <- Hsign at 2. f_equal. lia.
Qed.

Lemma date_iso_split y m d X :
  firstn 10 (date_iso y m d ++ X) = date_iso y m d /\ nth 10 (date_iso y m d ++ tee :: X) 0 = tee /\
  skipn 11 (date_iso y m d ++ tee :: X) = X.
Proof. unfold date_iso. rewrite to_dec4, !to_dec2. repeat split. Qed.

Lemma time_iso_split H M Sc X :
  firstn 8 (time_iso H M Sc ++ X) = time_iso H M Sc /\ skipn 8 (time_iso H M Sc ++ X) = X.
Proof. unfold time_iso. rewrite !to_dec2. split; reflexivity. Qed.

Theorem datetime_roundtrip y m d H M Sc us tz :
  valid_ymd y m d = true -> valid_time H M Sc us = true -> valid_off tz = true ->
  datetime_parse (datetime_iso y m d H M Sc us tz) = Some (y, m, d, H, M, Sc, us, tz).
Proof.
  intros Hd Ht Ho. pose proof Ht as Ht'. unfold valid_time in Ht'.
  repeat (apply andb_prop in Ht'; destruct Ht' as [Ht' ?]).
  repeat match goal with H : (_ <=? _) = true |- _ => apply Z.leb_le in H | H : (_ <? _) = true |- _ => apply Z.ltb_lt in H end.
  unfold datetime_parse, datetime_iso.
  destruct (date_iso_split y m d (time_iso H M Sc ++ frac_iso us ++ off_iso tz)) as [_ [E2 E3]].
  destruct (date_iso_split y m d (tee :: time_iso H M Sc ++ frac_iso us ++ off_iso tz)) as [E1 _].
  rewrite E1, (date_roundtrip y m d Hd), E2, Z.eqb_refl, E3.
  destruct (time_iso_split H M Sc (frac_iso us ++ off_iso tz)) as [F1 F2].
  rewrite F1, (time_roundtrip H M Sc) by lia.
  replace (skipn 19 (date_iso y m d ++ tee :: time_iso H M Sc ++ frac_iso us ++ off_iso tz)) with (frac_iso us ++ off_iso tz).

  unfold frac_iso. destruct (us =? 0) eqn:Eu.
  - apply Z.eqb_eq in Eu. subst us. cbn [app].
    pose proof (off_roundtrip tz Ho) as R.
    destruct tz as [o|]; [|reflexivity]. cbn [off_iso] in *.
    assert (Hnd : ((if o <? 0 then dash else plus) =? dot) = false) by (destruct (o <? 0); reflexivity).
    rewrite Hnd, R. reflexivity.
  - cbn [app]. rewrite Z.eqb_refl. rewrite to_dec6. cbn [app length Nat.leb firstn skipn].
    rewrite <- to_dec6. rewrite (of_to_dec 6 us 0) by (change (10 ^ Z.of_nat 6) with 1000000; lia).
    rewrite (off_roundtrip tz Ho). cbn [Z.mul Z.add]. reflexivity.
Qed.
