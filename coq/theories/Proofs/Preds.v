(* C15: each built-in predicate / processor computes exactly its documented relation. *)
From Coq Require Import ZArith List Bool Lia QArith.
From KV Require Import Base.PyVal Base.Prims Model.Validator Model.Sem.
Import ListNotations.
Open Scope Z_scope.

Section Preds.
  Variable E : env.

  (* ---------- bounds on ints ---------- *)

  Lemma qle_inject a b : Qle_bool (inject_Z a) (inject_Z b) = (a <=? b).
  Proof. unfold Qle_bool, inject_Z. cbn [Qnum Qden]. rewrite !Z.mul_1_r. reflexivity. Qed.

  Lemma qeq_inject a b : Qeq_bool (inject_Z a) (inject_Z b) = (a =? b).
  Proof. unfold Qeq_bool, inject_Z. cbn [Qnum Qden]. rewrite !Z.mul_1_r. unfold Zeq_bool. destruct (a ?= b) eqn:H; rewrite ?Z.compare_eq_iff in H; [subst; rewrite Z.eqb_refl; reflexivity| |]; symmetry; apply Z.eqb_neq; intros ->; rewrite Z.compare_refl in H; discriminate. Qed.

  Lemma num_ltb_inject a b :
    num_ltb (NumFin (inject_Z a)) (NumFin (inject_Z b)) = (a <? b).
  Proof.
    unfold num_ltb, num_leb, num_eqb. rewrite qle_inject, qeq_inject.
    destruct (a <=? b) eqn:H1, (a =? b) eqn:H2, (a <? b) eqn:H3; cbn; try reflexivity; lia.
  Qed.

  Theorem min_int m ex z :
    pred_eval E (PMin (VInt m) ex) (VInt z) = Ok (if ex then m <? z else m <=? z).
  Proof.
    cbn [pred_eval]. unfold py_le_gen. cbn [unsub is_dec_nan orb num_of].
    destruct ex; [rewrite num_ltb_inject | unfold num_leb; rewrite qle_inject]; reflexivity.
  Qed.

  Theorem max_int m ex z :
    pred_eval E (PMax (VInt m) ex) (VInt z) = Ok (if ex then z <? m else z <=? m).
  Proof.
    cbn [pred_eval]. unfold py_le_gen. cbn [unsub is_dec_nan orb num_of].
    destruct ex; [rewrite num_ltb_inject | unfold num_leb; rewrite qle_inject]; reflexivity.
  Qed.

  (* ---------- floats: exact comparison; NaN fails every bound; -0.0 = 0.0 ---------- *)

  Theorem float_nan_fails_bounds b ex :
    pred_eval E (PMin (VFloat b) ex) (VFloat FNan) = Ok false /\
    pred_eval E (PMax (VFloat b) ex) (VFloat FNan) = Ok false.
  Proof.
    split; cbn [pred_eval]; unfold py_le_gen; cbn [unsub is_dec_nan orb num_of float_num];
      destruct ex; unfold num_ltb, num_leb; destruct (float_num b) as [q|[|]|]; reflexivity.
  Qed.

  Theorem float_bound_exact a x ex :
    pred_eval E (PMin (VFloat a) ex) (VFloat x)
    = Ok (if ex then num_ltb (float_num a) (float_num x) else num_leb (float_num a) (float_num x)).
  Proof. cbn [pred_eval]. unfold py_le_gen. cbn [unsub is_dec_nan orb num_of]. destruct ex; reflexivity. Qed.

  Theorem float_signed_zeros_equal :
    py_eq (VFloat (FFin true 0 0)) (VFloat (FFin false 0 0)) = true.
  Proof. reflexivity. Qed.

  (* ---------- dates ---------- *)

  Theorem min_date m ex d :
    pred_eval E (PMin (VDate m) ex) (VDate d) = Ok (if ex then m <? d else m <=? d).
  Proof. cbn [pred_eval]. unfold py_le_gen. cbn [unsub]. destruct ex; reflexivity. Qed.

  Theorem max_date m ex d :
    pred_eval E (PMax (VDate m) ex) (VDate d) = Ok (if ex then d <? m else d <=? m).
  Proof. cbn [pred_eval]. unfold py_le_gen. cbn [unsub]. destruct ex; reflexivity. Qed.

  (* ---------- multiples ---------- *)

  Theorem multiple_of_int f z :
    f <> 0 -> pred_eval E (PMultipleOf (VInt f)) (VInt z) = Ok (z mod f =? 0).
  Proof.
    intros Hf. cbn [pred_eval]. unfold py_mod_is_zero. cbn [unsub num_of numkind_of int_val]. unfold mod_int.
    apply Z.eqb_neq in Hf. rewrite Hf. reflexivity.
  Qed.

  Theorem multiple_of_int_iff f z :
    f <> 0 -> (z mod f =? 0) = true <-> exists k, z = k * f.
  Proof.
    intros Hf. rewrite Z.eqb_eq. rewrite Z.mod_divide by exact Hf. unfold Z.divide. reflexivity.
  Qed.

  Lemma qred_inject k : Qred (inject_Z k) = inject_Z k.
  Proof.
    unfold Qred, inject_Z.
    pose proof (Z.ggcd_correct_divisors k 1) as H. pose proof (Z.ggcd_gcd k 1) as Hg.
    destruct (Z.ggcd k 1) as [g [r1 r2]]. cbn [fst snd] in *. rewrite Z.gcd_1_r in Hg. subst g.
    destruct H as [H1 H2]. rewrite Z.mul_1_l in H1, H2. subst. reflexivity.
  Qed.

  (* exact divisibility over the rationals (floats, Decimals) *)
  Lemma q_divisible_iff a b :
    ~ b == 0 -> q_divisible a b = true <-> exists k : Z, a == inject_Z k * b.
  Proof.
    intros Hb. unfold q_divisible. split.
    - intros H. apply Z.eqb_eq in H.
      exists (Qnum (Qred (a / b))).
      assert (Hq : Qred (a / b) == inject_Z (Qnum (Qred (a / b)))).
      { destruct (Qred (a / b)) as [n d] eqn:Hr. cbn [Qnum Qden] in *. inversion H; subst.
        unfold inject_Z. reflexivity. }
      rewrite <- Hq, Qred_correct. field. exact Hb.
    - intros [k Hk].
      assert (Hd : a / b == inject_Z k) by (rewrite Hk; field; exact Hb).
      apply Qred_complete in Hd. rewrite Hd, qred_inject. reflexivity.
  Qed.

  (* ---------- lengths and counts ---------- *)

  Theorem min_length_str n s : pred_eval E (PMinLength n) (VStr s) = Ok (n <=? zlen s).
  Proof. reflexivity. Qed.
  Theorem max_length_str n s : pred_eval E (PMaxLength n) (VStr s) = Ok (zlen s <=? n).
  Proof. reflexivity. Qed.
  Theorem exact_length_str n s : pred_eval E (PExactLength n) (VStr s) = Ok (zlen s =? n).
  Proof. reflexivity. Qed.
  Theorem min_length_bytes n s : pred_eval E (PMinLength n) (VBytes s) = Ok (n <=? zlen s).
  Proof. reflexivity. Qed.
  Theorem max_length_bytes n s : pred_eval E (PMaxLength n) (VBytes s) = Ok (zlen s <=? n).
  Proof. reflexivity. Qed.
  Theorem exact_length_bytes n s : pred_eval E (PExactLength n) (VBytes s) = Ok (zlen s =? n).
  Proof. reflexivity. Qed.
  Theorem min_items_list n xs : pred_eval E (PMinItems n) (VList xs) = Ok (n <=? zlen xs).
  Proof. reflexivity. Qed.
  Theorem max_items_list n xs : pred_eval E (PMaxItems n) (VList xs) = Ok (zlen xs <=? n).
  Proof. reflexivity. Qed.
  Theorem exact_items_tuple n xs : pred_eval E (PExactItemCount n) (VTuple xs) = Ok (zlen xs =? n).
  Proof. reflexivity. Qed.
  Theorem min_items_set n xs : pred_eval E (PMinItems n) (VSet xs) = Ok (n <=? zlen xs).
  Proof. reflexivity. Qed.
  Theorem min_keys n kvs : pred_eval E (PMinKeys n) (VDict kvs) = Ok (n <=? zlen kvs).
  Proof. reflexivity. Qed.
  Theorem max_keys n kvs : pred_eval E (PMaxKeys n) (VDict kvs) = Ok (zlen kvs <=? n).
  Proof. reflexivity. Qed.

  (* ---------- membership and equality ---------- *)

  Theorem choices_membership cs x :
    hashable (chashable E) x = true -> pred_eval E (PChoices cs) x = Ok (py_in x cs).
  Proof. intros H. cbn [pred_eval]. rewrite H. destruct (unsub x); reflexivity. Qed.

  Theorem equal_to_is_eq m x :
    is_dec_snan (unsub m) = false -> is_dec_snan (unsub x) = false ->
    pred_eval E (PEqualTo m) x = Ok (py_eq x m).
  Proof. intros Hm Hx. cbn [pred_eval]. unfold py_eq_p. rewrite Hm, Hx. reflexivity. Qed.

  (* ---------- prefix / suffix ---------- *)

  Lemma is_prefix_iff p s : is_prefix p s = true <-> exists t, s = p ++ t.
  Proof.
    revert s; induction p as [|x p IH]; intros s; cbn [is_prefix].
    - split; [intros _; exists s; reflexivity | reflexivity].
    - destruct s as [|y s].
      + split; [discriminate | intros [t H]; discriminate].
      + rewrite andb_true_iff, Z.eqb_eq, IH. split.
        * intros [-> [t ->]]. exists t. reflexivity.
        * intros [t H]. inversion H; subst. split; [reflexivity | exists t; reflexivity].
  Qed.

  Lemma is_suffix_iff p s : is_suffix p s = true <-> exists t, s = t ++ p.
  Proof.
    unfold is_suffix. rewrite is_prefix_iff. split.
    - intros [t H]. exists (rev t). apply (f_equal (@rev Z)) in H.
      rewrite rev_involutive, rev_app_distr, rev_involutive in H. exact H.
    - intros [t ->]. exists (rev t). rewrite rev_app_distr. reflexivity.
  Qed.

  Theorem starts_with_str p s :
    pred_eval E (PStartsWith (VStr p)) (VStr s) = Ok (is_prefix p s).
  Proof. reflexivity. Qed.
  Theorem ends_with_str p s :
    pred_eval E (PEndsWith (VStr p)) (VStr s) = Ok (is_suffix p s).
  Proof. reflexivity. Qed.
  Theorem starts_with_bytes p s :
    pred_eval E (PStartsWith (VBytes p)) (VBytes s) = Ok (is_prefix p s).
  Proof. reflexivity. Qed.
  Theorem ends_with_bytes p s :
    pred_eval E (PEndsWith (VBytes p)) (VBytes s) = Ok (is_suffix p s).
  Proof. reflexivity. Qed.

  (* ---------- strip / not blank ---------- *)

  Lemma lstrip_nil sp s : lstrip sp s = [] <-> forallb sp s = true.
  Proof.
    induction s as [|c s IH]; cbn [lstrip forallb]; [tauto|].
    destruct (sp c); cbn [andb]; [exact IH | split; discriminate].
  Qed.

  Lemma forallb_rev {A} (f : A -> bool) l : forallb f (rev l) = forallb f l.
  Proof.
    induction l as [|a l IH]; [reflexivity|]. cbn [rev forallb]. rewrite forallb_app, IH.
    cbn [forallb]. rewrite andb_true_r. apply andb_comm.
  Qed.

  Lemma lstrip_suffix sp s : exists pre, s = pre ++ lstrip sp s /\ forallb sp pre = true.
  Proof.
    induction s as [|c s [pre [H1 H2]]]; cbn [lstrip]; [exists []; split; reflexivity|].
    destruct (sp c) eqn:Hc.
    - exists (c :: pre). split; [cbn [app]; f_equal; exact H1 | cbn [forallb]; rewrite Hc; exact H2].
    - exists []. split; reflexivity.
  Qed.

  Lemma strip_nil sp s : strip_with sp s = [] <-> forallb sp s = true.
  Proof.
    unfold strip_with. split.
    - intros H. apply (f_equal (@rev Z)) in H. rewrite rev_involutive in H. cbn [rev] in H.
      apply lstrip_nil in H. rewrite forallb_rev in H.
      destruct (lstrip_suffix sp s) as [pre [Hs Hp]]. rewrite Hs, forallb_app, Hp, H. reflexivity.
    - intros H. assert (H1 : lstrip sp s = []) by (apply lstrip_nil; exact H). rewrite H1. reflexivity.
  Qed.

  Theorem not_blank_str s :
    pred_eval E PNotBlank (VStr s) = Ok (negb (forallb is_space_uni s)).
  Proof.
    cbn [pred_eval py_strip unsub pbind py_len]. f_equal.
    destruct (forallb is_space_uni s) eqn:H.
    - apply strip_nil in H. rewrite H. reflexivity.
    - destruct (strip_with is_space_uni s) as [|c t] eqn:Hs.
      + apply strip_nil in Hs. congruence.
      + unfold zlen. cbn [length]. rewrite Nat2Z.inj_succ. cbn [negb].
        destruct (Z.succ (Z.of_nat (length t)) =? 0) eqn:Hz; [apply Z.eqb_eq in Hz; lia | reflexivity].
  Qed.

  Theorem not_blank_bytes s :
    pred_eval E PNotBlank (VBytes s) = Ok (negb (forallb is_space_ascii s)).
  Proof.
    cbn [pred_eval py_strip unsub pbind py_len]. f_equal.
    destruct (forallb is_space_ascii s) eqn:H.
    - apply strip_nil in H. rewrite H. reflexivity.
    - destruct (strip_with is_space_ascii s) as [|c t] eqn:Hs.
      + apply strip_nil in Hs. congruence.
      + unfold zlen. cbn [length]. rewrite Nat2Z.inj_succ. cbn [negb].
        destruct (Z.succ (Z.of_nat (length t)) =? 0) eqn:Hz; [apply Z.eqb_eq in Hz; lia | reflexivity].
  Qed.

  (* not blank <-> some character is not whitespace *)
  Theorem not_blank_iff (sp : Z -> bool) (s : list Z) :
    negb (forallb sp s) = true <-> exists c, In c s /\ sp c = false.
  Proof.
    rewrite negb_true_iff. split.
    - intros H. induction s as [|c s IH]; [discriminate|]. cbn [forallb] in H.
      destruct (sp c) eqn:Hc; [|exists c; split; [left; reflexivity | exact Hc]].
      destruct (IH H) as [c' [Hin Hc']]. exists c'. split; [right; exact Hin | exact Hc'].
    - intros [c [Hin Hc]]. destruct (forallb sp s) eqn:H; [|reflexivity].
      rewrite forallb_forall in H. rewrite (H c Hin) in Hc. discriminate.
  Qed.

  (* strip removes exactly the leading and trailing whitespace, and is idempotent *)
  Lemma lstrip_idem sp s : lstrip sp (lstrip sp s) = lstrip sp s.
  Proof.
    induction s as [|c s IH]; [reflexivity|]. cbn [lstrip]. destruct (sp c) eqn:Hc; [exact IH|].
    cbn [lstrip]. rewrite Hc. reflexivity.
  Qed.

  Lemma lstrip_noop sp s : (match s with [] => True | c :: _ => sp c = false end) -> lstrip sp s = s.
  Proof. destruct s as [|c s]; [reflexivity|]. cbn [lstrip]. intros ->. reflexivity. Qed.

  Lemma lstrip_head sp s : match lstrip sp s with [] => True | c :: _ => sp c = false end.
  Proof.
    induction s as [|c s IH]; [exact I|]. cbn [lstrip]. destruct (sp c) eqn:Hc; [exact IH | exact Hc].
  Qed.

  (* dropping trailing whitespace keeps a non-whitespace head *)
  Lemma rstrip_keeps_head sp u :
    (match u with [] => True | c :: _ => sp c = false end) ->
    match rev (lstrip sp (rev u)) with [] => True | c :: _ => sp c = false end.
  Proof.
    destruct u as [|c u]; [intros _; exact I|]. intros Hc.
    destruct (lstrip_suffix sp (rev (c :: u))) as [pre [Hs Hp]].
    remember (lstrip sp (rev (c :: u))) as t.
    assert (Hu : c :: u = rev t ++ rev pre).
    { apply (f_equal (@rev Z)) in Hs. rewrite rev_involutive, rev_app_distr in Hs. exact Hs. }
    destruct (rev t) as [|c' t'] eqn:Ht.
    - cbn [app] in Hu. exfalso.
      assert (Hin : In c (rev pre)) by (rewrite <- Hu; left; reflexivity).
      apply in_rev in Hin. rewrite forallb_forall in Hp. rewrite (Hp c Hin) in Hc. discriminate.
    - cbn [app] in Hu. inversion Hu; subst. exact Hc.
  Qed.

  Theorem strip_idempotent sp s : strip_with sp (strip_with sp s) = strip_with sp s.
  Proof.
    unfold strip_with.
    set (u := lstrip sp s).
    set (t := rev (lstrip sp (rev u))).
    assert (H1 : lstrip sp t = t).
    { apply lstrip_noop. apply rstrip_keeps_head. apply lstrip_head. }
    rewrite H1. unfold t. rewrite rev_involutive, lstrip_idem. reflexivity.
  Qed.

  Theorem strip_str s : proc_apply E Strip (VStr s) = Ok (VStr (strip_with is_space_uni s)).
  Proof. reflexivity. Qed.
  Theorem strip_bytes s : proc_apply E Strip (VBytes s) = Ok (VBytes (strip_with is_space_ascii s)).
  Proof. reflexivity. Qed.

  (* the stripped string is the input minus a whitespace prefix and a whitespace suffix *)
  Theorem strip_decomposes sp s :
    exists pre post, s = pre ++ strip_with sp s ++ post /\
                     forallb sp pre = true /\ forallb sp post = true.
  Proof.
    unfold strip_with. destruct (lstrip_suffix sp s) as [pre [Hs Hp]].
    destruct (lstrip_suffix sp (rev (lstrip sp s))) as [post [Ht Hq]].
    exists pre, (rev post). split; [|split; [exact Hp | rewrite forallb_rev; exact Hq]].
    apply (f_equal (@rev Z)) in Ht. rewrite rev_involutive, rev_app_distr in Ht.
    rewrite <- Ht. exact Hs.
  Qed.

  (* ---------- case mapping (ASCII part is concrete) ---------- *)

  Theorem upper_bytes s : proc_apply E Upper (VBytes s) = Ok (VBytes (map ascii_upper s)).
  Proof. reflexivity. Qed.
  Theorem lower_bytes s : proc_apply E Lower (VBytes s) = Ok (VBytes (map ascii_lower s)).
  Proof. reflexivity. Qed.
  Theorem upper_ascii_str s :
    all_ascii s = true -> proc_apply E Upper (VStr s) = Ok (VStr (map ascii_upper s)).
  Proof. intros H. cbn [proc_apply py_case unsub]. rewrite H. reflexivity. Qed.
  Theorem lower_ascii_str s :
    all_ascii s = true -> proc_apply E Lower (VStr s) = Ok (VStr (map ascii_lower s)).
  Proof. intros H. cbn [proc_apply py_case unsub]. rewrite H. reflexivity. Qed.

  Lemma ascii_upper_idem c : ascii_upper (ascii_upper c) = ascii_upper c.
  Proof. unfold ascii_upper, in_range. destruct ((97 <=? c) && (c <=? 122)) eqn:H; [|rewrite H; reflexivity].
         apply andb_prop in H. destruct H as [H1 H2]. apply Z.leb_le in H1, H2.
         destruct ((97 <=? c - 32) && (c - 32 <=? 122)) eqn:H3; [|reflexivity].
         apply andb_prop in H3. destruct H3 as [H3 _]. apply Z.leb_le in H3. lia. Qed.
  Lemma ascii_lower_idem c : ascii_lower (ascii_lower c) = ascii_lower c.
  Proof. unfold ascii_lower, in_range. destruct ((65 <=? c) && (c <=? 90)) eqn:H; [|rewrite H; reflexivity].
         apply andb_prop in H. destruct H as [H1 H2]. apply Z.leb_le in H1, H2.
         destruct ((65 <=? c + 32) && (c + 32 <=? 90)) eqn:H3; [|reflexivity].
         apply andb_prop in H3. destruct H3 as [_ H3]. apply Z.leb_le in H3. lia. Qed.
  Theorem upper_bytes_idempotent s : map ascii_upper (map ascii_upper s) = map ascii_upper s.
  Proof. rewrite map_map. apply map_ext. apply ascii_upper_idem. Qed.
  Theorem lower_bytes_idempotent s : map ascii_lower (map ascii_lower s) = map ascii_lower s.
  Proof. rewrite map_map. apply map_ext. apply ascii_lower_idem. Qed.

  (* ---------- uniqueness distinguishes equal values of different types ---------- *)

  (* no earlier item is typed-equal to a later one *)
  Fixpoint typed_nodup (xs : list pyval) : Prop :=
    match xs with
    | [] => True
    | x :: r => (forall y, In y r -> typed_eq y x = false) /\ typed_nodup r
    end.

  Lemma unique_typed_spec seen xs :
    unique_typed seen xs = true <->
    (forall x, In x xs -> forall y, In y seen -> typed_eq x y = false) /\ typed_nodup xs.
  Proof.
    revert seen; induction xs as [|x xs IH]; intros seen; cbn [unique_typed typed_nodup].
    - split; [intros _; split; [intros ? []|exact I] | reflexivity].
    - destruct (existsb (typed_eq x) seen) eqn:Hex.
      + split; [discriminate|]. intros [H _]. apply existsb_exists in Hex. destruct Hex as [y [Hin Hy]].
        rewrite (H x (or_introl eq_refl) y Hin) in Hy. discriminate.
      + rewrite IH. split.
        * intros [H1 H2]. split; [|split; [|exact H2]].
          -- intros x' [<-|Hin] y Hy.
             ++ destruct (typed_eq x y) eqn:Ht; [|reflexivity].
                assert (existsb (typed_eq x) seen = true) by (apply existsb_exists; exists y; auto). congruence.
             ++ apply (H1 x' Hin). right; exact Hy.
          -- intros y Hin. apply (H1 y Hin). left; reflexivity.
        * intros [H1 [H2 H3]]. split; [|exact H3].
          intros x' Hin y [<-|Hy]; [apply H2; exact Hin | apply H1; [right; exact Hin | exact Hy]].
  Qed.

  Theorem unique_items_list xs :
    pred_eval E PUniqueItems (VList xs) = Ok (unique_typed [] xs) /\
    (unique_typed [] xs = true <-> typed_nodup xs).
  Proof.
    split; [reflexivity|]. rewrite unique_typed_spec. split; [tauto|]. intros H. split; [intros ? ? ? []|exact H].
  Qed.

  Theorem unique_items_distinguishes_types :
    pred_eval E PUniqueItems (VList [VInt 1; VBool true; VFloat (FFin false 1 0)]) = Ok true /\
    pred_eval E PUniqueItems (VList [VInt 1; VInt 1]) = Ok false /\
    pred_eval E PUniqueItems (VList [VList [VInt 1]; VList [VInt 1]]) = Ok false /\
    pred_eval E PUniqueItems (VList [VList [VInt 1]; VList [VBool true]]) = Ok false.
  Proof. repeat split; reflexivity. Qed.
End Preds.
