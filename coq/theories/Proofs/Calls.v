(* Generic facts about [run_calls] and the item collectors. *)
From Coq Require Import ZArith List Bool Lia.
From KV Require Import Base.PyVal Base.Prims Model.Validator Model.Sem.
Import ListNotations.
Open Scope nat_scope.

Definition callr (rec : runner) (c : call) : outcome := rec (fst c) (snd c).

(* ---------- run_calls ---------- *)

Lemma run_calls_ext s rec1 rec2 cs :
  Forall (fun c => callr rec1 c = callr rec2 c) cs ->
  run_calls s rec1 cs = run_calls s rec2 cs.
Proof.
  induction cs as [|[v x] cs IH]; intros H; [reflexivity|].
  inversion H as [|? ? Hc Hrest]; subst. unfold callr in Hc; cbn [fst snd] in Hc.
  cbn [run_calls]. rewrite Hc. rewrite (IH Hrest). reflexivity.
Qed.

(* when every call returns normally, the outcomes are exactly the calls' results *)
Lemma run_calls_normal rec cs :
  Forall (fun c => normal (callr rec c) = true) cs ->
  run_calls false rec cs = map (callr rec) cs.
Proof.
  induction cs as [|[v x] cs IH]; intros H; [reflexivity|].
  inversion H as [|? ? Hc Hrest]; subst. unfold callr in Hc; cbn [fst snd] in Hc.
  cbn [run_calls map]. unfold callr at 1; cbn [fst snd].
  destruct (rec v x) eqn:Hr; try discriminate; rewrite (IH Hrest); reflexivity.
Qed.

(* the outcome list is a prefix of the calls' results, ending at the first abnormal one *)
Lemma run_calls_prefix rec cs :
  Forall (fun o => normal o = true) (run_calls false rec cs) ->
  Forall (fun c => normal (callr rec c) = true) cs.
Proof.
  induction cs as [|[v x] cs IH]; intros H; [constructor|].
  cbn [run_calls] in H.
  destruct (rec v x) eqn:Hr.
  - inversion H; subst. constructor; [unfold callr; cbn [fst snd]; rewrite Hr; reflexivity | auto].
  - inversion H; subst. constructor; [unfold callr; cbn [fst snd]; rewrite Hr; reflexivity | auto].
  - inversion H; subst. discriminate.
  - inversion H; subst. discriminate.
  - inversion H; subst. discriminate.
Qed.

Lemma run_calls_abnormal_last rec cs o :
  In o (run_calls false rec cs) -> normal o = false ->
  exists pre c post, cs = pre ++ c :: post /\ callr rec c = o /\
                     Forall (fun c' => normal (callr rec c') = true) pre.
Proof.
  induction cs as [|[v x] cs IH]; intros Hin Hn; [destruct Hin|].
  cbn [run_calls] in Hin.
  destruct (rec v x) eqn:Hr.
  - destruct Hin as [<-|Hin]; [discriminate|].
    destruct (IH Hin Hn) as [pre [c [post [-> [Hc Hpre]]]]].
    exists ((v, x) :: pre), c, post. repeat split; auto.
    constructor; [unfold callr; cbn [fst snd]; rewrite Hr; reflexivity | exact Hpre].
  - destruct Hin as [<-|Hin]; [discriminate|].
    destruct (IH Hin Hn) as [pre [c [post [-> [Hc Hpre]]]]].
    exists ((v, x) :: pre), c, post. repeat split; auto.
    constructor; [unfold callr; cbn [fst snd]; rewrite Hr; reflexivity | exact Hpre].
  - destruct Hin as [<-|[]]. exists [], (v, x), cs. repeat split; auto.
  - destruct Hin as [<-|[]]. exists [], (v, x), cs. repeat split; auto.
  - destruct Hin as [<-|[]]. exists [], (v, x), cs. repeat split; auto.
Qed.

(* ---------- collect_items ---------- *)

Fixpoint valid_payloads (outs : list outcome) : list pyval :=
  match outs with
  | [] => []
  | OValid w :: r => w :: valid_payloads r
  | _ :: r => valid_payloads r
  end.

Fixpoint index_errs (i : nat) (outs : list outcome) : list (nat * invalid) :=
  match outs with
  | [] => []
  | OInvalid inv :: r => (i, inv) :: index_errs (S i) r
  | _ :: r => index_errs (S i) r
  end.

Lemma collect_items_ok i outs ws errs :
  collect_items i outs = inr (ws, errs) ->
  Forall (fun o => normal o = true) outs /\ ws = valid_payloads outs /\ errs = index_errs i outs.
Proof.
  revert i ws errs; induction outs as [|o outs IH]; intros i ws errs H; cbn [collect_items] in H.
  - inversion H; subst. repeat split; constructor.
  - destruct o; try discriminate.
    + destruct (collect_items (S i) outs) as [?|[ws' errs']] eqn:Hc; [discriminate|].
      inversion H; subst. destruct (IH _ _ _ Hc) as [Hn [-> ->]].
      repeat split; [constructor; [reflexivity|exact Hn]].
    + destruct (collect_items (S i) outs) as [?|[ws' errs']] eqn:Hc; [discriminate|].
      inversion H; subst. destruct (IH _ _ _ Hc) as [Hn [-> ->]].
      repeat split; [constructor; [reflexivity|exact Hn]].
Qed.

Lemma collect_items_normal i outs :
  Forall (fun o => normal o = true) outs ->
  collect_items i outs = inr (valid_payloads outs, index_errs i outs).
Proof.
  revert i; induction outs as [|o outs IH]; intros i H; [reflexivity|].
  inversion H; subst. cbn [collect_items valid_payloads index_errs].
  destruct o; try discriminate; rewrite (IH _ H3); reflexivity.
Qed.

Lemma collect_items_abnormal i outs o :
  collect_items i outs = inl o -> In o outs /\ normal o = false.
Proof.
  revert i; induction outs as [|o' outs IH]; intros i H; cbn [collect_items] in H; [discriminate|].
  destruct o'.
  - destruct (collect_items (S i) outs) as [o''|[? ?]] eqn:Hc; [|discriminate].
    inversion H; subst. destruct (IH _ Hc). split; [right|]; assumption.
  - destruct (collect_items (S i) outs) as [o''|[? ?]] eqn:Hc; [|discriminate].
    inversion H; subst. destruct (IH _ Hc). split; [right|]; assumption.
  - inversion H; subst. split; [left|]; reflexivity.
  - inversion H; subst. split; [left|]; reflexivity.
  - inversion H; subst. split; [left|]; reflexivity.
Qed.

(* no index error <-> every outcome is Valid *)
Lemma index_errs_nil i outs :
  Forall (fun o => normal o = true) outs ->
  index_errs i outs = [] ->
  outs = map OValid (valid_payloads outs).
Proof.
  revert i; induction outs as [|o outs IH]; intros i Hn He; [reflexivity|].
  inversion Hn; subst. destruct o; try discriminate.
  cbn [index_errs] in He. cbn [valid_payloads map]. f_equal. eapply IH; eauto.
Qed.

Lemma valid_payloads_map ws : valid_payloads (map OValid ws) = ws.
Proof. induction ws; cbn; congruence. Qed.

Lemma index_errs_map_valid i ws : index_errs i (map OValid ws) = [].
Proof. revert i; induction ws; intros; cbn; auto. Qed.

(* exactly the failing positions, each with the child's own Invalid *)
Lemma index_errs_spec i outs j inv :
  In (j, inv) (index_errs i outs) <-> (i <= j /\ nth_error outs (j - i) = Some (OInvalid inv)).
Proof.
  revert i; induction outs as [|o outs IH]; intros i; cbn [index_errs].
  - split; [intros [] | intros [_ H]]. destruct (j - i); discriminate.
  - assert (Hstep : In (j, inv) (index_errs (S i) outs) <->
                    (i < j /\ nth_error (o :: outs) (j - i) = Some (OInvalid inv))).
    { rewrite IH. split.
      - intros [Hle Hn]. split; [lia|]. replace (j - i) with (S (j - S i)) by lia. exact Hn.
      - intros [Hlt Hn]. split; [lia|]. replace (j - i) with (S (j - S i)) in Hn by lia. exact Hn. }
    destruct o; try (rewrite Hstep; split;
      [intros [Hlt Hn]; split; [lia|exact Hn]
      |intros [Hle Hn]; destruct (Nat.eq_dec i j) as [->|Hne];
        [rewrite Nat.sub_diag in Hn; discriminate | split; [lia|exact Hn]]]).
    cbn [In]. rewrite Hstep. split.
    + intros [Heq|[Hlt Hn]].
      * inversion Heq; subst. split; [lia|]. rewrite Nat.sub_diag. reflexivity.
      * split; [lia|exact Hn].
    + intros [Hle Hn]. destruct (Nat.eq_dec i j) as [->|Hne].
      * rewrite Nat.sub_diag in Hn. cbn in Hn. inversion Hn; subst. left; reflexivity.
      * right. split; [lia|exact Hn].
Qed.

Lemma map_callr_item rec item xs :
  map (callr rec) (map (fun xi => (item, xi)) xs) = map (rec item) xs.
Proof. rewrite map_map. reflexivity. Qed.

Lemma Forall_callr_item (P : outcome -> Prop) rec item xs :
  Forall (fun c => P (callr rec c)) (map (fun xi => (item, xi)) xs) <->
  Forall (fun x => P (rec item x)) xs.
Proof. rewrite Forall_map. reflexivity. Qed.

Lemma map_OValid_Forall2 {A} (f : A -> outcome) xs ws :
  map f xs = map OValid ws <-> Forall2 (fun x w => f x = OValid w) xs ws.
Proof.
  revert ws; induction xs as [|x xs IH]; intros [|w ws]; cbn; split; intros H;
    try discriminate; try constructor; try (inversion H; fail).
  - inversion H; auto.
  - inversion H; subst. apply IH. assumption.
  - inversion H; subst. f_equal; [assumption | apply IH; assumption].
Qed.
