(* C16: default coercers accept exactly the declared sources. *)
From Coq Require Import ZArith List Bool.
From KV Require Import Base.PyVal Base.Prims Model.Validator Model.Sem Proofs.Scalar.
Import ListNotations.

Section Coerce.
  Variable E : env.

  Theorem coerce_decimal_spec x y :
    coerce_apply E CoDecimal x = Some y <->
    (exact_type x TDecimal = true /\ y = x) \/
    (exact_type x TDecimal = false /\
     (isinstance (ckind E) x TStr || isinstance (ckind E) x TInt) = true /\
     oracle E OkDecimal x = Some y).
  Proof.
    cbn [coerce_apply]. destruct (exact_type x TDecimal) eqn:Hx.
    - split; [intros H; inversion H; left; auto | intros [[_ ->]|[H _]]; [reflexivity | discriminate]].
    - destruct (isinstance (ckind E) x TStr || isinstance (ckind E) x TInt) eqn:Hs.
      + split; [intros H; right; auto | intros [[H _]|[_ [_ H]]]; [discriminate | exact H]].
      + split; [discriminate | intros [[H _]|[_ [H _]]]; discriminate].
  Qed.

  Theorem coerce_uuid_spec x y :
    coerce_apply E CoUuid x = Some y <->
    (exact_type x TUuid = true /\ y = x) \/
    (exact_type x TUuid = false /\ exact_type x TStr = true /\ oracle E OkUuid x = Some y).
  Proof.
    cbn [coerce_apply]. destruct (exact_type x TUuid) eqn:Hx.
    - split; [intros H; inversion H; left; auto | intros [[_ ->]|[H _]]; [reflexivity | discriminate]].
    - destruct (exact_type x TStr) eqn:Hs.
      + split; [intros H; right; auto | intros [[H _]|[_ [_ H]]]; [discriminate | exact H]].
      + split; [discriminate | intros [[H _]|[_ [H _]]]; discriminate].
  Qed.

  Theorem coerce_date_spec x y :
    coerce_apply E CoDate x = Some y <->
    (exact_type x TDate = true /\ y = x) \/
    (exact_type x TDate = false /\ isinstance (ckind E) x TStr = true /\ oracle E OkDate x = Some y).
  Proof.
    cbn [coerce_apply]. destruct (exact_type x TDate) eqn:Hx.
    - split; [intros H; inversion H; left; auto | intros [[_ ->]|[H _]]; [reflexivity | discriminate]].
    - destruct (isinstance (ckind E) x TStr) eqn:Hs.
      + split; [intros H; right; auto | intros [[H _]|[_ [_ H]]]; [discriminate | exact H]].
      + split; [discriminate | intros [[H _]|[_ [H _]]]; discriminate].
  Qed.

  Theorem coerce_datetime_spec x y :
    coerce_apply E CoDatetime x = Some y <->
    (exact_type x TDatetime = true /\ y = x) \/
    (exact_type x TDatetime = false /\ isinstance (ckind E) x TStr = true /\ oracle E OkDatetime x = Some y).
  Proof.
    cbn [coerce_apply]. destruct (exact_type x TDatetime) eqn:Hx.
    - split; [intros H; inversion H; left; auto | intros [[_ ->]|[H _]]; [reflexivity | discriminate]].
    - destruct (isinstance (ckind E) x TStr) eqn:Hs.
      + split; [intros H; right; auto | intros [[H _]|[_ [_ H]]]; [discriminate | exact H]].
      + split; [discriminate | intros [[H _]|[_ [H _]]]; discriminate].
  Qed.

  Theorem coerce_tuple_spec x y :
    coerce_apply E CoTupleOrList x = Some y <->
    (exists xs, x = VTuple xs /\ y = x) \/ (exists xs, x = VList xs /\ y = VTuple xs).
  Proof.
    cbn [coerce_apply]. destruct x; split; intros H; try discriminate;
      try (destruct H as [[xs0 [H _]]|[xs0 [H _]]]; discriminate).
    - inversion H. right. eexists; eauto.
    - destruct H as [[xs0 [H _]]|[xs0 [H ->]]]; [discriminate | inversion H; reflexivity].
    - inversion H. left. eexists; eauto.
    - destruct H as [[xs0 [H ->]]|[xs0 [H _]]]; [reflexivity | discriminate].
  Qed.

  (* never coerced: floats, bytes; a datetime is not a date *)
  Theorem never_coerced :
    (forall f, coerce_apply E CoDecimal (VFloat f) = None) /\
    (forall b, coerce_apply E CoDecimal (VBytes b) = None) /\
    (forall b, coerce_apply E CoUuid (VBytes b) = None) /\
    (forall b, coerce_apply E CoDate (VBytes b) = None) /\
    (forall b, coerce_apply E CoDatetime (VBytes b) = None) /\
    (forall u t, coerce_apply E CoDate (VDatetime u t) = None) /\
    (forall f, coerce_apply E CoDate (VFloat f) = None) /\
    (forall z, coerce_apply E CoUuid (VInt z) = None) /\
    (forall z, coerce_apply E CoDate (VInt z) = None).
  Proof. repeat split; reflexivity. Qed.

  (* subclasses of the target type are not the target type *)
  Theorem subclass_of_target_rejected c b :
    ckind E c = CkSub TDecimal -> coerce_apply E CoDecimal (VSub c b) = None.
  Proof.
    intros Hc. cbn [coerce_apply]. unfold exact_type. cbn [type_of pytype_eqb].
    unfold isinstance. rewrite Hc. reflexivity.
  Qed.

  (* the rejection names the declared compatible types *)
  Theorem coercion_error_types k c x :
    coerce_apply E c x = None ->
    gate E (Some c) (ktype k) (ktype k) x = inl (CoercionErr (coerce_compat E c) (ktype k)).
  Proof. unfold gate. intros ->. reflexivity. Qed.

  Theorem declared_compat :
    coerce_compat E CoDecimal = [TInt; TStr; TDecimal] /\
    coerce_compat E CoUuid = [TStr; TUuid] /\
    coerce_compat E CoDate = [TStr; TDate] /\
    coerce_compat E CoDatetime = [TStr; TDatetime] /\
    coerce_compat E CoTupleOrList = [TList; TTuple].
  Proof. repeat split; reflexivity. Qed.

  (* canonical text round-trips, given that the stdlib parses what it prints *)
  Theorem roundtrip k c (print : pyval -> pyval) ok y :
    (c = CoDecimal /\ ok = OkDecimal /\ k = KDecimal) \/ (c = CoUuid /\ ok = OkUuid /\ k = KUuid) \/
    (c = CoDate /\ ok = OkDate /\ k = KDate) \/ (c = CoDatetime /\ ok = OkDatetime /\ k = KDatetime) ->
    exact_type (print y) TStr = true ->
    oracle E ok (print y) = Some y ->
    forall fuel m, run E m (S fuel) (Scalar k (Some c) [] [] []) (print y) = OValid y.
  Proof.
    intros Hc Hs Ho fuel m. cbn [run step]. unfold scalar_body.
    assert (Hg : mode_eqb m Sync && nonempty (@nil apredicate) = false) by (destruct m; reflexivity).
    rewrite Hg. unfold gate.
    assert (Hstr : forall t, t <> TStr -> exact_type (print y) t = false).
    { intros t Ht. unfold exact_type in *. apply pytype_eqb_eq in Hs. rewrite Hs.
      destruct t; try reflexivity. congruence. }
    assert (Hi : isinstance (ckind E) (print y) TStr = true).
    { unfold exact_type in Hs. destruct (print y); cbn in Hs; try discriminate. reflexivity. }
    assert (Hco : coerce_apply E c (print y) = Some y).
    { destruct Hc as [[-> [-> _]]|[[-> [-> _]]|[[-> [-> _]]|[-> [-> _]]]]]; cbn [coerce_apply].
      - rewrite (Hstr TDecimal) by discriminate. rewrite Hi. exact Ho.
      - rewrite (Hstr TUuid) by discriminate. rewrite Hs. exact Ho.
      - rewrite (Hstr TDate) by discriminate. rewrite Hi. exact Ho.
      - rewrite (Hstr TDatetime) by discriminate. rewrite Hi. exact Ho. }
    rewrite Hco. cbn [procs_apply]. unfold all_failing. cbn [failing_preds pbind].
    destruct m; reflexivity.
  Qed.
End Coerce.
