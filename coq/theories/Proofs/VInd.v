(* An induction principle for validator trees that reaches through the nested lists. *)
From Coq Require Import ZArith List Bool.
From KV Require Import Base.PyVal Base.Prims Model.Validator.
Import ListNotations.

Section VInd.
  Variable P : validator -> Prop.
  Hypothesis HScalar : forall k co pre ps aps, P (Scalar k co pre ps aps).
  Hypothesis HNone : forall co, P (NoneV co).
  Hypothesis HEquals : forall m pre, P (EqualsV m pre).
  Hypothesis HAlways : P AlwaysValid.
  Hypothesis HIsDict : P IsDictV.
  Hypothesis HList : forall item ps aps co, P item -> P (ListV item ps aps co).
  Hypothesis HSet : forall item ps aps co, P item -> P (SetV item ps aps co).
  Hypothesis HUTuple : forall item ps aps co, P item -> P (UTupleV item ps aps co).
  Hypothesis HNTuple : forall fields vobj co, Forall P fields -> P (NTupleV fields vobj co).
  Hypothesis HMap : forall kv vv ps aps co, P kv -> P vv -> P (MapV kv vv ps aps co).
  Hypothesis HRecord : forall keys into vobj avobj strict,
      Forall (fun kv => P (snd kv)) keys -> P (RecordV keys into vobj avobj strict).
  Hypothesis HDictAny : forall schema vobj avobj strict,
      Forall (fun kv => P (snd kv)) schema -> P (DictAnyV schema vobj avobj strict).
  Hypothesis HClass : forall rk c schema vobj avobj strict co,
      Forall (fun kv => P (fst (snd kv))) schema -> P (ClassV rk c schema vobj avobj strict co).
  Hypothesis HUnion : forall vs, Forall P vs -> P (UnionV vs).
  Hypothesis HOptional : forall nv inner, P nv -> P inner -> P (OptionalV nv inner).
  Hypothesis HMaybe : forall inner, P inner -> P (MaybeV inner).
  Hypothesis HLazy : forall r rec, P (LazyV r rec).
  Hypothesis HKnr : forall inner, P inner -> P (KeyNotRequired inner).
  Hypothesis HCache : forall inner, P inner -> P (CacheV inner).
  Hypothesis HUser : forall id flav, P (UserV id flav).

  Theorem validator_ind' : forall v, P v.
  Proof.
    fix IH 1. intros v. destruct v.
    - apply HScalar.
    - apply HNone.
    - apply HEquals.
    - apply HAlways.
    - apply HIsDict.
    - apply HList. apply IH.
    - apply HSet. apply IH.
    - apply HUTuple. apply IH.
    - apply HNTuple. induction fields as [|x xs IHxs]; constructor; [apply IH | exact IHxs].
    - apply HMap; apply IH.
    - apply HRecord. induction keys as [|[k x] xs IHxs]; constructor; [apply IH | exact IHxs].
    - apply HDictAny. induction schema as [|[k x] xs IHxs]; constructor; [apply IH | exact IHxs].
    - apply HClass. induction schema as [|[k [x b]] xs IHxs]; constructor; [apply IH | exact IHxs].
    - apply HUnion. induction vs as [|x xs IHxs]; constructor; [apply IH | exact IHxs].
    - apply HOptional; apply IH.
    - apply HMaybe; apply IH.
    - apply HLazy.
    - apply HKnr; apply IH.
    - apply HCache; apply IH.
    - apply HUser.
  Qed.
End VInd.
