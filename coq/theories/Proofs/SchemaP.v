(* C10: every schema the generator returns is made of JSON types only and is a valid
   Draft 2020-12 schema (structural reading, Model/SchemaWf.v); every exception is TypeError. *)
From Coq Require Import ZArith List Bool String Lia.
From KV Require Import Base.PyVal Base.Prims Model.Validator Model.Schema Model.SchemaWf
     Proofs.EqbSound Proofs.VInd.
Import ListNotations.
Open Scope Z_scope.

Arguments lit : simpl never.

(* ---------- strings ---------- *)

Lemma jstr_eqb_refl a : jstr_eqb a a = true.
Proof. unfold jstr_eqb. induction a as [|x a IH]; cbn; [reflexivity|]. rewrite Z.eqb_refl. exact IH. Qed.

Lemma jstr_eqb_eq a b : jstr_eqb a b = true -> a = b.
Proof. apply zlist_eqb_sound. Qed.

Lemma jstr_eqb_sym a b : jstr_eqb a b = jstr_eqb b a.
Proof.
  destruct (jstr_eqb a b) eqn:H1.
  - apply jstr_eqb_eq in H1. subst. symmetry. apply jstr_eqb_refl.
  - destruct (jstr_eqb b a) eqn:H2; [|reflexivity].
    apply jstr_eqb_eq in H2. subst. rewrite jstr_eqb_refl in H1. discriminate.
Qed.

Lemma forallb_map {A B} (f : A -> B) (p : B -> bool) l : forallb p (map f l) = forallb (fun x => p (f x)) l.
Proof. induction l as [|x l IH]; cbn; [reflexivity|]. rewrite IH. reflexivity. Qed.

(* ---------- good objects ---------- *)

Definition good (j : json) : Prop := json_ok j = true /\ schema_ok j = true.

Definition good_entry (kv : jstring * json) : bool := entry_ok schema_ok kv && json_ok (snd kv).

Definition good_obj (kvs : list (jstring * json)) : bool := keys_unique kvs && forallb good_entry kvs.

Lemma good_obj_good kvs : good_obj kvs = true -> good (JObj kvs).
Proof.
  unfold good_obj, good. intros H. apply andb_prop in H. destruct H as [Hu Hf].
  cbn [json_ok schema_ok]. rewrite Hu. cbn [andb].
  split; apply forallb_forall; intros e He; rewrite forallb_forall in Hf; specialize (Hf e He);
    unfold good_entry in Hf; apply andb_prop in Hf; tauto.
Qed.

Lemma good_good_obj kvs : good (JObj kvs) -> good_obj kvs = true.
Proof.
  unfold good, good_obj. cbn [json_ok schema_ok]. intros [H1 H2].
  apply andb_prop in H1. destruct H1 as [Hu H1]. rewrite Hu in *. cbn [andb] in *.
  apply forallb_forall. intros e He. unfold good_entry.
  rewrite forallb_forall in H1, H2. rewrite (H1 e He), (H2 e He). reflexivity.
Qed.

Lemma existsb_keys_obj_set a r k v :
  existsb (jstr_eqb a) (map fst (obj_set r k v)) = existsb (jstr_eqb a) (map fst r) || jstr_eqb a k.
Proof.
  induction r as [|[k' v'] r IH]; cbn [obj_set map fst existsb].
  - rewrite orb_false_r. reflexivity.
  - destruct (jstr_eqb k' k) eqn:Hk; cbn [map fst existsb].
    + apply jstr_eqb_eq in Hk. subst k'.
      destruct (jstr_eqb a k); cbn [orb]; [reflexivity|]. rewrite orb_false_r. reflexivity.
    + rewrite IH. rewrite orb_assoc. reflexivity.
Qed.

Lemma obj_set_unique r k v : keys_unique r = true -> keys_unique (obj_set r k v) = true.
Proof.
  unfold keys_unique. induction r as [|[k' v'] r IH]; cbn [obj_set map fst strs_unique]; intros H.
  - reflexivity.
  - apply andb_prop in H. destruct H as [H1 H2].
    destruct (jstr_eqb k' k) eqn:Hk; cbn [map fst strs_unique].
    + rewrite H1, H2. reflexivity.
    + rewrite existsb_keys_obj_set. apply negb_true_iff in H1. rewrite H1, Hk. cbn. apply IH; exact H2.
Qed.

Lemma obj_set_entries (Q : jstring * json -> bool) r k v :
  forallb Q r = true -> Q (k, v) = true -> forallb Q (obj_set r k v) = true.
Proof.
  induction r as [|[k' v'] r IH]; cbn [obj_set forallb]; intros H Hq.
  - rewrite Hq. reflexivity.
  - apply andb_prop in H. destruct H as [H1 H2].
    destruct (jstr_eqb k' k) eqn:Hk; cbn [forallb].
    + apply jstr_eqb_eq in Hk. subst k'. rewrite Hq, H2. reflexivity.
    + rewrite H1. cbn. apply IH; assumption.
Qed.

Lemma obj_set_good r k v : good_obj r = true -> good_entry (k, v) = true -> good_obj (obj_set r k v) = true.
Proof.
  unfold good_obj. intros H He. apply andb_prop in H. destruct H as [H1 H2].
  rewrite obj_set_unique by exact H1. cbn. apply obj_set_entries; assumption.
Qed.

Lemma obj_update_good b : forall a, good_obj a = true -> forallb good_entry b = true -> good_obj (obj_update a b) = true.
Proof.
  unfold obj_update. induction b as [|[k v] b IH]; cbn [fold_left forallb fst snd]; intros a Ha Hb; [exact Ha|].
  apply andb_prop in Hb. destruct Hb as [H1 H2]. apply IH; [apply obj_set_good; assumption | exact H2].
Qed.

Ltac kw :=
  repeat match goal with
         | |- context [kw_class ?k] =>
             let c := eval vm_compute in (kw_class k) in change (kw_class k) with c
         end.

Lemma good_entry_schema k j : kw_class k = KwSchema -> good j -> good_entry (k, j) = true.
Proof. unfold good_entry, entry_ok, good. intros -> [H1 H2]. cbn [snd]. rewrite H1, H2. reflexivity. Qed.

Lemma good_entry_any k j : kw_class k = KwAny -> json_ok j = true -> good_entry (k, j) = true.
Proof. unfold good_entry, entry_ok. intros -> H. cbn [snd]. rewrite H. reflexivity. Qed.

Lemma good_entry_str k s : kw_class k = KwString -> good_entry (k, JStr s) = true.
Proof. unfold good_entry, entry_ok. intros ->. reflexivity. Qed.

Lemma good_entry_nonneg k n : kw_class k = KwNonNeg -> 0 <=? n = true -> good_entry (k, JInt n) = true.
Proof. unfold good_entry, entry_ok. intros -> H. cbn [snd json_ok]. rewrite H. reflexivity. Qed.

(* ---------- parameters ---------- *)

Section P.
  Variable text_of : textkind -> pyval -> option jstring.

  Lemma choice_json_ok : forall v,
      match choice_json text_of v with Ok j => json_ok j = true | Exn e => e = ExType end.
  Proof.
    fix IH 1. intros v. destruct v; cbn [choice_json]; try reflexivity.
    - destruct f; reflexivity.
    - destruct (text_of TkDecodeUtf8 (VBytes s)); reflexivity.
    - assert (H : match (fix go (l : list pyval) : pres (list json) :=
                           match l with
                           | [] => Ok []
                           | x :: r => pbind (choice_json text_of x) (fun y => pbind (go r) (fun ys => Ok (y :: ys)))
                           end) xs with
                  | Ok js => forallb json_ok js = true
                  | Exn e => e = ExType
                  end).
      { induction xs as [|x xs IHxs]; [reflexivity|].
        specialize (IH x). destruct (choice_json text_of x) as [y|e]; cbn [pbind]; [|exact IH].
        match goal with |- match pbind ?g _ with _ => _ end => destruct g as [ys|e] end; cbn [pbind]; [|exact IHxs].
        cbn [forallb]. rewrite IH, IHxs. reflexivity. }
      match goal with |- match pbind ?g _ with _ => _ end => destruct g as [ys|e] end; cbn [pbind json_ok]; exact H.
  Qed.

  Lemma pmap_choice_ok s :
    match pmap (choice_json text_of) s with Ok js => forallb json_ok js = true | Exn e => e = ExType end.
  Proof.
    induction s as [|x s IH]; cbn [pmap]; [reflexivity|].
    pose proof (choice_json_ok x) as Hx. destruct (choice_json text_of x) as [y|e]; cbn [pbind]; [|exact Hx].
    destruct (pmap (choice_json text_of) s) as [ys|e]; cbn [pbind]; [|exact IH].
    cbn [forallb]. rewrite Hx, IH. reflexivity.
  Qed.

  Lemma bound_schema_ok is_min m ex :
    match bound_schema text_of is_min m ex with
    | Ok d => forallb good_entry d = true
    | Exn e => e = ExType
    end.
  Proof.
    destruct m; cbn [bound_schema]; try reflexivity.
    - destruct is_min, ex; reflexivity.
    - destruct f; cbn [float_finite]; try reflexivity. destruct is_min, ex; reflexivity.
    - destruct is_min, ex; reflexivity.
    - destruct is_min, ex; reflexivity.
    - destruct is_min, ex; reflexivity.
  Qed.

  Lemma exn_eqb_type e : exn_eqb e ExType = true -> e = ExType.
  Proof. destruct e; cbn; congruence. Qed.

  Lemma pred_schema_ok p :
    pred_cfg_ok p = true ->
    match pred_schema text_of p with
    | Ok d => good_obj d = true
    | Exn e => e = ExType
    end.
  Proof.
    assert (Hb : forall is_min m ex, match bound_schema text_of is_min m ex with
                                     | Ok d => good_obj d = true | Exn e => e = ExType end).
    { intros is_min m ex. pose proof (bound_schema_ok is_min m ex) as H.
      destruct (bound_schema text_of is_min m ex) as [d|e] eqn:E; [|exact H].
      unfold good_obj. rewrite H, andb_true_r.
      destruct m; cbn [bound_schema] in E; try discriminate;
        try (destruct f; cbn [float_finite] in E; try discriminate); injection E as <-; reflexivity. }
    destruct p; cbn [pred_schema pred_cfg_ok]; intros Hc.
    - apply Hb.
    - apply Hb.
    - reflexivity.
    - destruct (py_sorted cs) as [s|e]; cbn [pbind]; [|apply exn_eqb_type; exact Hc].
      pose proof (pmap_choice_ok s) as H. destruct (pmap (choice_json text_of) s) as [js|e]; cbn [pbind]; [|exact H].
      unfold good_obj. replace (keys_unique _) with true by reflexivity.
      cbn [andb forallb]. unfold good_entry, entry_ok. kw. cbn [snd json_ok]. rewrite H. reflexivity.
    - pose proof (choice_json_ok m) as H. destruct (choice_json text_of m) as [j|e]; cbn [pbind]; [|exact H].
      unfold good_obj. replace (keys_unique _) with true by reflexivity.
      cbn [andb forallb]. unfold good_entry, entry_ok. kw. cbn [snd json_ok forallb]. rewrite H. reflexivity.
    - unfold good_obj. replace (keys_unique _) with true by reflexivity. cbn [andb forallb].
      rewrite good_entry_nonneg by (try reflexivity; exact Hc). reflexivity.
    - unfold good_obj. replace (keys_unique _) with true by reflexivity. cbn [andb forallb].
      rewrite good_entry_nonneg by (try reflexivity; exact Hc). reflexivity.
    - reflexivity.
    - reflexivity.
    - unfold good_obj. replace (keys_unique _) with true by reflexivity. cbn [andb forallb].
      rewrite good_entry_nonneg by (try reflexivity; exact Hc). reflexivity.
    - unfold good_obj. replace (keys_unique _) with true by reflexivity. cbn [andb forallb].
      rewrite good_entry_nonneg by (try reflexivity; exact Hc). reflexivity.
    - unfold good_obj. replace (keys_unique _) with true by reflexivity. cbn [andb forallb].
      rewrite !good_entry_nonneg by (try reflexivity; exact Hc). reflexivity.
    - destruct (unsub s); reflexivity.
    - destruct (unsub s); reflexivity.
    - reflexivity.
    - reflexivity.
    - reflexivity.
    - unfold good_obj. replace (keys_unique _) with true by reflexivity. cbn [andb forallb].
      rewrite good_entry_nonneg by (try reflexivity; exact Hc). reflexivity.
    - unfold good_obj. replace (keys_unique _) with true by reflexivity. cbn [andb forallb].
      rewrite good_entry_nonneg by (try reflexivity; exact Hc). reflexivity.
    - reflexivity.
  Qed.

  Lemma preds_update_ok ps : forall base,
      forallb pred_cfg_ok ps = true -> good_obj base = true ->
      match preds_update text_of base ps with
      | Ok d => good_obj d = true
      | Exn e => e = ExType
      end.
  Proof.
    induction ps as [|p ps IH]; cbn [preds_update forallb]; intros base Hc Hb; [exact Hb|].
    apply andb_prop in Hc. destruct Hc as [Hp Hps].
    pose proof (pred_schema_ok p Hp) as H. destruct (pred_schema text_of p) as [d|e]; cbn [pbind]; [|exact H].
    apply IH; [exact Hps | apply obj_update_good; [exact Hb | unfold good_obj in H; apply andb_prop in H; apply H]].
  Qed.

  Lemma base_of_type_ok t :
    match base_of_type t with Ok d => good_obj d = true | Exn e => e = ExType end.
  Proof. destruct t; cbn [base_of_type]; try reflexivity. Qed.

  (* ---------- children ---------- *)

  Variable named : option jstring.
  Notation to_schema := (to_schema text_of named).

  Definition res_ok (r : pres json) : Prop :=
    match r with
    | Ok j => (exists d, j = JObj d) /\ good j
    | Exn e => e = ExType
    end.

  Definition many_of (f : validator -> pres json) :=
    fix many (vs : list validator) : pres (list json) :=
      match vs with
      | [] => Ok []
      | x :: r => pbind (f x) (fun j => pbind (many r) (fun js => Ok (j :: js)))
      end.

  Definition many_k_of (f : validator -> pres json) :=
    fix many_k (ks : list (pyval * validator)) : pres (list json) :=
      match ks with
      | [] => Ok []
      | (_, x) :: r => pbind (f x) (fun j => pbind (many_k r) (fun js => Ok (j :: js)))
      end.

  Definition many_c_of (f : validator -> pres json) :=
    fix many_c (ks : list (pyval * (validator * bool))) : pres (list json) :=
      match ks with
      | [] => Ok []
      | (_, (x, _)) :: r => pbind (f x) (fun j => pbind (many_c r) (fun js => Ok (j :: js)))
      end.

  Lemma many_k_map f ks : many_k_of f ks = many_of f (map snd ks).
  Proof. induction ks as [|[k x] ks IH]; cbn; [reflexivity|]. rewrite IH. reflexivity. Qed.

  Lemma many_c_map f ks : many_c_of f ks = many_of f (map (fun kv => fst (snd kv)) ks).
  Proof. induction ks as [|[k [x b]] ks IH]; cbn; [reflexivity|]. rewrite IH. reflexivity. Qed.

  Lemma many_ok vs :
    Forall (fun v => cfg_ok text_of v = true -> res_ok (to_schema v)) vs ->
    forallb (cfg_ok text_of) vs = true ->
    match many_of to_schema vs with
    | Ok js => List.length js = List.length vs /\ Forall good js
    | Exn e => e = ExType
    end.
  Proof.
    induction vs as [|x vs IH]; intros HF Hc; [cbn; split; [reflexivity | constructor]|].
    inversion HF as [|? ? Hx Hvs]; subst. cbn [forallb] in Hc. apply andb_prop in Hc. destruct Hc as [Hcx Hcv].
    cbn [many_of]. specialize (Hx Hcx). destruct (to_schema x) as [j|e]; cbn [pbind res_ok] in *; [|exact Hx].
    specialize (IH Hvs Hcv). fold (many_of to_schema). destruct (many_of to_schema vs) as [js|e]; cbn [pbind]; [|exact IH].
    destruct IH as [Hl Hg]. split; [cbn; rewrite Hl; reflexivity | constructor; [apply Hx | exact Hg]].
  Qed.

  (* properties / required *)

  Lemma props_of_good ls js :
    Forall good js ->
    keys_unique (props_of ls js) = true /\
    forallb (fun e => schema_ok (snd e)) (props_of ls js) = true /\
    forallb (fun e => json_ok (snd e)) (props_of ls js) = true.
  Proof.
    unfold props_of. intros Hg.
    assert (H : forall (l : list (jstring * json)) acc,
               Forall (fun e => good (snd e)) l ->
               keys_unique acc = true /\ forallb (fun e => schema_ok (snd e)) acc = true
               /\ forallb (fun e => json_ok (snd e)) acc = true ->
               let r := fold_left (fun acc kv => obj_set acc (fst kv) (snd kv)) l acc in
               keys_unique r = true /\ forallb (fun e => schema_ok (snd e)) r = true
               /\ forallb (fun e => json_ok (snd e)) r = true).
    { induction l as [|[k v] l IH]; intros acc Hl Hacc; cbn [fold_left fst snd]; [exact Hacc|].
      inversion Hl as [|? ? [Hv1 Hv2] Hl']; subst. apply IH; [exact Hl'|].
      destruct Hacc as [A [B C]]. repeat split.
      - apply obj_set_unique; exact A.
      - apply (obj_set_entries (fun e => schema_ok (snd e))); [exact B | exact Hv2].
      - apply (obj_set_entries (fun e => json_ok (snd e))); [exact C | exact Hv1]. }
    apply H; [|repeat split; reflexivity].
    clear H. revert js Hg. induction ls as [|l ls IH]; intros js Hg; cbn [combine]; [constructor|].
    destruct js as [|j js]; [constructor|]. inversion Hg; subst. constructor; [assumption | apply IH; assumption].
  Qed.

  Lemma strs_unique_map_jstr xs :
    forallb is_jstr (map JStr xs) = true /\ map jstr_of (map JStr xs) = xs.
  Proof. induction xs as [|x xs [A B]]; cbn; [split; reflexivity|]. rewrite A, B. split; reflexivity. Qed.

  Lemma object_schema_good strict req props :
    strs_unique req = true ->
    keys_unique props = true ->
    forallb (fun e => schema_ok (snd e)) props = true ->
    forallb (fun e => json_ok (snd e)) props = true ->
    good (object_schema strict req props).
  Proof.
    intros Hr Hu Hs Hj. unfold object_schema. apply good_obj_good. unfold good_obj.
    replace (keys_unique _) with true by reflexivity. cbn [andb forallb].
    destruct (strs_unique_map_jstr req) as [A B].
    unfold good_entry, entry_ok. kw. cbn [snd json_ok is_jstr].
    rewrite A, B, Hr, Hu, Hs, Hj.
    assert (Hjs : forallb json_ok (map JStr req) = true) by (clear; induction req; cbn; auto).
    rewrite Hjs. destruct strict; reflexivity.
  Qed.

  Lemma existsb_filter_map {A} (f : A -> jstring) (p : A -> bool) k (l : list A) :
    existsb (jstr_eqb k) (map f (filter p l)) = true -> existsb (jstr_eqb k) (map f l) = true.
  Proof.
    induction l as [|x l IH]; cbn [filter map existsb]; [auto|].
    destruct (p x); cbn [map existsb]; intros H.
    - apply orb_prop in H. destruct H as [H|H]; [rewrite H; reflexivity | rewrite IH by exact H; apply orb_true_r].
    - rewrite IH by exact H. apply orb_true_r.
  Qed.

  Lemma strs_unique_filter {A} (f : A -> jstring) (p : A -> bool) (l : list A) :
    strs_unique (map f l) = true -> strs_unique (map f (filter p l)) = true.
  Proof.
    induction l as [|x l IH]; cbn [filter map strs_unique]; [auto|]. intros H.
    apply andb_prop in H. destruct H as [H1 H2]. destruct (p x); cbn [map strs_unique]; [|apply IH; exact H2].
    rewrite IH by exact H2. rewrite andb_true_r. apply negb_true_iff. apply negb_true_iff in H1.
    destruct (existsb (jstr_eqb (f x)) (map f (filter p l))) eqn:E; [|reflexivity].
    apply existsb_filter_map in E. congruence.
  Qed.

  Lemma existsb_insert_str k x xs :
    existsb (jstr_eqb k) (insert_str x xs) = jstr_eqb k x || existsb (jstr_eqb k) xs.
  Proof.
    induction xs as [|y ys IH]; cbn [insert_str existsb]; [reflexivity|].
    destruct (lex_leb false x y); cbn [existsb]; [reflexivity|].
    rewrite IH. rewrite !orb_assoc. rewrite (orb_comm (jstr_eqb k y)). reflexivity.
  Qed.

  Lemma strs_unique_insert x xs :
    strs_unique xs = true -> existsb (jstr_eqb x) xs = false -> strs_unique (insert_str x xs) = true.
  Proof.
    induction xs as [|y ys IH]; cbn [insert_str strs_unique existsb]; intros H Hx; [reflexivity|].
    apply andb_prop in H. destruct H as [H1 H2]. apply orb_false_elim in Hx. destruct Hx as [Hxy Hx].
    destruct (lex_leb false x y); cbn [strs_unique existsb].
    - rewrite Hxy, Hx, H1, H2. reflexivity.
    - rewrite existsb_insert_str. rewrite jstr_eqb_sym, Hxy. apply negb_true_iff in H1. rewrite H1. cbn.
      apply IH; assumption.
  Qed.

  Lemma existsb_sort_strings k xs : existsb (jstr_eqb k) (sort_strings xs) = existsb (jstr_eqb k) xs.
  Proof.
    unfold sort_strings. induction xs as [|x xs IH]; cbn [fold_right existsb]; [reflexivity|].
    rewrite existsb_insert_str, IH. reflexivity.
  Qed.

  Lemma strs_unique_sort xs : strs_unique xs = true -> strs_unique (sort_strings xs) = true.
  Proof.
    induction xs as [|x xs IH]; cbn [strs_unique]; intros H; [reflexivity|].
    apply andb_prop in H. destruct H as [H1 H2]. change (sort_strings (x :: xs)) with (insert_str x (sort_strings xs)).
    apply strs_unique_insert; [apply IH; exact H2|]. rewrite existsb_sort_strings. apply negb_true_iff. exact H1.
  Qed.

  (* ---------- the theorem ---------- *)

  Lemma scalar_like base ps aps :
    forallb pred_cfg_ok ps = true -> good_obj base = true ->
    res_ok (pbind (preds_update text_of base ps)
                  (fun d => pbind (apreds_schema aps) (fun _ => Ok (JObj d)))).
  Proof.
    intros Hc Hb. pose proof (preds_update_ok ps base Hc Hb) as H.
    destruct (preds_update text_of base ps) as [d|e]; cbn [pbind res_ok]; [|exact H].
    destruct aps; cbn [apreds_schema pbind res_ok]; [|reflexivity].
    split; [eexists; reflexivity | apply good_obj_good; exact H].
  Qed.

  Theorem to_schema_ok : forall v, cfg_ok text_of v = true -> res_ok (to_schema v).
  Proof.
    induction v using validator_ind'; intros Hc.
    - (* Scalar *) cbn [Schema.to_schema]. destruct (kind_type k) as [t|]; [|reflexivity].
      pose proof (base_of_type_ok t) as Hb. destruct (base_of_type t) as [base|e]; cbn [pbind]; [|exact Hb].
      apply scalar_like; [exact Hc | exact Hb].
    - reflexivity.
    - (* EqualsV *) cbn [Schema.to_schema].
      pose proof (base_of_type_ok (type_of m)) as Hb.
      destruct (base_of_type (type_of m)) as [base|e]; cbn [pbind]; [|exact Hb].
      pose proof (pred_schema_ok (PEqualTo m) eq_refl) as Hp.
      destruct (pred_schema text_of (PEqualTo m)) as [d|e]; cbn [pbind res_ok]; [|exact Hp].
      split; [eexists; reflexivity|]. apply good_obj_good, obj_update_good; [exact Hb|].
      unfold good_obj in Hp. apply andb_prop in Hp. apply Hp.
    - reflexivity.
    - (* IsDictV *) cbn. split; [eexists; reflexivity | split; reflexivity].
    - (* ListV *) cbn [cfg_ok] in Hc. apply andb_prop in Hc. destruct Hc as [Hi Hps].
      cbn [Schema.to_schema]. specialize (IHv Hi). destruct (to_schema v) as [j|e]; cbn [pbind res_ok] in *; [|exact IHv].
      apply scalar_like; [exact Hps|]. unfold good_obj. replace (keys_unique _) with true by reflexivity.
      cbn [andb forallb]. rewrite (good_entry_schema (lit "items") j) by (try reflexivity; apply IHv). reflexivity.
    - reflexivity.
    - (* UTupleV *) cbn [cfg_ok] in Hc. apply andb_prop in Hc. destruct Hc as [Hi Hps].
      cbn [Schema.to_schema]. specialize (IHv Hi). destruct (to_schema v) as [j|e]; cbn [pbind res_ok] in *; [|exact IHv].
      apply scalar_like; [exact Hps|]. unfold good_obj. replace (keys_unique _) with true by reflexivity.
      cbn [andb forallb]. rewrite (good_entry_schema (lit "items") j) by (try reflexivity; apply IHv). reflexivity.
    - (* NTupleV *) cbn [cfg_ok] in Hc. destruct fields as [|f0 fs]; [discriminate|].
      change (Schema.to_schema text_of named (NTupleV (f0 :: fs) vobj co))
        with (pbind (many_of to_schema (f0 :: fs)) (fun js =>
              let n := Z.of_nat (List.length (f0 :: fs)) in
              Ok (JObj [(lit "description", JStr (text text_of TkNtuple (VInt n)));
                        (lit "type", JStr (lit "array")); (lit "additionalItems", JBool false);
                        (lit "maxItems", JInt n); (lit "minItems", JInt n);
                        (lit "prefixItems", JArr js)]))).
      pose proof (many_ok (f0 :: fs) H Hc) as Hm.
      destruct (many_of to_schema (f0 :: fs)) as [js|e]; cbn [pbind res_ok]; [|exact Hm].
      destruct Hm as [Hl Hg]. split; [eexists; reflexivity|]. apply good_obj_good. unfold good_obj.
      replace (keys_unique _) with true by reflexivity. cbn [andb forallb].
      set (n := Z.of_nat (List.length (f0 :: fs))). assert (Hn : 0 <=? n = true) by (apply Z.leb_le; subst n; lia).
      rewrite !good_entry_nonneg by (try reflexivity; exact Hn).
      rewrite good_entry_str by reflexivity.
      destruct js as [|j js]; [cbn in Hl; discriminate|].
      unfold good_entry at 3, entry_ok. kw. cbn [snd json_ok].
      assert (Hs : forallb schema_ok (j :: js) = true) by (apply forallb_forall; intros x Hx; rewrite Forall_forall in Hg; apply (Hg x Hx)).
      assert (Hj : forallb json_ok (j :: js) = true) by (apply forallb_forall; intros x Hx; rewrite Forall_forall in Hg; apply (Hg x Hx)).
      rewrite Hs, Hj. reflexivity.
    - (* MapV *) cbn [cfg_ok] in Hc. apply andb_prop in Hc. destruct Hc as [Hc Hps]. apply andb_prop in Hc. destruct Hc as [_ Hv].
      cbn [Schema.to_schema]. specialize (IHv2 Hv). destruct (to_schema v2) as [j|e]; cbn [pbind res_ok] in *; [|exact IHv2].
      apply scalar_like; [exact Hps|]. unfold good_obj. replace (keys_unique _) with true by reflexivity.
      cbn [andb forallb]. rewrite (good_entry_schema (lit "additionalProperties") j) by (try reflexivity; apply IHv2). reflexivity.
    - (* RecordV *) cbn [cfg_ok] in Hc. apply andb_prop in Hc. destruct Hc as [Hl Hk].
      change (Schema.to_schema text_of named (RecordV keys into vobj avobj strict))
        with (pbind (many_k_of to_schema keys) (fun js =>
              Ok (object_schema strict
                    (map (fun kv => key_label text_of (fst kv)) (filter (fun kv => negb (is_knr (snd kv))) keys))
                    (props_of (map (fun kv => key_label text_of (fst kv)) keys) js)))).
      rewrite many_k_map.
      assert (HF : Forall (fun v => cfg_ok text_of v = true -> res_ok (to_schema v)) (map snd keys))
        by (apply Forall_map; exact H).
      assert (Hc' : forallb (cfg_ok text_of) (map snd keys) = true) by (rewrite forallb_map; exact Hk).
      pose proof (many_ok _ HF Hc') as Hm.
      destruct (many_of to_schema (map snd keys)) as [js|e]; cbn [pbind res_ok]; [|exact Hm].
      destruct Hm as [_ Hg]. split; [eexists; reflexivity|].
      destruct (props_of_good (map (fun kv => key_label text_of (fst kv)) keys) js Hg) as [A [B C]].
      apply object_schema_good; try assumption.
      apply strs_unique_filter. unfold labels_unique in Hl. rewrite map_map in Hl. exact Hl.
    - (* DictAnyV *) cbn [cfg_ok] in Hc. apply andb_prop in Hc. destruct Hc as [Hl Hk].
      change (Schema.to_schema text_of named (DictAnyV schema vobj avobj strict))
        with (pbind (many_k_of to_schema schema) (fun js =>
              Ok (object_schema strict
                    (map (fun kv => key_label text_of (fst kv)) (filter (fun kv => negb (is_knr (snd kv))) schema))
                    (props_of (map (fun kv => key_label text_of (fst kv)) schema) js)))).
      rewrite many_k_map.
      assert (HF : Forall (fun v => cfg_ok text_of v = true -> res_ok (to_schema v)) (map snd schema))
        by (apply Forall_map; exact H).
      assert (Hc' : forallb (cfg_ok text_of) (map snd schema) = true) by (rewrite forallb_map; exact Hk).
      pose proof (many_ok _ HF Hc') as Hm.
      destruct (many_of to_schema (map snd schema)) as [js|e]; cbn [pbind res_ok]; [|exact Hm].
      destruct Hm as [_ Hg]. split; [eexists; reflexivity|].
      destruct (props_of_good (map (fun kv => key_label text_of (fst kv)) schema) js Hg) as [A [B C]].
      apply object_schema_good; try assumption.
      apply strs_unique_filter. unfold labels_unique in Hl. rewrite map_map in Hl. exact Hl.
    - (* ClassV *) cbn [cfg_ok] in Hc. apply andb_prop in Hc. destruct Hc as [Hl Hk].
      change (Schema.to_schema text_of named (ClassV rk c schema vobj avobj strict co))
        with (pbind (many_c_of to_schema schema) (fun js =>
              let req := map (fun kv => key_label text_of (fst kv)) (filter (fun kv => snd (snd kv)) schema) in
              Ok (object_schema strict
                    (match rk with RkTyped => sort_strings req | _ => req end)
                    (props_of (map (fun kv => key_label text_of (fst kv)) schema) js)))).
      rewrite many_c_map.
      assert (HF : Forall (fun v => cfg_ok text_of v = true -> res_ok (to_schema v)) (map (fun kv => fst (snd kv)) schema))
        by (apply Forall_map; exact H).
      assert (Hc' : forallb (cfg_ok text_of) (map (fun kv => fst (snd kv)) schema) = true) by (rewrite forallb_map; exact Hk).
      pose proof (many_ok _ HF Hc') as Hm.
      destruct (many_of to_schema (map (fun kv => fst (snd kv)) schema)) as [js|e]; cbn [pbind res_ok]; [|exact Hm].
      destruct Hm as [_ Hg]. split; [eexists; reflexivity|].
      destruct (props_of_good (map (fun kv => key_label text_of (fst kv)) schema) js Hg) as [A [B C]].
      assert (Hreq : strs_unique (map (fun kv => key_label text_of (fst kv)) (filter (fun kv => snd (snd kv)) schema)) = true).
      { apply strs_unique_filter. unfold labels_unique in Hl. rewrite map_map in Hl. exact Hl. }
      apply object_schema_good; try assumption.
      destruct rk; try exact Hreq. apply strs_unique_sort. exact Hreq.
    - (* UnionV *) cbn [cfg_ok] in Hc. destruct vs as [|v0 vs]; [discriminate|].
      change (Schema.to_schema text_of named (UnionV (v0 :: vs)))
        with (pbind (many_of to_schema (v0 :: vs)) (fun js => Ok (JObj [(lit "oneOf", JArr js)]))).
      pose proof (many_ok (v0 :: vs) H Hc) as Hm.
      destruct (many_of to_schema (v0 :: vs)) as [js|e]; cbn [pbind res_ok]; [|exact Hm].
      destruct Hm as [Hl Hg]. split; [eexists; reflexivity|]. apply good_obj_good. unfold good_obj.
      replace (keys_unique _) with true by reflexivity. cbn [andb forallb].
      destruct js as [|j js]; [cbn in Hl; discriminate|].
      unfold good_entry, entry_ok. kw. cbn [snd json_ok].
      assert (Hs : forallb schema_ok (j :: js) = true) by (apply forallb_forall; intros x Hx; rewrite Forall_forall in Hg; apply (Hg x Hx)).
      assert (Hj : forallb json_ok (j :: js) = true) by (apply forallb_forall; intros x Hx; rewrite Forall_forall in Hg; apply (Hg x Hx)).
      rewrite Hs, Hj. reflexivity.
    - (* OptionalV *) cbn [cfg_ok] in Hc. apply andb_prop in Hc. destruct Hc as [_ Hi].
      cbn [Schema.to_schema]. specialize (IHv2 Hi). destruct (to_schema v2) as [j|e]; cbn [pbind res_ok] in *; [|exact IHv2].
      destruct IHv2 as [[d ->] Hg]. split; [eexists; reflexivity|].
      apply good_obj_good, obj_set_good; [apply good_good_obj; exact Hg | reflexivity].
    - reflexivity.
    - (* LazyV *) cbn [Schema.to_schema]. destruct named as [ref|]; [|reflexivity].
      destruct rec; cbn [res_ok]; (split; [eexists; reflexivity | split; reflexivity]).
    - (* KeyNotRequired *) cbn [cfg_ok] in Hc. cbn [Schema.to_schema]. apply IHv. exact Hc.
    - (* CacheV *) cbn [cfg_ok] in Hc. cbn [Schema.to_schema]. apply IHv. exact Hc.
    - reflexivity.
  Qed.

  Theorem pred_to_schema_ok p : pred_cfg_ok p = true -> res_ok (pred_to_schema text_of p).
  Proof.
    intros Hc. unfold pred_to_schema. pose proof (pred_schema_ok p Hc) as H.
    destruct (pred_schema text_of p) as [d|e]; cbn [pbind res_ok]; [|exact H].
    split; [eexists; reflexivity | apply good_obj_good; exact H].
  Qed.
End P.
