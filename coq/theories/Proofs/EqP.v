(* C19: validator equality is a behavioural congruence. *)
From Coq Require Import ZArith List Bool Lia.
From KV Require Import Base.PyVal Base.Prims Model.Validator Model.Sem Model.Eq
     Proofs.Scalar Proofs.EqbSound.
Import ListNotations.
Open Scope nat_scope.

(* ---------- soundness of the leaf equality tests ---------- *)

Lemma nat_eqb_sound a b : Nat.eqb a b = true -> a = b.
Proof. apply Nat.eqb_eq. Qed.

Lemma predicate_eqb_sound a b : predicate_eqb a b = true -> a = b.
Proof.
  destruct a, b; cbn [predicate_eqb]; try discriminate; intros H; try reflexivity;
    try (apply andb_prop in H; destruct H as [H1 H2]; apply pyval_eqb_sound in H1; apply bool_eqb_sound in H2; subst; reflexivity);
    try (apply pyval_eqb_sound in H; subst; reflexivity);
    try (apply Z.eqb_eq in H; subst; reflexivity);
    try (apply Nat.eqb_eq in H; subst; reflexivity).
  f_equal. apply (list_eqb_sound pyval_eqb); [intros x y _; apply pyval_eqb_sound | exact H].
Qed.

Lemma apredicate_eqb_sound a b : apredicate_eqb a b = true -> a = b.
Proof. destruct a, b; cbn. intros H. apply Nat.eqb_eq in H. subst; reflexivity. Qed.

Lemma processor_eqb_sound a b : processor_eqb a b = true -> a = b.
Proof. destruct a, b; cbn; try discriminate; intros H; try reflexivity. apply Nat.eqb_eq in H. subst; reflexivity. Qed.

Lemma coercer_eqb_sound a b : coercer_eqb a b = true -> a = b.
Proof. destruct a, b; cbn; try discriminate; intros H; try reflexivity; apply Nat.eqb_eq in H; subst; reflexivity. Qed.

Lemma scalar_kind_eqb_sound a b : scalar_kind_eqb a b = true -> a = b.
Proof. destruct a, b; cbn; try discriminate; intros H; try reflexivity. apply pytype_eqb_eq in H. subst; reflexivity. Qed.

Lemma record_kind_eqb_sound a b : record_kind_eqb a b = true -> a = b.
Proof. destruct a, b; cbn; try discriminate; reflexivity. Qed.

Lemma onat_eqb_sound a b : onat_eqb a b = true -> a = b.
Proof. apply option_eqb_sound. apply Nat.eqb_eq. Qed.

Lemma ocoercer_eqb_sound a b : ocoercer_eqb a b = true -> a = b.
Proof. apply option_eqb_sound. apply coercer_eqb_sound. Qed.

Lemma plist_sound a b : list_eqb predicate_eqb a b = true -> a = b.
Proof. apply list_eqb_sound. intros x y _. apply predicate_eqb_sound. Qed.
Lemma aplist_sound a b : list_eqb apredicate_eqb a b = true -> a = b.
Proof. apply list_eqb_sound. intros x y _. apply apredicate_eqb_sound. Qed.
Lemma prlist_sound a b : list_eqb processor_eqb a b = true -> a = b.
Proof. apply list_eqb_sound. intros x y _. apply processor_eqb_sound. Qed.

(* ---------- erasing the slots behaviour does not depend on ---------- *)

(* the class id of a TypedDict validator only labels it: the payload is a plain dict *)
Fixpoint erase (v : validator) : validator :=
  let fix vl (xs : list validator) : list validator :=
    match xs with [] => [] | x :: r => erase x :: vl r end in
  let fix kl (xs : list (pyval * validator)) : list (pyval * validator) :=
    match xs with [] => [] | (k, x) :: r => (k, erase x) :: kl r end in
  let fix sl (xs : list (pyval * (validator * bool))) : list (pyval * (validator * bool)) :=
    match xs with [] => [] | (k, (x, b)) :: r => (k, (erase x, b)) :: sl r end in
  match v with
  | ListV i ps aps co => ListV (erase i) ps aps co
  | SetV i ps aps co => SetV (erase i) ps aps co
  | UTupleV i ps aps co => UTupleV (erase i) ps aps co
  | NTupleV fs o co => NTupleV (vl fs) o co
  | MapV k x ps aps co => MapV (erase k) (erase x) ps aps co
  | RecordV ks i o a s => RecordV (kl ks) i o a s
  | DictAnyV ks o a s => DictAnyV (kl ks) o a s
  | ClassV RkTyped c sc o a s co => ClassV RkTyped 0 (sl sc) o a s co
  | ClassV rk c sc o a s co => ClassV rk c (sl sc) o a s co
  | UnionV vs => UnionV (vl vs)
  | OptionalV n i => OptionalV (erase n) (erase i)
  | MaybeV i => MaybeV (erase i)
  | KeyNotRequired i => KeyNotRequired (erase i)
  | CacheV i => CacheV (erase i)
  | _ => v
  end.

Section Sound.
  Variable mask : vkind -> nat -> bool.
  Hypothesis Hfull : forall k i, behavioural k i = true -> mask k i = true.

  Lemma cmp_true k i b : behavioural k i = true -> cmp mask k i b = true -> b = true.
  Proof. intros Hb. unfold cmp. rewrite (Hfull k i Hb). cbn. auto. Qed.

  Ltac split_ands :=
    repeat match goal with
           | H : (_ && _) = true |- _ => apply andb_prop in H; destruct H
           end.

  Ltac use_cmps :=
    repeat match goal with
           | H : cmp mask ?k ?i ?b = true |- _ =>
               apply (cmp_true k i b) in H;
               [| first [reflexivity | match goal with rk : record_kind |- _ => destruct rk; reflexivity end]]
           end.

  Ltac leafs :=
    repeat match goal with
           | H : scalar_kind_eqb _ _ = true |- _ => apply scalar_kind_eqb_sound in H
           | H : record_kind_eqb _ _ = true |- _ => apply record_kind_eqb_sound in H
           | H : ocoercer_eqb _ _ = true |- _ => apply ocoercer_eqb_sound in H
           | H : onat_eqb _ _ = true |- _ => apply onat_eqb_sound in H
           | H : list_eqb processor_eqb _ _ = true |- _ => apply prlist_sound in H
           | H : list_eqb predicate_eqb _ _ = true |- _ => apply plist_sound in H
           | H : list_eqb apredicate_eqb _ _ = true |- _ => apply aplist_sound in H
           | H : pyval_eqb _ _ = true |- _ => apply pyval_eqb_sound in H
           | H : Nat.eqb _ _ = true |- _ => apply Nat.eqb_eq in H
           | H : Bool.eqb _ _ = true |- _ => apply bool_eqb_sound in H
           end.

  Theorem veqb_sound : forall a b, veqb mask a b = true -> erase a = erase b.
  Proof.
    fix IH 1. intros a b. destruct a; destruct b; cbn [veqb]; try discriminate; intros H; try reflexivity.
    - (* Scalar *) split_ands. use_cmps. leafs. subst. reflexivity.
    - use_cmps. leafs. subst. reflexivity.
    - split_ands. use_cmps. leafs. subst. reflexivity.
    - (* ListV *)
      split_ands. use_cmps. leafs. subst. cbn [erase].
      match goal with Hv : veqb mask _ _ = true |- _ => apply IH in Hv; rewrite Hv end. reflexivity.
    - (* SetV *)
      split_ands. use_cmps. leafs. subst. cbn [erase].
      match goal with Hv : veqb mask _ _ = true |- _ => apply IH in Hv; rewrite Hv end. reflexivity.
    - (* UTupleV *)
      split_ands. use_cmps. leafs. subst. cbn [erase].
      match goal with Hv : veqb mask _ _ = true |- _ => apply IH in Hv; rewrite Hv end. reflexivity.
    - (* NTupleV *)
      split_ands. use_cmps. leafs. subst. cbn [erase]. f_equal.
      match goal with Hl : _ fields fields0 = true |- _ => revert fields0 Hl end.
      induction fields as [|x xs IHxs]; intros [|y ys] Hl; try discriminate; try reflexivity.
      apply andb_prop in Hl. destruct Hl as [Ha Hb]. f_equal; [apply IH; exact Ha | apply IHxs; exact Hb].
    - (* MapV *)
      split_ands. use_cmps. leafs. subst. cbn [erase].
      repeat match goal with Hv : veqb mask _ _ = true |- _ => apply IH in Hv; rewrite Hv end. reflexivity.
    - (* RecordV *)
      split_ands. use_cmps. leafs. subst. cbn [erase]. f_equal.
      match goal with Hl : _ keys keys0 = true |- _ => revert keys0 Hl end.
      induction keys as [|[k x] xs IHxs]; intros [|[k' y] ys] Hl; try discriminate; try reflexivity.
      apply andb_prop in Hl. destruct Hl as [Ha Hc]. apply andb_prop in Ha. destruct Ha as [Ha Hb].
      apply pyval_eqb_sound in Ha. subst. f_equal; [f_equal; apply IH; exact Hb | apply IHxs; exact Hc].
    - (* DictAnyV *)
      split_ands. use_cmps. leafs. subst. cbn [erase]. f_equal.
      match goal with Hl : _ schema schema0 = true |- _ => revert schema0 Hl end.
      induction schema as [|[k x] xs IHxs]; intros [|[k' y] ys] Hl; try discriminate; try reflexivity.
      apply andb_prop in Hl. destruct Hl as [Ha Hc]. apply andb_prop in Ha. destruct Ha as [Ha Hb].
      apply pyval_eqb_sound in Ha. subst. f_equal; [f_equal; apply IH; exact Hb | apply IHxs; exact Hc].
    - (* ClassV *)
      apply andb_prop in H. destruct H as [Hrk H]. apply record_kind_eqb_sound in Hrk. subst rk0.
      cbv zeta in H.
      apply andb_prop in H. destruct H as [H Hco]. apply andb_prop in H. destruct H as [H Hst].
      apply andb_prop in H. destruct H as [H Hav]. apply andb_prop in H. destruct H as [H Hvo].
      apply andb_prop in H. destruct H as [Hc Hsc].
      assert (Hsl : (fix sl (xs : list (pyval * (validator * bool))) : list (pyval * (validator * bool)) :=
                       match xs with [] => [] | (k, (x, b)) :: r => (k, (erase x, b)) :: sl r end) schema
                    = (fix sl (xs : list (pyval * (validator * bool))) : list (pyval * (validator * bool)) :=
                       match xs with [] => [] | (k, (x, b)) :: r => (k, (erase x, b)) :: sl r end) schema0).
      { assert (Hb2 : behavioural (class_vkind rk) 2 = true) by (destruct rk; reflexivity).
        assert (Hb7 : behavioural (class_vkind rk) 7 = true) by (destruct rk; reflexivity).
        clear - IH Hsc Hb2 Hb7 Hfull.
        revert schema0 Hsc. induction schema as [|[k [x r]] xs IHxs]; intros [|[k' [y r']] ys] Hl; try discriminate; try reflexivity.
        apply andb_prop in Hl. destruct Hl as [Ha Hc]. apply andb_prop in Ha. destruct Ha as [Ha Hb].
        apply (cmp_true _ 2 _ Hb2) in Ha. apply (cmp_true _ 7 _ Hb7) in Hb.
        apply andb_prop in Ha. destruct Ha as [Hk Hv]. apply pyval_eqb_sound in Hk. apply bool_eqb_sound in Hb. subst.
        f_equal; [f_equal; f_equal; apply IH; exact Hv | apply IHxs; exact Hc]. }
      assert (Hb3 : behavioural (class_vkind rk) 3 = true) by (destruct rk; reflexivity).
      assert (Hb4 : behavioural (class_vkind rk) 4 = true) by (destruct rk; reflexivity).
      assert (Hb5 : behavioural (class_vkind rk) 5 = true) by (destruct rk; reflexivity).
      assert (Hb6 : behavioural (class_vkind rk) 6 = true) by (destruct rk; reflexivity).
      apply (cmp_true _ 3 _ Hb3) in Hvo. apply (cmp_true _ 4 _ Hb4) in Hav. apply (cmp_true _ 5 _ Hb5) in Hst.
      apply (cmp_true _ 6 _ Hb6) in Hco.
      apply onat_eqb_sound in Hvo. apply onat_eqb_sound in Hav. apply bool_eqb_sound in Hst. apply ocoercer_eqb_sound in Hco.
      subst. destruct rk; cbn [erase]; rewrite Hsl; try reflexivity.
      + apply (cmp_true KData 1) in Hc; [|reflexivity]. apply Nat.eqb_eq in Hc. subst; reflexivity.
      + apply (cmp_true KNamed 1) in Hc; [|reflexivity]. apply Nat.eqb_eq in Hc. subst; reflexivity.
    - (* UnionV *)
      use_cmps. cbn [erase]. f_equal.
      revert vs0 H. induction vs as [|x xs IHxs]; intros [|y ys] Hl; try discriminate; try reflexivity.
      apply andb_prop in Hl. destruct Hl as [Ha Hb]. f_equal; [apply IH; exact Ha | apply IHxs; exact Hb].
    - (* OptionalV *)
      split_ands. use_cmps. cbn [erase].
      repeat match goal with Hv : veqb mask _ _ = true |- _ => apply IH in Hv; rewrite Hv end. reflexivity.
    - use_cmps. apply IH in H. cbn [erase]. rewrite H. reflexivity.
    - split_ands. use_cmps. leafs. subst; reflexivity.
    - use_cmps. apply IH in H. cbn [erase]. rewrite H. reflexivity.
    - use_cmps. apply IH in H. cbn [erase]. rewrite H. reflexivity.
    - split_ands. leafs. subst; reflexivity.
  Qed.
End Sound.

Lemma mask_full_of_b mask : mask_full_b mask = true -> forall k i, behavioural k i = true -> mask k i = true.
Proof.
  intros H k i Hb. unfold mask_full_b in H. rewrite forallb_forall in H.
  assert (Hk : In k all_kinds) by (destruct k; cbn; tauto).
  specialize (H k Hk). rewrite forallb_forall in H.
  assert (Hi : In i (seq 0 8)).
  { apply in_seq. split; [lia|]. destruct k; repeat (destruct i as [|i]; try discriminate; try lia). }
  specialize (H i Hi). rewrite Hb in H. exact H.
Qed.

(* the erased slot does not influence behaviour: a TypedDict validator's class id is a label *)
Lemma typed_class_irrelevant E rec self c c' schema vobj avobj strict co m x :
  class_body E rec self RkTyped c schema vobj avobj strict co m x
  = class_body E rec self RkTyped c' schema vobj avobj strict co m x.
Proof.
  unfold class_body. destruct (mode_eqb m Sync && has_some avobj); [reflexivity|].
  assert (Hg : class_gate E RkTyped c co x = class_gate E RkTyped c' co x).
  { unfold class_gate. destruct co; [reflexivity|]. destruct x; reflexivity. }
  rewrite Hg. reflexivity.
Qed.

(* ---------- reflexivity: independent rebuilds from the same arguments compare equal ---------- *)

Lemma list_eqb_refl {A} (eqb : A -> A -> bool) xs :
  (forall x, In x xs -> eqb x x = true) -> list_eqb eqb xs xs = true.
Proof.
  induction xs as [|x xs IH]; intros H; [reflexivity|]. cbn. rewrite (H x (or_introl eq_refl)). cbn.
  apply IH. intros y Hy. apply H. right; exact Hy.
Qed.

Lemma pyfloat_eqb_refl a : pyfloat_eqb a a = true.
Proof. destruct a; cbn; try reflexivity; rewrite ?Bool.eqb_reflx, ?Z.eqb_refl; reflexivity. Qed.
Lemma pydec_eqb_refl a : pydec_eqb a a = true.
Proof. destruct a; cbn; rewrite ?Bool.eqb_reflx, ?Z.eqb_refl; reflexivity. Qed.
Lemma pytype_eqb_refl a : pytype_eqb a a = true.
Proof. apply pytype_eqb_eq. reflexivity. Qed.

Lemma pyval_eqb_refl : forall a, pyval_eqb a a = true.
Proof.
  fix IH 1. intros a. destruct a; cbn [pyval_eqb]; try reflexivity.
  - apply Bool.eqb_reflx.
  - apply Z.eqb_refl.
  - apply pyfloat_eqb_refl.
  - apply list_eqb_refl. intros; apply Z.eqb_refl.
  - apply list_eqb_refl. intros; apply Z.eqb_refl.
  - apply pydec_eqb_refl.
  - apply Z.eqb_refl.
  - apply Z.eqb_refl.
  - rewrite Z.eqb_refl. destruct tz; cbn; [apply Z.eqb_refl | reflexivity].
  - induction xs as [|x xs IHxs]; [reflexivity|]. rewrite IH. exact IHxs.
  - induction xs as [|x xs IHxs]; [reflexivity|]. rewrite IH. exact IHxs.
  - induction xs as [|x xs IHxs]; [reflexivity|]. rewrite IH. exact IHxs.
  - induction kvs as [|[k v] kvs IHk]; [reflexivity|]. rewrite !IH. exact IHk.
  - apply IH.
  - rewrite Nat.eqb_refl. cbn. induction fields as [|[k v] kvs IHk]; [reflexivity|]. rewrite !IH. exact IHk.
  - rewrite Nat.eqb_refl. cbn. apply IH.
Qed.

Lemma predicate_eqb_refl a : predicate_eqb a a = true.
Proof.
  destruct a; cbn [predicate_eqb]; rewrite ?pyval_eqb_refl, ?Bool.eqb_reflx, ?Z.eqb_refl, ?Nat.eqb_refl; try reflexivity.
  apply list_eqb_refl. intros; apply pyval_eqb_refl.
Qed.
Lemma apredicate_eqb_refl a : apredicate_eqb a a = true.
Proof. destruct a; cbn. apply Nat.eqb_refl. Qed.
Lemma processor_eqb_refl a : processor_eqb a a = true.
Proof. destruct a; cbn; try reflexivity. apply Nat.eqb_refl. Qed.
Lemma coercer_eqb_refl a : coercer_eqb a a = true.
Proof. destruct a; cbn; try reflexivity; apply Nat.eqb_refl. Qed.
Lemma scalar_kind_eqb_refl a : scalar_kind_eqb a a = true.
Proof. destruct a; cbn; try reflexivity. apply pytype_eqb_refl. Qed.
Lemma onat_eqb_refl a : onat_eqb a a = true.
Proof. destruct a; cbn; [apply Nat.eqb_refl | reflexivity]. Qed.
Lemma ocoercer_eqb_refl a : ocoercer_eqb a a = true.
Proof. destruct a; cbn; [apply coercer_eqb_refl | reflexivity]. Qed.

Lemma cmp_of_true mask k i b : b = true -> cmp mask k i b = true.
Proof. intros ->. unfold cmp. destruct (mask k i); reflexivity. Qed.

Theorem veqb_refl mask : forall v, veqb mask v v = true.
Proof.
  fix IH 1. intros v. destruct v; cbn [veqb]; try reflexivity;
    repeat (apply andb_true_intro; split);
    try (apply cmp_of_true);
    try apply scalar_kind_eqb_refl; try apply ocoercer_eqb_refl; try apply onat_eqb_refl;
    try apply pyval_eqb_refl; try apply Nat.eqb_refl; try apply Bool.eqb_reflx;
    try (apply list_eqb_refl; intros; first [apply processor_eqb_refl | apply predicate_eqb_refl | apply apredicate_eqb_refl]);
    try apply IH.
  - induction fields as [|x xs IHxs]; [reflexivity|]. rewrite IH. exact IHxs.
  - induction keys as [|[k x] xs IHxs]; [reflexivity|]. rewrite pyval_eqb_refl, IH. exact IHxs.
  - induction schema as [|[k x] xs IHxs]; [reflexivity|]. rewrite pyval_eqb_refl, IH. exact IHxs.
  - destruct rk; reflexivity.
  - cbv zeta. repeat (apply andb_true_intro; split);
      try (apply cmp_of_true); try apply Nat.eqb_refl; try apply onat_eqb_refl; try apply Bool.eqb_reflx; try apply ocoercer_eqb_refl.
    induction schema as [|[k [x r]] xs IHxs]; [reflexivity|].
    rewrite !cmp_of_true; [exact IHxs | apply Bool.eqb_reflx | rewrite pyval_eqb_refl, IH; reflexivity].
  - induction vs as [|x xs IHxs]; [reflexivity|]. rewrite IH. exact IHxs.
Qed.
