(* Fuel is an artefact of the model: once a run has an answer other than "out of fuel", every
   run with at least as much fuel has the same answer.  Proved for every validator kind. *)
From Coq Require Import ZArith List Bool Lia.
From KV Require Import Base.PyVal Base.Prims Model.Validator Model.Sem
     Proofs.Calls Proofs.Collections Proofs.Records.
Import ListNotations.
Open Scope nat_scope.

Section Mono.
  Variable E : env.

  Definition le_run (r1 r2 : runner) : Prop := forall v x, r1 v x <> ONoFuel -> r2 v x = r1 v x.

  (* outcome lists: equal up to the point where the first runs out of fuel *)
  Inductive ole : list outcome -> list outcome -> Prop :=
  | ole_nil : ole [] []
  | ole_cons o r1 r2 : ole r1 r2 -> ole (o :: r1) (o :: r2)
  | ole_fuel r1 r2 : ole (ONoFuel :: r1) r2.

  Lemma run_calls_mono s r1 r2 cs : le_run r1 r2 -> ole (run_calls s r1 cs) (run_calls s r2 cs).
  Proof.
    intros Hle. induction cs as [|[v x] cs IH]; cbn [run_calls]; [constructor|].
    destruct (r1 v x) eqn:H1; try (rewrite (Hle v x) by (rewrite H1; discriminate); rewrite H1).
    - destruct s; constructor; [constructor | exact IH].
    - constructor; exact IH.
    - constructor; constructor.
    - constructor; constructor.
    - apply ole_fuel.
  Qed.

  Lemma collect_items_mono o1 o2 :
    ole o1 o2 -> forall i, collect_items i o1 = inl ONoFuel \/ collect_items i o2 = collect_items i o1.
  Proof.
    induction 1 as [|o r1 r2 _ IH|r1 r2]; intros i; cbn [collect_items]; [right; reflexivity| |left; reflexivity].
    destruct o; try (right; reflexivity);
      (destruct (IH (S i)) as [H1|H1]; rewrite H1; [left|right]; reflexivity).
  Qed.

  Lemma collect_set_mono o1 o2 :
    ole o1 o2 -> forall acc errs,
      collect_set E o1 acc errs = inl ONoFuel \/ collect_set E o2 acc errs = collect_set E o1 acc errs.
  Proof.
    induction 1 as [|o r1 r2 _ IH|r1 r2]; intros acc errs; cbn [collect_set]; [right; reflexivity| |left; reflexivity].
    destruct o; try (right; reflexivity).
    - destruct errs; [|apply IH]. destruct (hashable (chashable E) w); [apply IH | right; reflexivity].
    - apply IH.
  Qed.

  Lemma union_mono r1 r2 cs : le_run r1 r2 ->
    collect_union (run_calls true r1 cs) = inl ONoFuel \/
    collect_union (run_calls true r2 cs) = collect_union (run_calls true r1 cs).
  Proof.
    intros Hle. induction cs as [|[v x] cs IH]; cbn [run_calls]; [right; reflexivity|].
    destruct (r1 v x) eqn:H1; try (rewrite (Hle v x) by (rewrite H1; discriminate); rewrite H1);
      try (right; reflexivity); try (left; reflexivity).
    cbn [collect_union]. destruct IH as [H2|H2]; rewrite H2; [left|right]; reflexivity.
  Qed.

  Lemma map_ref_mono r1 r2 kv vv kvs : le_run r1 r2 -> forall acc errs,
      map_ref E r1 kv vv kvs acc errs = inl ONoFuel \/
      map_ref E r2 kv vv kvs acc errs = map_ref E r1 kv vv kvs acc errs.
  Proof.
    intros Hle. induction kvs as [|[k v] kvs IH]; intros acc errs; cbn [map_ref]; [right; reflexivity|]. cbv zeta.
    destruct (r1 kv k) eqn:Hk; try (rewrite (Hle kv k) by (rewrite Hk; discriminate); rewrite Hk);
      cbn [normal negb]; try (right; reflexivity); try (left; reflexivity);
      (destruct (r1 vv v) eqn:Hv; try (rewrite (Hle vv v) by (rewrite Hv; discriminate); rewrite Hv);
       cbn [normal negb]; try (right; reflexivity); try (left; reflexivity)).
    - destruct (hashable (chashable E) w); [apply IH | right; reflexivity].
    - apply IH.
    - apply IH.
    - apply IH.
  Qed.

  Lemma keys_ref_mono r1 r2 self pol keys data orig : le_run r1 r2 ->
      keys_ref r1 self pol keys data orig = inl ONoFuel \/
      keys_ref r2 self pol keys data orig = keys_ref r1 self pol keys data orig.
  Proof.
    intros Hle. induction keys as [|[k [v req]] keys IH]; cbn [keys_ref]; [right; reflexivity|].
    destruct (dict_get data k) as [xv|].
    - destruct (r1 v xv) eqn:Hr; try (rewrite (Hle v xv) by (rewrite Hr; discriminate); rewrite Hr);
        try (right; reflexivity); try (left; reflexivity);
        (destruct IH as [H1|H1]; rewrite H1; [left|right]; reflexivity).
    - destruct IH as [H1|H1]; rewrite H1; [left|right]; reflexivity.
  Qed.

  Ltac by_mono H := destruct H as [H|H]; rewrite H; [intros Hne; exfalso; apply Hne; reflexivity | intros _; reflexivity].

  Theorem step_mono m r1 r2 v x :
    le_run r1 r2 -> step E m r1 v x <> ONoFuel -> step E m r2 v x = step E m r1 v x.
  Proof.
    intros Hle. destruct v; cbn [step]; try (intros _; reflexivity).
    - (* list *) unfold list_body, seq_body.
      destruct (mode_eqb m Sync && nonempty aps); [intros _; reflexivity|].
      destruct (gate E co TList TList x); [intros _; reflexivity|].
      destruct (pred_stage E _ m ps aps p); [intros _; reflexivity|].
      destruct (py_iter p); [|intros _; reflexivity].
      pose proof (collect_items_mono _ _ (run_calls_mono false r1 r2 (map (fun xi => (v, xi)) a) Hle) 0) as H.
      by_mono H.
    - (* set *) unfold set_body.
      destruct (mode_eqb m Sync && nonempty aps); [intros _; reflexivity|].
      destruct (gate E co TSet TSet x); [intros _; reflexivity|].
      destruct (pred_stage E _ m ps aps p); [intros _; reflexivity|].
      destruct (py_iter p); [|intros _; reflexivity].
      pose proof (collect_set_mono _ _ (run_calls_mono false r1 r2 (map (fun xi => (v, xi)) a) Hle) [] []) as H.
      by_mono H.
    - (* utuple *) unfold utuple_body, seq_body.
      destruct (mode_eqb m Sync && nonempty aps); [intros _; reflexivity|].
      destruct (gate E co TTuple TList x); [intros _; reflexivity|].
      destruct (pred_stage E _ m ps aps p); [intros _; reflexivity|].
      destruct (py_iter p); [|intros _; reflexivity].
      pose proof (collect_items_mono _ _ (run_calls_mono false r1 r2 (map (fun xi => (v, xi)) a) Hle) 0) as H.
      by_mono H.
    - (* ntuple *) unfold ntuple_body.
      destruct (gate E co TTuple TList x); [intros _; reflexivity|]. cbv zeta.
      destruct (pred_eval E (PExactItemCount (zlen fields)) p) as [[|]|]; try (intros _; reflexivity).
      destruct (py_iter p); [|intros _; reflexivity].
      pose proof (collect_items_mono _ _ (run_calls_mono false r1 r2 (combine fields a) Hle) 0) as H.
      by_mono H.
    - (* map *) unfold map_body.
      destruct (mode_eqb m Sync && nonempty aps); [intros _; reflexivity|].
      destruct (gate E co TDict TDict x); [intros _; reflexivity|].
      destruct (pred_stage E _ m ps aps p); [intros _; reflexivity|].
      destruct (as_dict p); [|intros _; reflexivity].
      rewrite !collect_map_ref.
      pose proof (map_ref_mono r1 r2 v1 v2 l Hle [] []) as H.
      by_mono H.
    - (* record *) unfold record_body.
      destruct (mode_eqb m Sync && has_some avobj); [intros _; reflexivity|].
      destruct (negb (isinstance (ckind E) x TDict)); [intros _; reflexivity|].
      destruct (as_dict x); [|intros _; reflexivity].
      destruct (strict && has_unknown_key (map fst keys) l); [intros _; reflexivity|].
      rewrite !keys_loop_ref.
      pose proof (keys_ref_mono r1 r2 (RecordV keys into vobj avobj strict) AbsNothing (record_keys keys) l x Hle) as H.
      by_mono H.
    - (* dictany *) unfold dictany_body.
      destruct (mode_eqb m Sync && has_some avobj); [intros _; reflexivity|].
      destruct x; try (intros _; reflexivity).
      destruct (strict && has_unknown_key (map fst schema) kvs); [intros _; reflexivity|].
      rewrite !keys_loop_ref.
      pose proof (keys_ref_mono r1 r2 (DictAnyV schema vobj avobj strict) AbsOmit (dictany_keys schema) kvs (VDict kvs) Hle) as H.
      by_mono H.
    - (* class *) unfold class_body.
      destruct (mode_eqb m Sync && has_some avobj); [intros _; reflexivity|].
      destruct (class_gate E rk c co x); [intros _; reflexivity|].
      destruct (as_dict p); [|intros _; reflexivity].
      destruct (strict && has_unknown_key (map fst schema) l); [intros _; reflexivity|].
      rewrite !keys_loop_ref.
      pose proof (keys_ref_mono r1 r2 (ClassV rk c schema vobj avobj strict co) AbsOmit schema l p Hle) as H.
      by_mono H.
    - (* union *) unfold union_body.
      pose proof (union_mono r1 r2 (map (fun v0 => (v0, x)) vs) Hle) as H.
      by_mono H.
    - (* optional *) unfold union_body.
      pose proof (union_mono r1 r2 (map (fun v0 => (v0, x)) [v1; v2]) Hle) as H.
      by_mono H.
    - (* maybe *) unfold maybe_body. destruct x; try (intros _; reflexivity).
      destruct (r1 v x) eqn:Hr; try (rewrite (Hle v x) by (rewrite Hr; discriminate); rewrite Hr); try (intros _; reflexivity).
      intros Hne. exfalso. apply Hne. reflexivity.
    - (* lazy *) intros Hne. apply Hle. exact Hne.
    - (* knr *) unfold knr_body.
      destruct (r1 v x) eqn:Hr; try (rewrite (Hle v x) by (rewrite Hr; discriminate); rewrite Hr); try (intros _; reflexivity).
      intros Hne. exfalso. apply Hne. reflexivity.
    - (* cache *) intros Hne. apply Hle. exact Hne.
  Qed.

  Theorem run_mono m : forall n n' v x,
      n <= n' -> run E m n v x <> ONoFuel -> run E m n' v x = run E m n v x.
  Proof.
    induction n as [|n IH]; intros n' v x Hle Hne; [exfalso; apply Hne; reflexivity|].
    destruct n' as [|n']; [lia|]. cbn [run] in *.
    apply step_mono; [|exact Hne]. intros v0 x0 H0. apply IH; [lia | exact H0].
  Qed.

  Corollary run_valid_mono m n n' v x w :
    n <= n' -> run E m n v x = OValid w -> run E m n' v x = OValid w.
  Proof. intros Hle H. rewrite (run_mono m n n' v x Hle); [exact H | rewrite H; discriminate]. Qed.
End Mono.
