(* Soundness of the structural equality tests: eqb x y = true -> x = y. *)
From Coq Require Import ZArith List Bool Lia.
From KV Require Import Base.PyVal Base.Prims Model.Validator Proofs.Scalar.
Import ListNotations.

Lemma list_eqb_sound {A} (eqb : A -> A -> bool) xs ys :
  (forall x y, In x xs -> eqb x y = true -> x = y) -> list_eqb eqb xs ys = true -> xs = ys.
Proof.
  revert ys; induction xs as [|x xs IH]; intros [|y ys] Hs H; cbn in H; try discriminate; auto.
  apply andb_prop in H. destruct H as [H1 H2]. f_equal.
  - apply Hs; [left; reflexivity | exact H1].
  - apply IH; [intros; apply Hs; [right; assumption | assumption] | exact H2].
Qed.

Lemma zlist_eqb_sound xs ys : list_eqb Z.eqb xs ys = true -> xs = ys.
Proof. apply list_eqb_sound. intros x y _ H. apply Z.eqb_eq. exact H. Qed.

Lemma bool_eqb_sound a b : Bool.eqb a b = true -> a = b.
Proof. destruct a, b; cbn; congruence. Qed.

Lemma pyfloat_eqb_sound a b : pyfloat_eqb a b = true -> a = b.
Proof.
  destruct a, b; cbn; try discriminate; intros H; auto.
  - apply bool_eqb_sound in H. subst; reflexivity.
  - apply andb_prop in H. destruct H as [H H3]. apply andb_prop in H. destruct H as [H1 H2].
    apply bool_eqb_sound in H1. apply Z.eqb_eq in H2, H3. subst; reflexivity.
Qed.

Lemma pydec_eqb_sound a b : pydec_eqb a b = true -> a = b.
Proof.
  destruct a, b; cbn; try discriminate; intros H.
  - apply andb_prop in H. destruct H as [H1 H2]. apply bool_eqb_sound in H1, H2. subst; reflexivity.
  - apply bool_eqb_sound in H. subst; reflexivity.
  - apply andb_prop in H. destruct H as [H H3]. apply andb_prop in H. destruct H as [H1 H2].
    apply bool_eqb_sound in H1. apply Z.eqb_eq in H2, H3. subst; reflexivity.
Qed.

Lemma option_eqb_sound {A} (eqb : A -> A -> bool) x y :
  (forall a b, eqb a b = true -> a = b) -> option_eqb eqb x y = true -> x = y.
Proof. intros Hs. destruct x, y; cbn; try discriminate; auto. intros H. f_equal. apply Hs; exact H. Qed.

Lemma pyval_eqb_sound : forall a b, pyval_eqb a b = true -> a = b.
Proof.
  fix IH 1. intros a b. destruct a; destruct b; cbn [pyval_eqb]; try discriminate; intros H; try reflexivity.
  - apply bool_eqb_sound in H. subst; reflexivity.
  - apply Z.eqb_eq in H. subst; reflexivity.
  - apply pyfloat_eqb_sound in H. subst; reflexivity.
  - apply zlist_eqb_sound in H. subst; reflexivity.
  - apply zlist_eqb_sound in H. subst; reflexivity.
  - apply pydec_eqb_sound in H. subst; reflexivity.
  - apply Z.eqb_eq in H. subst; reflexivity.
  - apply Z.eqb_eq in H. subst; reflexivity.
  - apply andb_prop in H. destruct H as [H1 H2]. apply Z.eqb_eq in H1.
    apply (option_eqb_sound Z.eqb) in H2; [subst; reflexivity | intros; apply Z.eqb_eq; assumption].
  - f_equal. revert xs0 H. induction xs as [|x xs IHxs]; intros [|y ys] H; try discriminate; try reflexivity.
    apply andb_prop in H. destruct H as [H1 H2]. f_equal; [apply IH; exact H1 | apply IHxs; exact H2].
  - f_equal. revert xs0 H. induction xs as [|x xs IHxs]; intros [|y ys] H; try discriminate; try reflexivity.
    apply andb_prop in H. destruct H as [H1 H2]. f_equal; [apply IH; exact H1 | apply IHxs; exact H2].
  - f_equal. revert xs0 H. induction xs as [|x xs IHxs]; intros [|y ys] H; try discriminate; try reflexivity.
    apply andb_prop in H. destruct H as [H1 H2]. f_equal; [apply IH; exact H1 | apply IHxs; exact H2].
  - f_equal. revert kvs0 H. induction kvs as [|[k v] kvs IHk]; intros [|[k' v'] ys] H; try discriminate; try reflexivity.
    apply andb_prop in H. destruct H as [H H3]. apply andb_prop in H. destruct H as [H1 H2].
    f_equal; [f_equal; apply IH; assumption | apply IHk; exact H3].
  - f_equal. apply IH. exact H.
  - apply andb_prop in H. destruct H as [H1 H2]. apply Nat.eqb_eq in H1. subst. f_equal.
    revert fields0 H2. induction fields as [|[k v] kvs IHk]; intros [|[k' v'] ys] H; try discriminate; try reflexivity.
    apply andb_prop in H. destruct H as [H H3]. apply andb_prop in H. destruct H as [H1 H2].
    f_equal; [f_equal; apply IH; assumption | apply IHk; exact H3].
  - apply andb_prop in H. destruct H as [H1 H2]. apply Nat.eqb_eq in H1. subst. f_equal. apply IH. exact H2.
Qed.
