(* C13: tasks that do not write the shared store do not interfere, under every schedule. *)
From Coq Require Import List Arith Lia.
From KV Require Import Model.Prog.
Import ListNotations.

Section Purity.
  Variable St Res : Type.
  Notation prog := (prog St Res).

  Lemma resume_pure s p : pure_prog St Res p -> fst (resume St Res s p) = s /\ pure_prog St Res (snd (resume St Res s p)).
  Proof. intros H. destruct H as [o|k Hk]; cbn; [split; [reflexivity|constructor] | apply Hk]. Qed.

  Lemma advance_pure j : forall s p, pure_prog St Res p ->
    fst (advance St Res j s p) = s /\ pure_prog St Res (snd (advance St Res j s p)).
  Proof.
    induction j as [|j IH]; intros s p Hp; cbn [advance]; [split; auto|].
    destruct (resume St Res s p) as [s' p'] eqn:Hr.
    destruct (resume_pure s p Hp) as [Hs Hp']. rewrite Hr in Hs, Hp'. cbn in Hs, Hp'. subst s'.
    apply IH. exact Hp'.
  Qed.

  Lemma advance_succ j s p :
    pure_prog St Res p ->
    snd (advance St Res (S j) s p) = snd (resume St Res s (snd (advance St Res j s p))).
  Proof.
    revert s p. induction j as [|j IH]; intros s p Hp.
    - cbn [advance snd]. destruct (resume St Res s p); reflexivity.
    - cbn [advance]. destruct (resume St Res s p) as [s' p'] eqn:Hr.
      destruct (resume_pure s p Hp) as [Hs Hp']. rewrite Hr in Hs, Hp'. cbn in Hs, Hp'. subst s'.
      specialize (IH s p' Hp'). cbn [advance] in IH. exact IH.
  Qed.

  Lemma nth_set_nth_same {A} i (a : A) l x : nth_error l i = Some x -> nth_error (set_nth i a l) i = Some a.
  Proof. revert i; induction l as [|y l IH]; intros [|i] H; cbn in *; try discriminate; auto. Qed.

  Lemma nth_set_nth_other {A} i j (a : A) l : i <> j -> nth_error (set_nth i a l) j = nth_error l j.
  Proof.
    revert i j; induction l as [|y l IH]; intros [|i] [|j] H; cbn; auto; try congruence.
  Qed.

  Lemma Forall_set_nth {A} (P : A -> Prop) k a l : Forall P l -> P a -> Forall P (set_nth k a l).
  Proof.
    revert k; induction l as [|x l IH]; intros k Hl Ha; [destruct k; constructor|].
    inversion Hl; subst. destruct k; cbn [set_nth]; constructor; auto.
  Qed.

  (* frame + non-interference: for every schedule of every number of pure tasks, the shared
     store is unchanged and task i is exactly where it would be after running alone for as
     many resumptions as the schedule gave it *)
  Theorem schedules_do_not_interfere sc : forall s ts s' ts',
    Forall (pure_prog St Res) ts ->
    interleave St Res s ts sc = (s', ts') ->
    s' = s /\
    forall i p, nth_error ts i = Some p ->
                nth_error ts' i = Some (snd (advance St Res (count i sc) s p)).
  Proof.
    induction sc as [|k sc IH]; intros s ts s' ts' Hp H; cbn [interleave] in H.
    - inversion H; subst. split; [reflexivity|]. intros i p Hi. cbn. exact Hi.
    - destruct (nth_error ts k) as [pk|] eqn:Hk.
      + destruct (resume St Res s pk) as [s1 p1] eqn:Hr.
        assert (Hpk : pure_prog St Res pk) by (rewrite Forall_forall in Hp; apply Hp; eapply nth_error_In; eauto).
        destruct (resume_pure s pk Hpk) as [Hs Hp1]. rewrite Hr in Hs, Hp1. cbn in Hs, Hp1. subst s1.
        assert (Hp' : Forall (pure_prog St Res) (set_nth k p1 ts)).
        { apply Forall_set_nth; assumption. }
        destruct (IH _ _ _ _ Hp' H) as [-> Hts]. split; [reflexivity|].
        intros i p Hi. unfold count. cbn [filter].
        destruct (Nat.eqb i k) eqn:Hik.
        * apply Nat.eqb_eq in Hik. subst i. rewrite Hk in Hi. inversion Hi; subst p.
          cbn [length]. specialize (Hts k p1 (nth_set_nth_same _ _ _ _ Hk)).
          rewrite Hts. f_equal. unfold count.
          cbn [advance]. rewrite Hr. reflexivity.
        * apply Nat.eqb_neq in Hik. apply Hts. rewrite nth_set_nth_other; [exact Hi | congruence].
      + destruct (IH _ _ _ _ Hp H) as [-> Hts]. split; [reflexivity|].
        intros i p Hi. unfold count. cbn [filter].
        destruct (Nat.eqb i k) eqn:Hik; [|apply Hts; exact Hi].
        apply Nat.eqb_eq in Hik. subst i. congruence.
  Qed.

  (* in particular a task that has finished under some schedule finished with the result it
     produces when run alone *)
  Corollary finished_like_alone sc s ts s' ts' i p o :
    Forall (pure_prog St Res) ts ->
    interleave St Res s ts sc = (s', ts') ->
    nth_error ts i = Some p -> nth_error ts' i = Some (Done o) ->
    snd (advance St Res (count i sc) s p) = Done o.
  Proof.
    intros Hp H Hi Ho. destruct (schedules_do_not_interfere sc s ts s' ts' Hp H) as [_ Hts].
    specialize (Hts i p Hi). rewrite Ho in Hts. inversion Hts. reflexivity.
  Qed.

  (* sequential histories are the special case of schedules that run each task to the end *)
  Corollary history_independent j s p :
    pure_prog St Res p -> fst (advance St Res j s p) = s.
  Proof. intros H. apply advance_pure. exact H. Qed.
End Purity.
