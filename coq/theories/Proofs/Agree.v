(* C06: whenever the synchronous entry point returns a result, the asynchronous one
   returns the same result - whatever the async-only checks would answer. *)
From Coq Require Import ZArith List Bool Lia.
From KV Require Import Base.PyVal Base.Prims Model.Validator Model.Sem Proofs.Scalar Proofs.Calls.
Import ListNotations.
Open Scope nat_scope.

(* the same environment with arbitrary other async-only checks *)
Definition with_async (E : env) (ap : nat -> pyval -> bool) (ao : nat -> pyval -> option errtype)
  : env :=
  {| classes := classes E; upred := upred E; uapred := ap; uproc := uproc E;
     ucoerce := ucoerce E; ucompat := ucompat E; uinto := uinto E; uobj := uobj E; uaobj := ao;
     uvalid := uvalid E; lazy_env := lazy_env E; oracle := oracle E; re_match := re_match E;
     email_match := email_match E; case_map := case_map E |}.

(* a user-written validator whose sync entry returns must agree with its async entry *)
Definition user_coherent (E : env) : Prop :=
  forall id flav x, normal (uvalid E id flav Sync x) = true ->
                    uvalid E id flav Async x = uvalid E id flav Sync x.

(* ---------- collectors: a normal result means every outcome was normal ---------- *)

Lemma collect_set_inl E outs acc errs o :
  collect_set E outs acc errs = inl o -> normal o = false.
Proof.
  revert acc errs; induction outs as [|o' outs IH]; intros acc errs; cbn [collect_set]; [discriminate|].
  destruct o'; try (intros H; inversion H; reflexivity); try apply IH.
  destruct errs; [|apply IH]. destruct (hashable _ _); [apply IH | intros H; inversion H; reflexivity].
Qed.

Lemma collect_set_inr E outs acc errs r :
  collect_set E outs acc errs = inr r -> Forall (fun o => normal o = true) outs.
Proof.
  revert acc errs; induction outs as [|o' outs IH]; intros acc errs; cbn [collect_set]; [constructor|].
  destruct o'; try discriminate.
  - destruct errs; [destruct (hashable _ _); [|discriminate]|];
      intros H; constructor; try reflexivity; eapply IH; eauto.
  - intros H; constructor; [reflexivity | eapply IH; eauto].
Qed.

Lemma collect_map_inl E keys outs acc errs o :
  collect_map E keys outs acc errs = inl o -> normal o = false.
Proof.
  revert outs acc errs; induction keys as [|k keys IH]; intros outs acc errs; cbn [collect_map].
  - destruct outs; [discriminate | intros H; inversion H; reflexivity].
  - destruct outs as [|ko [|vo r]].
    + intros H; inversion H; reflexivity.
    + destruct (normal ko) eqn:Hn; intros H; inversion H; subst; [reflexivity | exact Hn].
    + destruct ko; try (intros H; inversion H; reflexivity);
      destruct vo; try (intros H; inversion H; reflexivity); try apply IH.
      destruct (hashable _ _); [apply IH | intros H; inversion H; reflexivity].
Qed.

Lemma collect_map_inr E keys outs acc errs r :
  collect_map E keys outs acc errs = inr r -> Forall (fun o => normal o = true) outs.
Proof.
  revert outs acc errs; induction keys as [|k keys IH]; intros outs acc errs; cbn [collect_map].
  - destruct outs; [constructor | discriminate].
  - destruct outs as [|ko [|vo r']]; [discriminate| destruct (normal ko); discriminate |].
    destruct ko; try discriminate; destruct vo; try discriminate.
    + destruct (hashable _ _); [|discriminate].
      intros H; constructor; [reflexivity|constructor; [reflexivity|eapply IH; exact H]].
    + intros H; constructor; [reflexivity|constructor; [reflexivity|eapply IH; exact H]].
    + intros H; constructor; [reflexivity|constructor; [reflexivity|eapply IH; exact H]].
    + intros H; constructor; [reflexivity|constructor; [reflexivity|eapply IH; exact H]].
Qed.

Lemma collect_keys_inl self pol keys data orig outs o :
  collect_keys self pol keys data orig outs = inl o -> normal o = false.
Proof.
  revert outs; induction keys as [|[k [v req]] keys IH]; intros outs; cbn [collect_keys].
  - destruct outs; [discriminate | intros H; inversion H; reflexivity].
  - destruct (dict_get data k).
    + destruct outs as [|o' r]; [intros H; inversion H; reflexivity|].
      destruct o'; try (intros H; inversion H; reflexivity).
      * destruct (collect_keys self pol keys data orig r) as [o''|[? ?]] eqn:Hc; [|discriminate].
        intros H; inversion H; subst. eapply IH; eauto.
      * destruct (collect_keys self pol keys data orig r) as [o''|[? ?]] eqn:Hc; [|discriminate].
        intros H; inversion H; subst. eapply IH; eauto.
    + destruct (collect_keys self pol keys data orig outs) as [o''|[? ?]] eqn:Hc.
      * intros H; inversion H; subst. eapply IH; eauto.
      * destruct req; [discriminate|]. destruct pol; discriminate.
Qed.

Lemma collect_keys_inr self pol keys data orig outs r :
  collect_keys self pol keys data orig outs = inr r -> Forall (fun o => normal o = true) outs.
Proof.
  revert outs r; induction keys as [|[k [v req]] keys IH]; intros outs r; cbn [collect_keys].
  - destruct outs; [constructor | discriminate].
  - destruct (dict_get data k).
    + destruct outs as [|o' r']; [discriminate|].
      destruct o'; try discriminate.
      * destruct (collect_keys self pol keys data orig r') as [o''|[? ?]] eqn:Hc; [discriminate|].
        intros _. constructor; [reflexivity | eapply IH; eauto].
      * destruct (collect_keys self pol keys data orig r') as [o''|[? ?]] eqn:Hc; [discriminate|].
        intros _. constructor; [reflexivity | eapply IH; eauto].
    + destruct (collect_keys self pol keys data orig outs) as [o''|[? ?]] eqn:Hc; [discriminate|].
      intros _. eapply IH; eauto.
Qed.

Lemma collect_union_inl outs o :
  collect_union outs = inl o -> normal o = true -> Forall (fun o => normal o = true) outs.
Proof.
  induction outs as [|o' outs IH]; cbn [collect_union]; [discriminate|].
  destruct o'.
  - destruct outs; intros H Hn; inversion H; subst; [repeat constructor | discriminate].
  - destruct (collect_union outs) as [o''|?] eqn:Hc; [|discriminate].
    intros H Hn; inversion H; subst. constructor; [reflexivity | apply IH; auto].
  - intros H Hn; inversion H; subst; discriminate.
  - intros H Hn; inversion H; subst; discriminate.
  - intros H Hn; inversion H; subst; discriminate.
Qed.

Lemma collect_union_inr outs errs :
  collect_union outs = inr errs -> Forall (fun o => normal o = true) outs.
Proof.
  revert errs; induction outs as [|o' outs IH]; intros errs; cbn [collect_union]; [constructor|].
  destruct o'; try discriminate.
  - destruct outs; discriminate.
  - destruct (collect_union outs) as [o''|?] eqn:Hc; [discriminate|].
    intros _. constructor; [reflexivity | eapply IH; eauto].
Qed.

(* ---------- run_calls under two runners that agree wherever the first is normal ---------- *)

Lemma run_calls_agree s rec_s rec_a cs :
  (forall c, In c cs -> normal (callr rec_s c) = true -> callr rec_a c = callr rec_s c) ->
  Forall (fun o => normal o = true) (run_calls s rec_s cs) ->
  run_calls s rec_a cs = run_calls s rec_s cs.
Proof.
  induction cs as [|[v x] cs IH]; intros Hag Hn; [reflexivity|].
  cbn [run_calls] in *.
  assert (Hc : normal (rec_s v x) = true -> rec_a v x = rec_s v x).
  { intros H. apply (Hag (v, x)); [left; reflexivity | exact H]. }
  assert (Hrest : forall c, In c cs -> normal (callr rec_s c) = true -> callr rec_a c = callr rec_s c).
  { intros c Hin. apply Hag. right; exact Hin. }
  destruct (rec_s v x) eqn:Hs.
  - rewrite (Hc eq_refl). destruct s; [reflexivity|].
    inversion Hn; subst. rewrite (IH Hrest H2). reflexivity.
  - rewrite (Hc eq_refl). inversion Hn; subst. rewrite (IH Hrest H2). reflexivity.
  - inversion Hn; subst; discriminate.
  - inversion Hn; subst; discriminate.
  - inversion Hn; subst; discriminate.
Qed.

Section Agree.
  Variable E : env.
  Variable ap : nat -> pyval -> bool.
  Variable ao : nat -> pyval -> option errtype.
  Let E' := with_async E ap ao.

  (* ---------- frame: everything that does not read the async-only checks ---------- *)

  Lemma pred_eval_frame p x : pred_eval E' p x = pred_eval E p x.
  Proof. destruct p; reflexivity. Qed.

  Lemma failing_preds_frame ps x : failing_preds E' ps x = failing_preds E ps x.
  Proof.
    induction ps as [|p ps IH]; [reflexivity|]. cbn [failing_preds].
    rewrite pred_eval_frame, IH. reflexivity.
  Qed.

  Lemma all_failing_no_async ps x :
    all_failing E' Async ps [] x = all_failing E Sync ps [] x.
  Proof.
    unfold all_failing. rewrite failing_preds_frame.
    destruct (failing_preds E ps x); cbn [pbind]; [|reflexivity].
    unfold failing_apreds. cbn [filter map]. rewrite app_nil_r. reflexivity.
  Qed.

  Lemma procs_apply_frame pre x : procs_apply E' pre x = procs_apply E pre x.
  Proof.
    revert x; induction pre as [|p pre IH]; intros x; [reflexivity|]. cbn [procs_apply].
    assert (H : proc_apply E' p x = proc_apply E p x) by (destruct p; reflexivity).
    rewrite H. destruct (proc_apply E p x); cbn [pbind]; [apply IH | reflexivity].
  Qed.

  Lemma coerce_apply_frame c x : coerce_apply E' c x = coerce_apply E c x.
  Proof. destruct c; reflexivity. Qed.

  Lemma coerce_compat_frame c : coerce_compat E' c = coerce_compat E c.
  Proof. destruct c; reflexivity. Qed.

  Lemma gate_frame co t d x : gate E' co t d x = gate E co t d x.
  Proof.
    unfold gate. destruct co as [c|]; [|reflexivity].
    rewrite coerce_apply_frame, coerce_compat_frame. reflexivity.
  Qed.

  Lemma class_gate_frame rk c co x : class_gate E' rk c co x = class_gate E rk c co x.
  Proof.
    unfold class_gate. destruct co as [cc|]; [|reflexivity].
    rewrite coerce_apply_frame, coerce_compat_frame. reflexivity.
  Qed.

  Lemma pred_stage_no_async self ps y :
    pred_stage E' self Async ps [] y = pred_stage E self Sync ps [] y.
  Proof. unfold pred_stage. rewrite all_failing_no_async. reflexivity. Qed.

  Lemma obj_stage_no_async self vobj obj :
    obj_stage E' self Async vobj None obj = obj_stage E self Sync vobj None obj.
  Proof. unfold obj_stage. destruct vobj; reflexivity. Qed.

  Lemma guard_sync_normal {A} (l : list A) (k : outcome) :
    normal (if mode_eqb Sync Sync && nonempty l then OAssert else k) = true -> l = [].
  Proof. destruct l; cbn; [reflexivity | discriminate]. Qed.

  (* ---------- the step ---------- *)

  Hypothesis Hcoh : user_coherent E.

  Variable rec_s rec_a : runner.
  Hypothesis IH : forall v x, normal (rec_s v x) = true -> rec_a v x = rec_s v x.

  Lemma calls_agree s cs :
    Forall (fun o => normal o = true) (run_calls s rec_s cs) ->
    run_calls s rec_a cs = run_calls s rec_s cs.
  Proof. apply run_calls_agree. intros [v x] _ H. apply IH. exact H. Qed.

  Ltac normal_of H := match type of H with normal ?o = true => destruct o eqn:?; try discriminate end.

  Lemma seq_agree exact dest wrap self item ps aps co x :
    normal (seq_body E exact dest wrap rec_s self item ps aps co Sync x) = true ->
    seq_body E' exact dest wrap rec_a self item ps aps co Async x
    = seq_body E exact dest wrap rec_s self item ps aps co Sync x.
  Proof.
    unfold seq_body. intros H.
    assert (Ha : aps = []) by (destruct aps; [reflexivity | discriminate]). subst aps.
    cbn [mode_eqb nonempty andb] in *. rewrite gate_frame.
    destruct (gate E co exact dest x) as [e|y]; [reflexivity|].
    rewrite pred_stage_no_async. destruct (pred_stage E self Sync ps [] y); [reflexivity|].
    destruct (py_iter y) as [xs|]; [|reflexivity].
    rewrite calls_agree; [reflexivity|].
    destruct (collect_items 0 _) as [o|[ws errs]] eqn:Hc.
    - apply collect_items_abnormal in Hc. destruct Hc as [_ Hc]. rewrite Hc in H; discriminate.
    - apply collect_items_ok in Hc. tauto.
  Qed.

  Lemma set_agree self item ps aps co x :
    normal (set_body E rec_s self item ps aps co Sync x) = true ->
    set_body E' rec_a self item ps aps co Async x = set_body E rec_s self item ps aps co Sync x.
  Proof.
    unfold set_body. intros H.
    assert (Ha : aps = []) by (destruct aps; [reflexivity | discriminate]). subst aps.
    cbn [mode_eqb nonempty andb] in *. rewrite gate_frame.
    destruct (gate E co TSet TSet x) as [e|y]; [reflexivity|].
    rewrite pred_stage_no_async. destruct (pred_stage E self Sync ps [] y); [reflexivity|].
    destruct (py_iter y) as [xs|]; [|reflexivity].
    assert (Hn : Forall (fun o => normal o = true) (run_calls false rec_s (map (fun xi => (item, xi)) xs))).
    { destruct (collect_set E _ [] []) as [o|[ws errs]] eqn:Hc.
      - apply collect_set_inl in Hc. rewrite Hc in H; discriminate.
      - eapply collect_set_inr; eauto. }
    rewrite (calls_agree _ _ Hn). reflexivity.
  Qed.

  Lemma ntuple_agree self fields vobj co x :
    normal (ntuple_body E rec_s self fields vobj co Sync x) = true ->
    ntuple_body E' rec_a self fields vobj co Async x = ntuple_body E rec_s self fields vobj co Sync x.
  Proof.
    unfold ntuple_body. intros H. rewrite gate_frame.
    destruct (gate E co TTuple TList x) as [e|y]; [reflexivity|]. cbv zeta in *.
    rewrite pred_eval_frame.
    destruct (pred_eval E (PExactItemCount (zlen fields)) y) as [[|]|]; try reflexivity.
    destruct (py_iter y) as [xs|]; [|reflexivity].
    assert (Hn : Forall (fun o => normal o = true) (run_calls false rec_s (combine fields xs))).
    { destruct (collect_items 0 _) as [o|[ws errs]] eqn:Hc.
      - apply collect_items_abnormal in Hc. destruct Hc as [_ Hc]. rewrite Hc in H; discriminate.
      - apply collect_items_ok in Hc. tauto. }
    rewrite (calls_agree _ _ Hn).
    destruct (collect_items 0 _) as [o|[ws [|e errs]]]; try reflexivity.
  Qed.

  Lemma map_agree self kv vv ps aps co x :
    normal (map_body E rec_s self kv vv ps aps co Sync x) = true ->
    map_body E' rec_a self kv vv ps aps co Async x = map_body E rec_s self kv vv ps aps co Sync x.
  Proof.
    unfold map_body. intros H.
    assert (Ha : aps = []) by (destruct aps; [reflexivity | discriminate]). subst aps.
    cbn [mode_eqb nonempty andb] in *. rewrite gate_frame.
    destruct (gate E co TDict TDict x) as [e|y]; [reflexivity|].
    rewrite pred_stage_no_async. destruct (pred_stage E self Sync ps [] y); [reflexivity|].
    destruct (as_dict y) as [kvs|]; [|reflexivity].
    assert (Hn : Forall (fun o => normal o = true) (run_calls false rec_s (map_calls kv vv kvs))).
    { destruct (collect_map E _ _ [] []) as [o|[ws errs]] eqn:Hc.
      - apply collect_map_inl in Hc. rewrite Hc in H; discriminate.
      - eapply collect_map_inr; eauto. }
    rewrite (calls_agree _ _ Hn). reflexivity.
  Qed.

  Lemma keys_loop_agree self pol keys data orig :
    (match keys_loop rec_s self pol keys data orig with
     | inl o => normal o = true
     | inr _ => True
     end) ->
    keys_loop rec_a self pol keys data orig = keys_loop rec_s self pol keys data orig.
  Proof.
    unfold keys_loop. intros H.
    assert (Hn : Forall (fun o => normal o = true) (run_calls false rec_s (key_calls keys data))).
    { destruct (collect_keys self pol keys data orig _) as [o|r] eqn:Hc.
      - apply collect_keys_inl in Hc. rewrite Hc in H; discriminate.
      - eapply collect_keys_inr; eauto. }
    rewrite (calls_agree _ _ Hn). reflexivity.
  Qed.

  Lemma has_some_guard {A} (o : option A) (k : outcome) :
    normal (if mode_eqb Sync Sync && has_some o then OAssert else k) = true -> o = None.
  Proof. destruct o; cbn; [discriminate | reflexivity]. Qed.

  Lemma obj_stage_sync_async self vobj obj :
    obj_stage E' self Async vobj None obj = obj_stage E self Sync vobj None obj.
  Proof. apply obj_stage_no_async. Qed.

  Lemma record_agree self keys into vobj avobj strict x :
    normal (record_body E rec_s self keys into vobj avobj strict Sync x) = true ->
    record_body E' rec_a self keys into vobj avobj strict Async x
    = record_body E rec_s self keys into vobj avobj strict Sync x.
  Proof.
    unfold record_body. intros H.
    assert (Ha : avobj = None) by (destruct avobj; [discriminate | reflexivity]). subst avobj.
    cbn [mode_eqb has_some andb] in *.
    change (ckind E') with (ckind E).
    destruct (negb (isinstance (ckind E) x TDict)); [reflexivity|].
    destruct (as_dict x) as [data|]; [|reflexivity].
    destruct (strict && has_unknown_key (map fst keys) data); [reflexivity|].
    rewrite keys_loop_agree.
    - destruct (keys_loop rec_s self AbsNothing (record_keys keys) data x) as [o|[ws [|e errs]]]; try reflexivity.
    - destruct (keys_loop rec_s self AbsNothing (record_keys keys) data x); [exact H | exact I].
  Qed.

  Lemma dictany_agree self schema vobj avobj strict x :
    normal (dictany_body E rec_s self schema vobj avobj strict Sync x) = true ->
    dictany_body E' rec_a self schema vobj avobj strict Async x
    = dictany_body E rec_s self schema vobj avobj strict Sync x.
  Proof.
    unfold dictany_body. intros H.
    assert (Ha : avobj = None) by (destruct avobj; [discriminate | reflexivity]). subst avobj.
    cbn [mode_eqb has_some andb] in *.
    destruct x; try reflexivity.
    destruct (strict && has_unknown_key (map fst schema) kvs); [reflexivity|].
    rewrite keys_loop_agree.
    - destruct (keys_loop rec_s self AbsOmit (dictany_keys schema) kvs (VDict kvs)) as [o|[ws [|e errs]]]; try reflexivity.
    - destruct (keys_loop rec_s self AbsOmit (dictany_keys schema) kvs (VDict kvs)); [exact H | exact I].
  Qed.

  Lemma class_agree self rk c schema vobj avobj strict co x :
    normal (class_body E rec_s self rk c schema vobj avobj strict co Sync x) = true ->
    class_body E' rec_a self rk c schema vobj avobj strict co Async x
    = class_body E rec_s self rk c schema vobj avobj strict co Sync x.
  Proof.
    unfold class_body. intros H.
    assert (Ha : avobj = None) by (destruct avobj; [discriminate | reflexivity]). subst avobj.
    cbn [mode_eqb has_some andb] in *. rewrite class_gate_frame.
    destruct (class_gate E rk c co x) as [e|y]; [reflexivity|].
    destruct (as_dict y) as [data|]; [|reflexivity].
    destruct (strict && has_unknown_key (map fst schema) data); [reflexivity|].
    rewrite keys_loop_agree.
    - destruct (keys_loop rec_s self AbsOmit schema data y) as [o|[ws [|e errs]]]; try reflexivity.
    - destruct (keys_loop rec_s self AbsOmit schema data y); [exact H | exact I].
  Qed.

  Lemma union_agree self vs x :
    normal (union_body rec_s self vs x) = true ->
    union_body rec_a self vs x = union_body rec_s self vs x.
  Proof.
    unfold union_body. intros H.
    assert (Hn : Forall (fun o => normal o = true) (run_calls true rec_s (map (fun v => (v, x)) vs))).
    { destruct (collect_union _) as [o|errs] eqn:Hc.
      - eapply collect_union_inl; eauto.
      - eapply collect_union_inr; eauto. }
    rewrite (calls_agree _ _ Hn). reflexivity.
  Qed.

  Theorem step_agree v x :
    normal (step E Sync rec_s v x) = true ->
    step E' Async rec_a v x = step E Sync rec_s v x.
  Proof.
    destruct v; cbn [step]; intros H.
    - (* Scalar *)
      unfold scalar_body in *.
      assert (Ha : aps = []) by (destruct aps; [reflexivity | discriminate]). subst aps.
      cbn [mode_eqb nonempty andb] in *. rewrite gate_frame.
      destruct (gate E co (ktype k) (ktype k) x); [reflexivity|].
      rewrite procs_apply_frame. destruct (procs_apply E pre p); [|reflexivity].
      rewrite all_failing_no_async. reflexivity.
    - (* NoneV *)
      unfold none_body. destruct co as [c|]; [|reflexivity].
      rewrite coerce_apply_frame, coerce_compat_frame. reflexivity.
    - (* EqualsV *)
      unfold equals_body. destruct (exact_type x (type_of m)); [|reflexivity].
      rewrite procs_apply_frame. reflexivity.
    - reflexivity.
    - reflexivity.
    - apply seq_agree; exact H.
    - apply set_agree; exact H.
    - apply seq_agree; exact H.
    - apply ntuple_agree; exact H.
    - apply map_agree; exact H.
    - apply record_agree; exact H.
    - apply dictany_agree; exact H.
    - apply class_agree; exact H.
    - apply union_agree; exact H.
    - apply union_agree; exact H.
    - (* MaybeV *)
      unfold maybe_body in *. destruct x; try reflexivity.
      destruct (rec_s v x) eqn:Hs; try discriminate; rewrite (IH v x); rewrite Hs; reflexivity.
    - (* LazyV *) apply IH. exact H.
    - (* KeyNotRequired *)
      unfold knr_body in *.
      destruct (rec_s v x) eqn:Hs; try discriminate; rewrite (IH v x); rewrite Hs; reflexivity.
    - (* CacheV *) apply IH. exact H.
    - (* UserV *) apply Hcoh. exact H.
  Qed.
End Agree.

Theorem run_agree E ap ao :
  user_coherent E ->
  forall fuel v x,
    normal (run E Sync fuel v x) = true ->
    run (with_async E ap ao) Async fuel v x = run E Sync fuel v x.
Proof.
  intros Hcoh. induction fuel as [|n IHn]; intros v x H; [discriminate|].
  cbn [run] in *. apply step_agree; auto.
Qed.

(* ---------- when no async-only check is configured, the sync call does return ---------- *)

Fixpoint async_free (v : validator) : bool :=
  let fix all (vs : list validator) : bool :=
    match vs with [] => true | v :: r => async_free v && all r end in
  let fix allk (kvs : list (pyval * validator)) : bool :=
    match kvs with [] => true | (_, v) :: r => async_free v && allk r end in
  let fix allk2 (kvs : list (pyval * (validator * bool))) : bool :=
    match kvs with [] => true | (_, (v, _)) :: r => async_free v && allk2 r end in
  match v with
  | Scalar _ _ _ _ aps => negb (nonempty aps)
  | NoneV _ | EqualsV _ _ | AlwaysValid | IsDictV => true
  | ListV item _ aps _ | SetV item _ aps _ | UTupleV item _ aps _ =>
      negb (nonempty aps) && async_free item
  | NTupleV fields _ _ => all fields
  | MapV kv vv _ aps _ => negb (nonempty aps) && async_free kv && async_free vv
  | RecordV keys _ _ avobj _ => negb (has_some avobj) && allk keys
  | DictAnyV schema _ avobj _ => negb (has_some avobj) && allk schema
  | ClassV _ _ schema _ avobj _ _ => negb (has_some avobj) && allk2 schema
  | UnionV vs => all vs
  | OptionalV a b => async_free a && async_free b
  | MaybeV a | KeyNotRequired a | CacheV a => async_free a
  | LazyV _ _ => true            (* the referenced definitions are constrained separately *)
  | UserV _ _ => true            (* user validators: [user_never_asserts] *)
  end.
