(* C18: composition laws - verdicts are context-free and refinement only narrows. *)
From Coq Require Import ZArith List Bool Lia.
From KV Require Import Base.PyVal Base.Prims Model.Validator Model.Sem
     Proofs.Scalar Proofs.Calls Proofs.Collections Proofs.Records Proofs.Wrappers.
Import ListNotations.
Open Scope nat_scope.

Section Ctx.
  Variable E : env.
  Variable m : mode.
  Variable n : nat.

  Lemma guard_nil : mode_eqb m Sync && nonempty (@nil apredicate) = false.
  Proof. destruct m; reflexivity. Qed.

  Lemma all_failing_nil_nil y : all_failing E m [] [] y = Ok [].
  Proof. unfold all_failing. cbn. destruct m; reflexivity. Qed.

  (* a one-element list around v accepts [x] iff v accepts x, with v's payload inside and
     v's own error at position 0 *)
  Theorem ctx_list v x :
    run E m (S n) (ListV v [] [] None) (VList [x]) =
    match run E m n v x with
    | OValid w => OValid (VList [w])
    | OInvalid e => OInvalid (Invalid (IndexErrs [(0, e)]) (VList [x]) (ListV v [] [] None))
    | o => o
    end.
  Proof.
    cbn [run step]. unfold list_body, seq_body. rewrite guard_nil. cbn [gate exact_type type_of pytype_eqb].
    unfold pred_stage. rewrite all_failing_nil_nil. cbn [py_iter unsub map run_calls].
    destruct (run E m n v x); reflexivity.
  Qed.

  Theorem ctx_utuple v x :
    run E m (S n) (UTupleV v [] [] None) (VTuple [x]) =
    match run E m n v x with
    | OValid w => OValid (VTuple [w])
    | OInvalid e => OInvalid (Invalid (IndexErrs [(0, e)]) (VTuple [x]) (UTupleV v [] [] None))
    | o => o
    end.
  Proof.
    cbn [run step]. unfold utuple_body, seq_body. rewrite guard_nil. cbn [gate exact_type type_of pytype_eqb].
    unfold pred_stage. rewrite all_failing_nil_nil. cbn [py_iter unsub map run_calls].
    destruct (run E m n v x); reflexivity.
  Qed.

  Theorem ctx_ntuple v x :
    run E m (S n) (NTupleV [v] None None) (VTuple [x]) =
    match run E m n v x with
    | OValid w => OValid (VTuple [w])
    | OInvalid e => OInvalid (Invalid (IndexErrs [(0, e)]) (VTuple [x]) (NTupleV [v] None None))
    | o => o
    end.
  Proof.
    cbn [run step]. unfold ntuple_body. cbn [gate exact_type type_of pytype_eqb].
    cbv zeta. cbn [pred_eval py_len unsub pbind zlen length Z.of_nat]. cbn [py_iter unsub combine run_calls].
    destruct (run E m n v x); try reflexivity.
    cbn [collect_items]. unfold obj_stage. destruct m; reflexivity.
  Qed.

  Theorem ctx_set v x :
    run E m (S n) (SetV v [] [] None) (VSet [x]) =
    match run E m n v x with
    | OValid w => if hashable (chashable E) w then OValid (VSet [w]) else ORaise ExType
    | OInvalid e => OInvalid (Invalid (SetErrs [e]) (VSet [x]) (SetV v [] [] None))
    | o => o
    end.
  Proof.
    cbn [run step]. unfold set_body. rewrite guard_nil. cbn [gate exact_type type_of pytype_eqb].
    unfold pred_stage. rewrite all_failing_nil_nil. cbn [py_iter unsub map run_calls].
    destruct (run E m n v x); try reflexivity.
    cbn [collect_set]. destruct (hashable (chashable E) w); reflexivity.
  Qed.

  (* a one-pair map: the value validator's verdict at the pair's key *)
  Theorem ctx_map_value v k x :
    hashable (chashable E) k = true ->
    run E m (S (S n)) (MapV AlwaysValid v [] [] None) (VDict [(k, x)]) =
    match run E m (S n) v x with
    | OValid w => OValid (VDict [(k, w)])
    | OInvalid e => OInvalid (Invalid (MapErr [(k, (None, Some e))]) (VDict [(k, x)]) (MapV AlwaysValid v [] [] None))
    | o => o
    end.
  Proof.
    intros Hk. cbn [run step]. unfold map_body. rewrite guard_nil. cbn [gate exact_type type_of pytype_eqb].
    unfold pred_stage. rewrite all_failing_nil_nil. cbn [as_dict unsub map fst map_calls flat_map app snd run_calls step].
    destruct (step E m (run E m n) v x) eqn:Hv; try reflexivity.
    cbn [collect_map normal]. rewrite Hk. reflexivity.
  Qed.

  (* Maybe / Lazy / cache / KeyNotRequired are C05 theorems; restated for the law *)
  Theorem ctx_maybe v x :
    run E m (S n) (MaybeV v) (VJust x) =
    match run E m n v x with
    | OValid w => OValid (VJust w)
    | OInvalid e => OInvalid (Invalid (ContainerErr e) (VJust x) (MaybeV v))
    | o => o
    end.
  Proof. reflexivity. Qed.

  Theorem ctx_lazy r b x : run E m (S n) (LazyV r b) x = run E m n (lazy_env E r) x.
  Proof. reflexivity. Qed.

  (* a one-key record: v's verdict under that key *)
  Theorem ctx_dictany v k x :
    py_eq k k = true -> is_required_marker v = true ->
    run E m (S n) (DictAnyV [(k, v)] None None false) (VDict [(k, x)]) =
    match run E m n v x with
    | OValid w => OValid (VDict [(k, w)])
    | OInvalid e => OInvalid (Invalid (KeyErrs [(k, e)]) (VDict [(k, x)]) (DictAnyV [(k, v)] None None false))
    | o => o
    end.
  Proof.
    intros Hk Hr. cbn [run step]. unfold dictany_body.
    assert (Hg : mode_eqb m Sync && has_some (@None nat) = false) by (destruct m; reflexivity).
    rewrite Hg. cbn [andb]. unfold keys_loop, key_calls, dictany_keys.
    cbn [map flat_map fst snd dict_get]. rewrite Hk. rewrite Hr.
    assert (Hu : unwrap_knr v = v) by (destruct v; try reflexivity; discriminate). rewrite Hu.
    cbn [app run_calls].
    destruct (run E m n v x); cbn [collect_keys dict_get]; rewrite ?Hk; try reflexivity.
    unfold obj_stage. destruct m; reflexivity.
  Qed.

  (* a union accepts iff one of its variants does (C05_union_accept), an optional accepts
     exactly None plus what its inner validator accepts (C05_optional_none and C05_optional_inner). *)
End Ctx.

(* ---------- refinement only narrows ---------- *)

Section Refine.
  Variable E : env.

  (* adding a predicate to a scalar validator: still-accepted values keep their payload *)
  Theorem refine_scalar_pred m n k co pre ps p aps x w :
    run E m (S n) (Scalar k co pre (ps ++ [p]) aps) x = OValid w ->
    run E m (S n) (Scalar k co pre ps aps) x = OValid w.
  Proof.
    cbn [run step]. intros H. apply scalar_accept in H. apply scalar_accept.
    destruct H as [Hs [y [Hg [Hp [Hps Ha]]]]]. split; [exact Hs|]. exists y. repeat split; auto.
    apply Forall_app in Hps. tauto.
  Qed.

  Lemma all_failing_app_nil m ps p aps y :
    all_failing E m (ps ++ [p]) aps y = Ok [] -> all_failing E m ps aps y = Ok [].
  Proof.
    intros H. apply all_failing_nil in H. apply all_failing_nil. destruct H as [Hp Ha].
    apply Forall_app in Hp. tauto.
  Qed.

  (* adding a container predicate *)
  Theorem refine_list_pred m n item ps p aps co x w :
    run E m (S n) (ListV item (ps ++ [p]) aps co) x = OValid w ->
    run E m (S n) (ListV item ps aps co) x = OValid w.
  Proof.
    cbn [run step]. intros H.
    apply (seq_accept E TList TList VList (run E m n) _ item _ aps co m x w VList_inj') in H.
    apply (seq_accept E TList TList VList (run E m n) _ item _ aps co m x w VList_inj').
    destruct H as [Hs [y [xs [ws [Hg [Hp [Hit [Hall ->]]]]]]]]. split; [exact Hs|].
    exists y, xs, ws. repeat split; auto. eapply all_failing_app_nil; eauto.
  Qed.

  (* forbidding unknown keys: whatever the strict validator accepts, the lenient one accepts
     with the same payload *)
  Theorem refine_record_strict m n keys into vobj avobj x w :
    run E m (S n) (RecordV keys into vobj avobj true) x = OValid w ->
    exists w', run E m (S n) (RecordV keys into vobj avobj false) x = OValid w' /\
               (* the payload is the same up to the validator named in nothing: records carry no [who] *)
               w' = w.
  Proof.
    cbn [run step]. intros H. apply record_accept in H.
    destruct H as [Hs [Hi [data [Hd [Hstrict [Hn [He Hobj]]]]]]].
    exists w. split; [|reflexivity]. apply record_accept. split; [exact Hs|]. split; [exact Hi|].
    exists data. split; [exact Hd|]. split; [discriminate|]. split; [exact Hn|]. split.
    - apply key_errs_nil. apply key_errs_nil in He. exact He.
    - unfold obj_stage in *. destruct (match vobj with Some id => uobj E id _ | None => None end); [discriminate|].
      destruct m; [exact Hobj|]. destruct avobj as [ida|]; [|exact Hobj]. destruct (uaobj E ida _); [discriminate | exact Hobj].
  Qed.

  (* making a key required (ClassV / DictValidatorAny flags): [strict] is [lenient] with some
     optional keys made required *)
  Definition more_required (strict lenient : list (pyval * (validator * bool))) : Prop :=
    Forall2 (fun a b => fst a = fst b /\ fst (snd a) = fst (snd b) /\
                        (snd (snd b) = true -> snd (snd a) = true)) strict lenient.

  Lemma relax_keys rec self self' strict lenient data orig :
    more_required strict lenient ->
    key_errs_of rec self strict data orig = [] ->
    key_errs_of rec self' lenient data orig = [] /\
    key_payload_of rec AbsOmit lenient data = key_payload_of rec AbsOmit strict data /\
    (present_normal rec strict data -> present_normal rec lenient data).
  Proof.
    intros H. induction H as [|[k [v r]] [k' [v' r']] s l [Hk [Hv Hr]] _ IH]; intros He.
    - repeat split; auto.
    - cbn [fst snd] in Hk, Hv, Hr. subst k' v'. cbn [key_errs_of key_payload_of] in *. cbv zeta in *.
      assert (Hpn : forall r1 r2 ks1 ks2,
                 (present_normal rec ks1 data -> present_normal rec ks2 data) ->
                 present_normal rec ((k, (v, r1)) :: ks1) data -> present_normal rec ((k, (v, r2)) :: ks2) data).
      { intros r1 r2 ks1 ks2 Hc Hn. inversion Hn as [|? ? H1 H2]; subst. constructor; [exact H1 | apply Hc; exact H2]. }
      destruct (dict_get data k) as [xv|] eqn:Hg.
      + destruct (rec v xv) eqn:Hrv; try discriminate He;
          destruct (IH He) as [A [B C]];
          (split; [exact A|]); (split; [rewrite B; reflexivity | apply Hpn; exact C]).
      + destruct r; [discriminate|]. destruct r'; [specialize (Hr eq_refl); discriminate|].
        destruct (IH He) as [A [B C]]. split; [exact A|]. split; [exact B | apply Hpn; exact C].
  Qed.

  Theorem refine_class_required m n rk c strict lenient vobj avobj st co x w :
    more_required strict lenient ->
    run E m (S n) (ClassV rk c strict vobj avobj st co) x = OValid w ->
    (forall obj, obj_stage E (ClassV rk c strict vobj avobj st co) m vobj avobj obj = OValid w ->
                 obj_stage E (ClassV rk c lenient vobj avobj st co) m vobj avobj obj = OValid w) ->
    run E m (S n) (ClassV rk c lenient vobj avobj st co) x = OValid w.
  Proof.
    intros Hrel H Hobjs. cbn [run step] in *. apply class_accept in H. apply class_accept.
    destruct H as [Hs [y [data [Hg [Hd [Hstrict [Hn [He Hobj]]]]]]]].
    destruct (relax_keys (run E m n) _ (ClassV rk c lenient vobj avobj st co) _ _ data y Hrel He) as [A [B C]].
    split; [exact Hs|]. exists y, data. repeat split; auto.
    - intros Hst. rewrite <- (Hstrict Hst). f_equal.
      clear - Hrel. induction Hrel as [|a b s l [Hk _] _ IH]; [reflexivity|]. cbn [map]. rewrite Hk, IH. reflexivity.
    - rewrite B. apply Hobjs. exact Hobj.
  Qed.
End Refine.
