(* C07, record classes: the derived Dataclass / NamedTuple / TypedDict validator is sound when
   its field validators are (compositional step used by derive_sound_all). *)
From Coq Require Import ZArith List Bool Lia.
From KV Require Import Base.PyVal Base.Prims Model.Validator Model.Sem Model.Derive
     Proofs.Scalar Proofs.Calls Proofs.Collections Proofs.Wrappers Proofs.Records Proofs.EqP Proofs.DeriveP.
Import ListNotations.

Definition is_vstr (v : pyval) : bool := match v with VStr _ => true | _ => false end.

Lemma py_eq_str_refl k : is_vstr k = true -> py_eq k k = true.
Proof.
  destruct k; try discriminate. intros _. cbn. induction s as [|c s IH]; cbn; [reflexivity|].
  rewrite Z.eqb_refl. exact IH.
Qed.

Lemma py_eq_str_eq k k' : is_vstr k = true -> py_eq k k' = true -> k = k'.
Proof.
  destruct k; try discriminate. intros _. destruct k'; cbn; try discriminate.
  intros H. f_equal. apply Proofs.EqbSound.zlist_eqb_sound. exact H.
Qed.

Fixpoint names_nodup (ks : list pyval) : bool :=
  match ks with
  | [] => true
  | k :: r => negb (existsb (pyval_eqb k) r) && names_nodup r
  end.

(* one record node: string field names without repetition, the class table lists the same
   names in the same order, a field without default is required, and declared defaults are
   values of the field's type (they are used on trust) *)
Definition node_ok (E : env) (rk : record_kind) (c : classid) (fields : list (pyval * (ann * bool))) : bool :=
  forallb (fun f => is_vstr (fst f)) fields && names_nodup (map fst fields) &&
  match rk with
  | RkTyped => true
  | _ =>
      list_eqb pyval_eqb (map fst (cfields E c)) (map fst fields) &&
      forallb (fun fd =>
                 match snd fd with
                 | Some d => existsb (fun f => pyval_eqb (fst f) (fst fd) && has_type (fst (snd f)) d) fields
                 | None => existsb (fun f => pyval_eqb (fst f) (fst fd) && snd (snd f)) fields
                 end) (cfields E c)
  end.

Section Rec.
  Variable E : env.
  Variable rec : runner.

  (* fields of the annotation vs entries of the derived schema *)
  Definition field_rel (f : pyval * (ann * bool)) (s : pyval * (validator * bool)) : Prop :=
    fst f = fst s /\ snd (snd f) = snd (snd s) /\
    forall x w, rec (fst (snd s)) x = OValid w -> has_type (fst (snd f)) w = true.

  Lemma payload_typed fields schema data :
    Forall2 field_rel fields schema ->
    forall k w, In (k, w) (key_payload_of rec AbsOmit schema data) ->
                exists a req, In (k, (a, req)) fields /\ has_type a w = true.
  Proof.
    intros HF. induction HF as [|[kf [a rf]] [ks [v rs]] fields schema [Hk [Hr Ht]] HF IH]; intros k w Hin;
      cbn [key_payload_of] in Hin; [destruct Hin|]. cbv zeta in Hin. cbn [fst snd] in *. subst ks rs.
    assert (Hrest : In (k, w) (key_payload_of rec AbsOmit schema data) ->
                    exists a0 req, In (k, (a0, req)) ((kf, (a, rf)) :: fields) /\ has_type a0 w = true).
    { intros H. destruct (IH k w H) as [a0 [req [H1 H2]]]. exists a0, req. split; [right; exact H1 | exact H2]. }
    destruct (dict_get data kf) as [xv|].
    - destruct (rec v xv) as [w0| | | |] eqn:Er; try (apply Hrest; exact Hin).
      destruct Hin as [Hin|Hin]; [|apply Hrest; exact Hin]. injection Hin as <- <-.
      exists a, rf. split; [left; reflexivity | apply (Ht xv w0 Er)].
    - destruct rf; apply Hrest; exact Hin.
  Qed.

  Lemma payload_has_required fields schema data self orig :
    Forall2 field_rel fields schema ->
    present_normal rec schema data ->
    key_errs_of rec self schema data orig = [] ->
    forall k a, In (k, (a, true)) fields -> exists w, In (k, w) (key_payload_of rec AbsOmit schema data).
  Proof.
    intros HF. induction HF as [|[kf [a0 rf]] [ks [v rs]] fields schema [Hk [Hr _]] HF IH]; intros Hn He k a Hin;
      [destruct Hin|]. cbn [fst snd] in *. subst ks rs.
    inversion Hn as [|? ? Hn0 Hn']; subst. cbn [fst snd] in Hn0.
    cbn [key_errs_of key_payload_of] in *. cbv zeta in *.
    assert (Hrest : key_errs_of rec self schema data orig = [] -> In (k, (a, true)) fields ->
                    exists w, In (k, w) (key_payload_of rec AbsOmit schema data)) by (intros; eapply IH; eauto).
    destruct (dict_get data kf) as [xv|] eqn:Eg.
    - destruct (rec v xv) as [w0|i0| | |] eqn:Er; try discriminate.
      destruct Hin as [Hin|Hin].
      + inversion Hin; subst. exists w0. left; reflexivity.
      + destruct (Hrest He Hin) as [w Hw]. exists w. right; exact Hw.
    - destruct rf; [discriminate|]. destruct Hin as [Hin|Hin]; [inversion Hin|]. apply (Hrest He Hin).
  Qed.

  Lemma dict_has_in l k w : In (k, w) l -> py_eq k k = true -> dict_has l k = true.
  Proof.
    unfold dict_has. induction l as [|[k0 v0] l IH]; intros Hin Hk; [destruct Hin|]. cbn [dict_get].
    destruct (py_eq k0 k) eqn:E0; [reflexivity|]. destruct Hin as [Hin|Hin]; [injection Hin as -> ->; congruence|].
    apply IH; assumption.
  Qed.

  Lemma find_field fields k a req w :
    In (k, (a, req)) fields -> py_eq k k = true -> has_type a w = true ->
    (fix find (fields : list (pyval * (ann * bool))) : bool :=
       match fields with
       | [] => false
       | (k0, (a1, _)) :: fr => (py_eq k0 k && has_type a1 w) || find fr
       end) fields = true.
  Proof.
    induction fields as [|[k0 [a1 r1]] fields IH]; intros Hin Hk Ht; [destruct Hin|].
    destruct Hin as [Hin|Hin].
    - injection Hin as -> -> ->. rewrite Hk, Ht. reflexivity.
    - rewrite (IH Hin Hk Ht). apply orb_true_r.
  Qed.

  (* TypedDict *)
  Lemma typed_sound fields schema data self orig c :
    forallb (fun f => is_vstr (fst f)) fields = true ->
    Forall2 field_rel fields schema ->
    present_normal rec schema data ->
    key_errs_of rec self schema data orig = [] ->
    has_type (ARecord RkTyped c fields) (VDict (key_payload_of rec AbsOmit schema data)) = true.
  Proof.
    intros Hs HF Hn He. cbn [has_type]. apply andb_true_intro. split.
    - apply forallb_forall. intros [k w] Hin. cbn [fst snd].
      destruct (payload_typed fields schema data HF k w Hin) as [a [req [Hf Ht]]].
      assert (Hk : py_eq k k = true).
      { apply py_eq_str_refl. rewrite forallb_forall in Hs. apply (Hs _ Hf). }
      apply (find_field fields k a req w Hf Hk Ht).
    - apply forallb_forall. intros [k [a req]] Hf. cbn [fst snd]. destruct req; [|reflexivity]. cbn [negb orb].
      destruct (payload_has_required fields schema data self orig HF Hn He k a Hf) as [w Hw].
      apply (dict_has_in _ k w Hw). apply py_eq_str_refl. rewrite forallb_forall in Hs. apply (Hs _ Hf).
  Qed.

  (* dataclass / NamedTuple: the instance is built from the payloads and the declared defaults *)
  Lemma dict_get_in l k v : dict_get l k = Some v -> exists k', In (k', v) l /\ py_eq k' k = true.
  Proof.
    induction l as [|[k0 v0] l IH]; cbn [dict_get]; [discriminate|].
    destruct (py_eq k0 k) eqn:E0.
    - intros H. injection H as <-. exists k0. split; [left; reflexivity | exact E0].
    - intros H. destruct (IH H) as [k' [H1 H2]]. exists k'. split; [right; exact H1 | exact H2].
  Qed.

  Lemma names_nodup_unique (fields : list (pyval * (ann * bool))) k a r a' r' :
    names_nodup (map fst fields) = true -> In (k, (a, r)) fields -> In (k, (a', r')) fields -> a = a' /\ r = r'.
  Proof.
    induction fields as [|[k0 [a0 r0]] fields IH]; intros Hn H1 H2; [destruct H1|].
    cbn [map fst names_nodup] in Hn. apply andb_prop in Hn. destruct Hn as [Hh Hn].
    assert (Hno : forall a1 r1, In (k0, (a1, r1)) fields -> False).
    { intros a1 r1 Hin. apply negb_true_iff in Hh. assert (Ht : existsb (pyval_eqb k0) (map fst fields) = true).
      { apply existsb_exists. exists k0. split; [apply (in_map fst _ _ Hin) | apply pyval_eqb_refl]. }
      congruence. }
    destruct H1 as [H1|H1], H2 as [H2|H2].
    - inversion H1; inversion H2; subst. split; reflexivity.
    - inversion H1; subst. destruct (Hno _ _ H2).
    - inversion H2; subst. destruct (Hno _ _ H1).
    - apply (IH Hn H1 H2).
  Qed.

  Lemma payload_keys_declared fields schema data k w :
    Forall2 field_rel fields schema -> In (k, w) (key_payload_of rec AbsOmit schema data) ->
    In k (map fst fields).
  Proof.
    intros HF Hin. destruct (payload_typed fields schema data HF k w Hin) as [a [req [H _]]].
    apply (in_map fst _ _ H).
  Qed.

  Lemma go_typed (val : pyval * option pyval -> pyval) : forall fl cf,
      map fst cf = map fst fl ->
      (forall fd a r, In fd cf -> In (fst fd, (a, r)) fl -> has_type a (val fd) = true) ->
      (fix go (fields0 : list (pyval * (ann * bool))) (fs : list (pyval * pyval)) : bool :=
         match fields0, fs with
         | [], [] => true
         | (k, (a1, _)) :: fr, (k', v) :: kr => pyval_eqb k k' && has_type a1 v && go fr kr
         | _, _ => false
         end) fl (map (fun fd => (fst fd, val fd)) cf) = true.
  Proof.
    induction fl as [|[k [a r]] fl IH]; intros cf Hnames Hval; destruct cf as [|fd cf]; try discriminate; [reflexivity|].
    cbn [map fst] in Hnames. injection Hnames as Hk Hrest. cbn [map fst snd].
    rewrite Hk, pyval_eqb_refl. cbn [andb].
    rewrite (Hval fd a r (or_introl eq_refl)); [|rewrite Hk; left; reflexivity]. cbn [andb].
    apply (IH cf Hrest). intros fd' a' r' Hfd' Hf'. apply (Hval fd' a' r'); right; assumption.
  Qed.

  Lemma data_sound rk c fields schema data self orig :
    rk <> RkTyped ->
    node_ok E rk c fields = true ->
    Forall2 field_rel fields schema ->
    present_normal rec schema data ->
    key_errs_of rec self schema data orig = [] ->
    has_type (ARecord rk c fields) (construct E c (key_payload_of rec AbsOmit schema data)) = true.
  Proof.
    intros Hrk Hok HF Hn He. unfold node_ok in Hok.
    apply andb_prop in Hok. destruct Hok as [Hok Hcls]. apply andb_prop in Hok. destruct Hok as [Hstr Hnd].
    assert (Hcls' : list_eqb pyval_eqb (map fst (cfields E c)) (map fst fields) = true /\
                    forallb (fun fd =>
                               match snd fd with
                               | Some d => existsb (fun f => pyval_eqb (fst f) (fst fd) && has_type (fst (snd f)) d) fields
                               | None => existsb (fun f => pyval_eqb (fst f) (fst fd) && snd (snd f)) fields
                               end) (cfields E c) = true)
      by (destruct rk; try congruence; apply andb_prop in Hcls; exact Hcls).
    clear Hcls. destruct Hcls' as [Hnames Hdef].
    apply (Proofs.EqbSound.list_eqb_sound pyval_eqb) in Hnames;
      [|intros; apply Proofs.EqbSound.pyval_eqb_sound; assumption].
    set (payload := key_payload_of rec AbsOmit schema data) in *.
    unfold construct.
    (* value at each class field is typed by the annotation's field of the same name *)
    assert (Hval : forall fd, In fd (cfields E c) ->
                              forall a r, In (fst fd, (a, r)) fields ->
                                          has_type a (match dict_get payload (fst fd) with
                                                      | Some v => v
                                                      | None => match snd fd with Some d => d | None => VNone end
                                                      end) = true).
    { intros fd Hfd a r Hf.
      assert (Hks : is_vstr (fst fd) = true) by (rewrite forallb_forall in Hstr; apply (Hstr _ Hf)).
      destruct (dict_get payload (fst fd)) as [v|] eqn:Eg.
      - destruct (dict_get_in _ _ _ Eg) as [k' [Hin Hk']].
        assert (Hk's : is_vstr k' = true).
        { pose proof (payload_keys_declared fields schema data k' v HF Hin) as Hd.
          apply in_map_iff in Hd. destruct Hd as [f [<- Hf']]. rewrite forallb_forall in Hstr. apply (Hstr _ Hf'). }
        apply (py_eq_str_eq _ _ Hk's) in Hk'. subst k'.
        destruct (payload_typed fields schema data HF _ _ Hin) as [a' [r' [Hf' Ht]]].
        destruct (names_nodup_unique fields _ _ _ _ _ Hnd Hf Hf') as [-> _]. exact Ht.
      - rewrite forallb_forall in Hdef. specialize (Hdef fd Hfd). destruct (snd fd) as [d|].
        + apply existsb_exists in Hdef. destruct Hdef as [[kf [af rf]] [Hf' Hc]]. cbn [fst snd] in Hc.
          apply andb_prop in Hc. destruct Hc as [Hk Ht]. apply Proofs.EqbSound.pyval_eqb_sound in Hk. subst kf.
          destruct (names_nodup_unique fields _ _ _ _ _ Hnd Hf Hf') as [-> _]. exact Ht.
        + apply existsb_exists in Hdef. destruct Hdef as [[kf [af rf]] [Hf' Hc]]. cbn [fst snd] in Hc.
          apply andb_prop in Hc. destruct Hc as [Hk Hr]. apply Proofs.EqbSound.pyval_eqb_sound in Hk. subst kf rf.
          destruct (payload_has_required fields schema data self orig HF Hn He _ _ Hf') as [w Hw].
          pose proof (dict_has_in _ _ _ Hw (py_eq_str_refl _ Hks)) as Hh. unfold dict_has in Hh.
          fold payload in Hh. rewrite Eg in Hh. discriminate. }
    cbn [has_type]. assert (Hgoal :
      (fix go (fields0 : list (pyval * (ann * bool))) (fs : list (pyval * pyval)) : bool :=
         match fields0, fs with
         | [], [] => true
         | (k, (a1, _)) :: fr, (k', v) :: kr => pyval_eqb k k' && has_type a1 v && go fr kr
         | _, _ => false
         end) fields
        (map (fun fd => (fst fd, match dict_get payload (fst fd) with
                                 | Some v => v
                                 | None => match snd fd with Some d => d | None => VNone end
                                 end)) (cfields E c)) = true).
    { apply go_typed; [exact Hnames|]. intros fd a r Hfd Hf. apply (Hval fd Hfd a r Hf). }
    destruct rk; try congruence; rewrite Nat.eqb_refl; exact Hgoal.
  Qed.
End Rec.

(* annotations the full soundness theorem covers: no user validator, every record node ok *)
Fixpoint okann (E : env) (a : ann) : bool :=
  match a with
  | AList x | ASet x | ATupleU x | AMaybe x | AQual x => okann E x
  | ADict k v => okann E k && okann E v
  | ATupleN l | AUnion l => forallb (okann E) l
  | AAnnotated x None => okann E x
  | AAnnotated _ (Some _) => false
  | ARecord rk c fields => node_ok E rk c fields && forallb (fun f => okann E (fst (snd f))) fields
  | _ => true
  end.

Lemma okann_children E a : okann E a = true ->
  match a with
  | AList x | ASet x | ATupleU x | AMaybe x | AQual x => okann E x = true
  | ADict k v => okann E k = true /\ okann E v = true
  | ATupleN l | AUnion l => forallb (okann E) l = true
  | AAnnotated _ (Some _) => False
  | _ => True
  end.
Proof.
  destruct a; cbn [okann]; intros H; auto.
  - apply andb_prop in H. exact H.
  - destruct v; [discriminate | exact I].
Qed.

Section All.
  Variable E : env.
  Hypothesis oracle_typed : forall k x y, oracle E k x = Some y -> exact_type y (okind_type k) = true.

  Lemma record_step rk c fields :
    Forall (fun f => sound_at E (okann E) (fst (snd f))) fields -> sound_at E (okann E) (ARecord rk c fields).
  Proof.
    intros HI Hp sig vd Hd fuel x w Hr. cbn [okann] in Hp. apply andb_prop in Hp. destruct Hp as [Hnode Hfs].
    destruct (derive_record sig rk c fields vd Hd) as [schema [-> [Hk [Hreq HF]]]].
    destruct fuel as [|n]; [discriminate|]. cbn [run step] in Hr. apply class_accept in Hr.
    destruct Hr as [_ [y [data [_ [_ [_ [Hn [He Hobj]]]]]]]]. unfold obj_stage in Hobj.
    assert (Hrel : Forall2 (field_rel (run E Sync n)) fields schema).
    { clear - HF HI Hfs Hk Hreq. revert HI Hfs Hk Hreq.
      induction HF as [|[kf [a rf]] [ks [v rs]] fields schema Hd HF IH]; intros HI Hfs Hk Hreq; [constructor|].
      inversion HI as [|? ? HIa HIl]; subst. cbn [forallb fst snd] in *. apply andb_prop in Hfs. destruct Hfs as [Hfa Hfl].
      cbn [map fst snd] in Hk, Hreq. injection Hk as Hk0 Hk. injection Hreq as Hr0 Hreq.
      constructor; [|apply IH; assumption].
      unfold field_rel. cbn [fst snd]. repeat split; [congruence | congruence|].
      intros x w Hrun. apply (HIa Hfa sig v Hd n x w Hrun). }
    destruct rk.
    - injection Hobj as <-. apply (data_sound E _ RkData c fields schema data _ y ltac:(discriminate) Hnode Hrel Hn He).
    - injection Hobj as <-. apply (data_sound E _ RkNamed c fields schema data _ y ltac:(discriminate) Hnode Hrel Hn He).
    - injection Hobj as <-. unfold node_ok in Hnode. apply andb_prop in Hnode. destruct Hnode as [Hnode _].
      apply andb_prop in Hnode. destruct Hnode as [Hstr _].
      apply (typed_sound _ fields schema data _ y c Hstr Hrel Hn He).
  Qed.

  (* every annotation of the grammar, record classes included *)
  Theorem derive_sound_all :
    forall a, okann E a = true -> forall sig v, derive sig a = Ok v ->
    forall fuel x w, run E Sync fuel v x = OValid w -> has_type a w = true.
  Proof. apply (derive_sound E oracle_typed (okann E) (okann_children E) record_step). Qed.
End All.

(* ---------- signature mode, record classes included ---------- *)

(* values as Python builds them: an instance has exactly its class's fields, in order *)
Fixpoint inst_ok (E : env) (x : pyval) : bool :=
  match x with
  | VList xs | VTuple xs | VSet xs => forallb (inst_ok E) xs
  | VDict kvs => forallb (fun kv => inst_ok E (fst kv) && inst_ok E (snd kv)) kvs
  | VJust y => inst_ok E y
  | VObj c fs => list_eqb pyval_eqb (map fst fs) (map fst (cfields E c)) && forallb (fun kv => inst_ok E (snd kv)) fs
  | _ => true
  end.

(* annotations of the strictness theorem: no user validator; record nodes are dataclasses or
   NamedTuples (a TypedDict value may carry undeclared keys, which the validator drops) *)
Fixpoint okstrict (E : env) (a : ann) : bool :=
  match a with
  | AList x | ASet x | ATupleU x | AMaybe x | AQual x => okstrict E x
  | ADict k v => okstrict E k && okstrict E v
  | ATupleN l | AUnion l => forallb (okstrict E) l
  | AAnnotated x None => okstrict E x
  | AAnnotated _ (Some _) => false
  | ARecord rk c fields =>
      match rk with RkTyped => false | _ => true end &&
      node_ok E rk c fields && forallb (fun f => okstrict E (fst (snd f))) fields
  | _ => true
  end.

Section RecStrict.
  Variable E : env.
  Variable rec : runner.

  Lemma py_eq_str_neq k k' : is_vstr k = true -> k <> k' -> py_eq k k' = false.
  Proof.
    intros Hk Hne. destruct (py_eq k k') eqn:Eq; [|reflexivity]. exfalso. apply Hne. apply (py_eq_str_eq _ _ Hk Eq).
  Qed.

  Lemma dict_get_unique : forall (l : list (pyval * pyval)) k x,
      In (k, x) l -> forallb (fun kv => is_vstr (fst kv)) l = true -> names_nodup (map fst l) = true ->
      dict_get l k = Some x.
  Proof.
    induction l as [|[k0 x0] l IH]; intros k x Hin Hs Hn; [destruct Hin|].
    cbn [forallb fst] in Hs. apply andb_prop in Hs. destruct Hs as [Hk0 Hs].
    cbn [map fst names_nodup] in Hn. apply andb_prop in Hn. destruct Hn as [Hh Hn]. cbn [dict_get].
    destruct Hin as [Hin|Hin].
    - inversion Hin; subst. rewrite (py_eq_str_refl _ Hk0). reflexivity.
    - assert (Hne : k0 <> k).
      { intros ->. apply negb_true_iff in Hh. assert (Ht : existsb (pyval_eqb k) (map fst l) = true).
        { apply existsb_exists. exists k. split; [apply (in_map fst _ _ Hin) | apply pyval_eqb_refl]. }
        congruence. }
      rewrite (py_eq_str_neq _ _ Hk0 Hne). apply IH; assumption.
  Qed.

  Lemma payload_src schema data : forall k w,
      In (k, w) (key_payload_of rec AbsOmit schema data) ->
      exists v r xv, In (k, (v, r)) schema /\ dict_get data k = Some xv /\ rec v xv = OValid w.
  Proof.
    induction schema as [|[k0 [v0 r0]] schema IH]; intros k w Hin; cbn [key_payload_of] in Hin; [destruct Hin|].
    cbv zeta in Hin.
    assert (Hrest : In (k, w) (key_payload_of rec AbsOmit schema data) ->
                    exists v r xv, In (k, (v, r)) ((k0, (v0, r0)) :: schema) /\ dict_get data k = Some xv /\ rec v xv = OValid w).
    { intros H. destruct (IH k w H) as [v [r [xv [H1 H2]]]]. exists v, r, xv. split; [right; exact H1 | exact H2]. }
    destruct (dict_get data k0) as [xv|] eqn:Eg.
    - destruct (rec v0 xv) as [w0| | | |] eqn:Er; try (apply Hrest; exact Hin).
      destruct Hin as [Hin|Hin]; [|apply Hrest; exact Hin]. inversion Hin; subst.
      exists v0, r0, xv. split; [left; reflexivity | split; assumption].
    - destruct r0; apply Hrest; exact Hin.
  Qed.

  Lemma payload_in schema data : forall k v r xv w,
      In (k, (v, r)) schema -> dict_get data k = Some xv -> rec v xv = OValid w ->
      In (k, w) (key_payload_of rec AbsOmit schema data).
  Proof.
    induction schema as [|[k0 [v0 r0]] schema IH]; intros k v r xv w Hin Hg Hr; [destruct Hin|].
    cbn [key_payload_of]. cbv zeta. destruct Hin as [Hin|Hin].
    - inversion Hin; subst. rewrite Hg, Hr. left; reflexivity.
    - pose proof (IH k v r xv w Hin Hg Hr) as Hi.
      destruct (dict_get data k0); [destruct (rec v0 p); try exact Hi; right; exact Hi | destruct r0; exact Hi].
  Qed.

  Lemma schema_unique (schema : list (pyval * (validator * bool))) k v r v' r' :
    names_nodup (map fst schema) = true -> In (k, (v, r)) schema -> In (k, (v', r')) schema -> v = v' /\ r = r'.
  Proof.
    induction schema as [|[k0 [v0 r0]] schema IH]; intros Hn H1 H2; [destruct H1|].
    cbn [map fst names_nodup] in Hn. apply andb_prop in Hn. destruct Hn as [Hh Hn].
    assert (Hno : forall a1 r1, In (k0, (a1, r1)) schema -> False).
    { intros a1 r1 Hin. apply negb_true_iff in Hh. assert (Ht : existsb (pyval_eqb k0) (map fst schema) = true).
      { apply existsb_exists. exists k0. split; [apply (in_map fst _ _ Hin) | apply pyval_eqb_refl]. }
      congruence. }
    destruct H1 as [H1|H1], H2 as [H2|H2].
    - inversion H1; inversion H2; subst. split; reflexivity.
    - inversion H1; subst. destruct (Hno _ _ H2).
    - inversion H2; subst. destruct (Hno _ _ H1).
    - apply (IH Hn H1 H2).
  Qed.

  (* a present, normal, non-failing key is a valid one *)
  Lemma present_valid self schema data orig k v r xv :
    present_normal rec schema data -> key_errs_of rec self schema data orig = [] ->
    In (k, (v, r)) schema -> dict_get data k = Some xv -> exists w, rec v xv = OValid w.
  Proof.
    intros Hn He Hin Hg. apply key_errs_nil in He. unfold present_normal in Hn.
    rewrite Forall_forall in Hn, He. specialize (Hn _ Hin). specialize (He _ Hin). cbn [fst snd] in *.
    rewrite Hg in Hn, He. destruct (rec v xv) as [w| i | | |]; try discriminate; [eexists; reflexivity|].
    exfalso. apply (He i). reflexivity.
  Qed.

  Lemma go_typed2 : forall (fl : list (pyval * (ann * bool))) (fsl : list (pyval * pyval)),
      map fst fsl = map fst fl ->
      (forall k a r xv, In (k, (a, r)) fl -> In (k, xv) fsl -> has_type a xv = true) ->
      (fix go (fields0 : list (pyval * (ann * bool))) (fs0 : list (pyval * pyval)) : bool :=
         match fields0, fs0 with
         | [], [] => true
         | (k, (a1, _)) :: fr, (k', v) :: kr => pyval_eqb k k' && has_type a1 v && go fr kr
         | _, _ => false
         end) fl fsl = true.
  Proof.
    induction fl as [|[k [a r]] fl IH]; intros fsl Hk Hv; destruct fsl as [|[k' xv] fsl]; try discriminate; [reflexivity|].
    cbn [map fst] in Hk. injection Hk as Hk0 Hk. subst k'.
    rewrite pyval_eqb_refl, (Hv k a r xv (or_introl eq_refl) (or_introl eq_refl)). cbn [andb].
    apply IH; [exact Hk|]. intros k1 a1 r1 x1 H1 H2. apply (Hv k1 a1 r1 x1); right; assumption.
  Qed.

  Lemma map_keys_values {A} (g : pyval * A -> pyval) : forall (cf : list (pyval * A)) (fs : list (pyval * pyval)),
      map fst cf = map fst fs -> (forall fd x, In fd cf -> In (fst fd, x) fs -> g fd = x) ->
      map (fun fd => (fst fd, g fd)) cf = fs.
  Proof.
    induction cf as [|[k d] cf IH]; intros fs Hk Hg; destruct fs as [|[k' x] fs]; try discriminate; [reflexivity|].
    cbn [map fst] in *. injection Hk as Hk0 Hk. subst k'. rewrite (Hg (k, d) x (or_introl eq_refl) (or_introl eq_refl)).
    f_equal. apply IH; [exact Hk|]. intros fd x1 H1 H2. apply Hg; right; assumption.
  Qed.

  Lemma fields_schema_rel (fields : list (pyval * (ann * bool))) (schema : list (pyval * (validator * bool))) :
    map fst schema = map fst fields ->
    map (fun e => snd (snd e)) schema = map (fun e => snd (snd e)) fields ->
    Forall2 (fun e s => derive true (fst (snd e)) = Ok (fst (snd s))) fields schema ->
    Forall2 (fun e s => fst e = fst s /\ snd (snd e) = snd (snd s) /\ derive true (fst (snd e)) = Ok (fst (snd s))) fields schema.
  Proof.
    intros Hk Hr HF. revert Hk Hr. induction HF as [|e s fields schema Hd HF IH]; intros Hk Hr; [constructor|].
    cbn [map] in Hk, Hr. injection Hk as Hk0 Hk. injection Hr as Hr0 Hr.
    constructor; [repeat split; congruence | apply IH; assumption].
  Qed.
End RecStrict.

Section StrictAll.
  Variable E : env.

  Definition strict2 (a : ann) : Prop :=
    okstrict E a = true -> forall v, derive true a = Ok v ->
    forall fuel x w, run E Sync fuel v x = OValid w -> inst_ok E x = true ->
                     has_type a x = true /\ (proper x = true -> w = x).

  Lemma children_strict2 n item a xs ws :
    (forall xi w, run E Sync n item xi = OValid w -> inst_ok E xi = true ->
                  has_type a xi = true /\ (proper xi = true -> w = xi)) ->
    Forall2 (fun xi w => run E Sync n item xi = OValid w) xs ws -> forallb (inst_ok E) xs = true ->
    forallb (has_type a) xs = true /\ (forallb proper xs = true -> ws = xs).
  Proof.
    intros IH HF. induction HF as [|xi wi xs ws Hh HF IHF]; intros Hi; [split; reflexivity|].
    cbn [forallb] in Hi. apply andb_prop in Hi. destruct Hi as [Hi0 Hi1].
    destruct (IH xi wi Hh Hi0) as [H1 H2]. destruct (IHF Hi1) as [I1 I2]. cbn [forallb]. rewrite H1, I1. split; [reflexivity|].
    intros Hp. apply andb_prop in Hp. destruct Hp as [P1 P2]. rewrite (H2 P1), (I2 P2). reflexivity.
  Qed.

  (* the record step: a dataclass / NamedTuple annotation in signature mode *)
  Lemma record_strict rk c fields :
    Forall (fun f => strict2 (fst (snd f))) fields -> strict2 (ARecord rk c fields).
  Proof.
    intros HI Hp vd Hd fuel x w Hr Hw. cbn [okstrict] in Hp.
    apply andb_prop in Hp. destruct Hp as [Hp Hfs]. apply andb_prop in Hp. destruct Hp as [Hrk Hnode].
    assert (Hnt : rk <> RkTyped) by (destruct rk; try discriminate; congruence).
    destruct (derive_record true rk c fields vd Hd) as [schema [-> [Hk [Hreq HF]]]].
    destruct fuel as [|n]; [discriminate|]. cbn [run step] in Hr. apply class_accept in Hr.
    destruct Hr as [_ [y [data [Hg [Hd' [_ [Hn [He Hobj]]]]]]]]. unfold obj_stage in Hobj.
    assert (Hx : exists fs, x = VObj c fs /\ y = VDict fs).
    { unfold class_gate, record_co in Hg. destruct rk; try congruence; cbn [coerce_apply] in Hg;
        destruct x; try discriminate;
          (destruct (Nat.eqb c c0) eqn:Ec; [|discriminate]; apply Nat.eqb_eq in Ec; subst c0;
           injection Hg as <-; eexists; split; reflexivity). }
    destruct Hx as [fs [-> ->]]. cbn [as_dict unsub] in Hd'. injection Hd' as <-.
    cbn [inst_ok] in Hw. apply andb_prop in Hw. destruct Hw as [Hshape Hwf].
    apply (Proofs.EqbSound.list_eqb_sound pyval_eqb) in Hshape; [|intros; apply Proofs.EqbSound.pyval_eqb_sound; assumption].
    pose proof Hnode as Hnode'. unfold node_ok in Hnode'.
    apply andb_prop in Hnode'. destruct Hnode' as [Hn1 Hcls]. apply andb_prop in Hn1. destruct Hn1 as [Hstr Hnd].
    assert (Hnames : map fst (cfields E c) = map fst fields).
    { destruct rk; try congruence; apply andb_prop in Hcls; destruct Hcls as [Hc _];
        apply (Proofs.EqbSound.list_eqb_sound pyval_eqb) in Hc; auto; intros; apply Proofs.EqbSound.pyval_eqb_sound; assumption. }
    assert (Hfsn : map fst fs = map fst fields) by congruence.
    assert (Hfs_str : forallb (fun kv : pyval * pyval => is_vstr (fst kv)) fs = true).
    { apply forallb_forall. intros [k xv] Hin. cbn [fst].
      assert (Hin' : In k (map fst fields)) by (rewrite <- Hfsn; apply (in_map fst _ _ Hin)).
      apply in_map_iff in Hin'. destruct Hin' as [f [<- Hf]]. rewrite forallb_forall in Hstr. apply (Hstr _ Hf). }
    assert (Hfs_nd : names_nodup (map fst fs) = true) by (rewrite Hfsn; exact Hnd).
    assert (Hsch_nd : names_nodup (map fst schema) = true) by (rewrite Hk; exact Hnd).
    (* every member: accepted, typed, unchanged *)
    assert (Hmember : forall k xv, In (k, xv) fs ->
               exists a r v w0, In (k, (a, r)) fields /\ In (k, (v, r)) schema /\ run E Sync n v xv = OValid w0 /\
                                has_type a xv = true /\ (proper xv = true -> w0 = xv)).
    { intros k xv Hin.
      assert (Hkin : In k (map fst fields)) by (rewrite <- Hfsn; apply (in_map fst _ _ Hin)).
      (* the field and the schema entry of that name *)
      assert (Hpair : exists a r v, In (k, (a, r)) fields /\ In (k, (v, r)) schema /\ derive true a = Ok v /\ strict2 a /\ okstrict E a = true).
      { pose proof (fields_schema_rel fields schema Hk Hreq HF) as HR.
        clear - HR HI Hfs Hkin. induction HR as [|[kf [a rf]] [ks [v rs]] fields schema [H1 [H2 H3]] HR IH]; [destruct Hkin|].
        inversion HI as [|? ? HIa HIl]; subst. cbn [forallb fst snd] in *. apply andb_prop in Hfs. destruct Hfs as [Hfa Hfl].
        subst ks rs. cbn [map fst] in Hkin. destruct Hkin as [<-|Hkin].
        - exists a, rf, v. split; [left; reflexivity|]. split; [left; reflexivity|]. split; [exact H3|]. split; [exact HIa | exact Hfa].
        - destruct (IH HIl Hfl Hkin) as [a0 [r0 [v0 [G1 [G2 G3]]]]]. exists a0, r0, v0. split; [right; exact G1|]. split; [right; exact G2 | exact G3]. }
      destruct Hpair as [a [r [v [Hf [Hs [Hdv [Hst Hok]]]]]]].
      pose proof (dict_get_unique fs k xv Hin Hfs_str Hfs_nd) as Hget.
      destruct (present_valid (run E Sync n) _ schema fs (VDict fs) k v r xv Hn He Hs Hget) as [w0 Hw0].
      assert (Hixv : inst_ok E xv = true) by (rewrite forallb_forall in Hwf; apply (Hwf _ Hin)).
      destruct (Hst Hok v Hdv n xv w0 Hw0 Hixv) as [T P].
      exists a, r, v, w0. repeat split; assumption. }
    split.
    - (* typed *)
      cbn [has_type]. assert (Hgo := go_typed2 fields fs Hfsn).
      destruct rk; try congruence; rewrite Nat.eqb_refl; cbn [andb]; apply Hgo;
        intros k a r xv Hf Hin; destruct (Hmember k xv Hin) as [a' [r' [v' [w' [Hf' [_ [_ [T _]]]]]]]];
          destruct (names_nodup_unique fields _ _ _ _ _ Hnd Hf Hf') as [-> _]; exact T.
    - (* unchanged *)
      intros Hpr. cbn [proper] in Hpr.
      assert (Hw : w = construct E c (key_payload_of (run E Sync n) AbsOmit schema fs))
        by (destruct rk; try congruence; injection Hobj as <-; reflexivity).
      rewrite Hw. unfold construct. f_equal.
      apply (map_keys_values (fun fd : pyval * option pyval =>
                                match dict_get (key_payload_of (run E Sync n) AbsOmit schema fs) (fst fd) with
                                | Some v => v
                                | None => match snd fd with Some d => d | None => VNone end
                                end) (cfields E c) fs (eq_sym Hshape)).
      intros fd xv Hfd Hin.
      destruct (Hmember _ xv Hin) as [a [r [v [w0 [Hf [Hs [Hw0 [_ Pid]]]]]]]].
      assert (Hpx : proper xv = true) by (rewrite forallb_forall in Hpr; apply (Hpr _ Hin)).
      rewrite (Pid Hpx) in Hw0.
      assert (Hks : is_vstr (fst fd) = true) by (rewrite forallb_forall in Hfs_str; apply (Hfs_str _ Hin)).
      pose proof (dict_get_unique fs _ xv Hin Hfs_str Hfs_nd) as Hget.
      pose proof (payload_in (run E Sync n) schema fs _ v r xv xv Hs Hget Hw0) as Hpin.
      pose proof (dict_has_in _ _ _ Hpin (py_eq_str_refl _ Hks)) as Hhas. unfold dict_has in Hhas.
      destruct (dict_get (key_payload_of (run E Sync n) AbsOmit schema fs) (fst fd)) as [v'|] eqn:Egp; [|discriminate].
      destruct (dict_get_in _ _ _ Egp) as [k' [Hin' Hk']].
      destruct (payload_src (run E Sync n) schema fs k' v' Hin') as [v2 [r2 [xv2 [Hs2 [Hg2 Hr2]]]]].
      assert (Hk's : is_vstr k' = true).
      { assert (Hin2 : In k' (map fst fields)) by (rewrite <- Hk; apply (in_map fst _ _ Hs2)).
        apply in_map_iff in Hin2. destruct Hin2 as [f [<- Hf2]]. rewrite forallb_forall in Hstr. apply (Hstr _ Hf2). }
      apply (py_eq_str_eq _ _ Hk's) in Hk'. subst k'.
      destruct (schema_unique schema _ _ _ _ _ Hsch_nd Hs Hs2) as [<- _].
      rewrite Hget in Hg2. injection Hg2 as <-. rewrite Hw0 in Hr2. injection Hr2 as <-. reflexivity.
  Qed.

  Lemma okstrict_children a : okstrict E a = true ->
    match a with
    | AList x | ASet x | ATupleU x | AMaybe x | AQual x => okstrict E x = true
    | ADict k v => okstrict E k = true /\ okstrict E v = true
    | ATupleN l | AUnion l => forallb (okstrict E) l = true
    | AAnnotated _ (Some _) => False
    | _ => True
    end.
  Proof.
    destruct a; cbn [okstrict]; intros H; auto.
    - apply andb_prop in H. exact H.
    - destruct v; [discriminate | exact I].
  Qed.

  Theorem derive_strict_all : forall a, strict2 a.
  Proof.
    induction a using ann_ind'; unfold strict2 in *; intros Hp vd Hd fuel x w Hr Hw;
      try (apply (record_strict rk c fields H Hp vd Hd fuel x w Hr Hw));
      (destruct fuel as [|n]; [discriminate|]); cbn [run] in Hr; cbn [derive] in Hd.
    - (* AScalar *)
      destruct k; try discriminate; injection Hd as <-; cbn [step] in Hr; apply scalar_accept in Hr;
        destruct Hr as [_ [y [Hg [Hpr _]]]]; cbn [procs_apply] in Hpr; injection Hpr as <-;
          unfold gate, default_co in Hg; cbn [ktype] in Hg;
            match type of Hg with (if ?b then _ else _) = _ => destruct b eqn:Ex; [|discriminate] end;
            injection Hg as <-; (split; [|reflexivity]); destruct x; cbn in Ex; try discriminate; reflexivity.
    - (* ANone *) injection Hd as <-. cbn [step] in Hr. unfold none_body in Hr.
      destruct x; try discriminate. injection Hr as <-. split; reflexivity.
    - (* AAny *) injection Hd as <-. cbn [step] in Hr. injection Hr as <-. split; reflexivity.
    - (* ANakedList *) injection Hd as <-. cbn [step] in Hr.
      apply (seq_none E TList TList VList n _ _ _ _ VList_inj') in Hr. destruct Hr as [Ex [xs [ws [Hit [HF ->]]]]].
      destruct (exact_list x Ex) as [xs' ->]. cbn in Hit. injection Hit as <-.
      rewrite (always_valid_children E n _ _ HF). split; reflexivity.
    - (* ANakedSet *) injection Hd as <-. cbn [step] in Hr. apply set_accept in Hr.
      destruct Hr as [_ [y [xs [ws [Hg [_ [Hit [HF [_ ->]]]]]]]]]. unfold gate in Hg.
      destruct (exact_type x TSet) eqn:Ex; [|discriminate]. injection Hg as <-.
      destruct (exact_set x Ex) as [xs' ->]. cbn in Hit. injection Hit as <-.
      rewrite (always_valid_children E n _ _ HF). split; [reflexivity|].
      cbn [proper]. intros Hp'. apply andb_prop in Hp'. destruct Hp' as [_ Hdd].
      unfold set_payload. rewrite set_payload_distinct by exact Hdd. reflexivity.
    - (* ANakedTuple *) injection Hd as <-. cbn [step tuple_co] in Hr.
      apply (seq_none E TTuple TList VTuple n _ _ _ _ VTuple_inj') in Hr. destruct Hr as [Ex [xs [ws [Hit [HF ->]]]]].
      destruct (exact_tuple x Ex) as [xs' ->]. cbn in Hit. injection Hit as <-.
      rewrite (always_valid_children E n _ _ HF). split; reflexivity.
    - (* ANakedDict *) injection Hd as <-. cbn [step] in Hr. apply map_accept in Hr.
      destruct Hr as [_ [y [kvs [pairs [Hg [_ [Hdd [HF [_ ->]]]]]]]]]. unfold gate in Hg.
      destruct (exact_type x TDict) eqn:Ex; [|discriminate]. injection Hg as <-.
      destruct (exact_dict x Ex) as [kvs' ->]. cbn in Hdd. injection Hdd as <-.
      assert (Hpairs : pairs = kvs').
      { clear - HF. induction HF as [|p q ps qs [H1 H2] HF IH]; [reflexivity|].
        destruct n; [discriminate|]. cbn in H1, H2. destruct p, q. cbn [fst snd] in *.
        injection H1 as <-. injection H2 as <-. rewrite IH. reflexivity. }
      subst pairs. split; [reflexivity|]. cbn [proper]. intros Hp'. apply andb_prop in Hp'. destruct Hp' as [_ Hdd].
      unfold map_payload. rewrite map_payload_distinct by exact Hdd. reflexivity.
    - (* AList *) apply okstrict_children in Hp. destruct (derive true a) as [v'|e] eqn:Ea; cbn [pbind] in Hd; [|discriminate].
      injection Hd as <-. cbn [step] in Hr.
      apply (seq_none E TList TList VList n _ _ _ _ VList_inj') in Hr. destruct Hr as [Ex [xs [ws [Hit [HF ->]]]]].
      destruct (exact_list x Ex) as [xs' ->]. cbn in Hit. injection Hit as <-. cbn [inst_ok] in Hw.
      destruct (children_strict2 n v' a xs' ws (fun xi wi Hi Hix => IHa Hp v' eq_refl n xi wi Hi Hix) HF Hw) as [H1 H2].
      split; [exact H1|]. cbn [proper]. intros Hp'. rewrite (H2 Hp'). reflexivity.
    - (* ASet *) apply okstrict_children in Hp. destruct (derive true a) as [v'|e] eqn:Ea; cbn [pbind] in Hd; [|discriminate].
      injection Hd as <-. cbn [step] in Hr. apply set_accept in Hr.
      destruct Hr as [_ [y [xs [ws [Hg [_ [Hit [HF [_ ->]]]]]]]]]. unfold gate in Hg.
      destruct (exact_type x TSet) eqn:Ex; [|discriminate]. injection Hg as <-.
      destruct (exact_set x Ex) as [xs' ->]. cbn in Hit. injection Hit as <-. cbn [inst_ok] in Hw.
      destruct (children_strict2 n v' a xs' ws (fun xi wi Hi Hix => IHa Hp v' eq_refl n xi wi Hi Hix) HF Hw) as [H1 H2].
      split; [exact H1|]. cbn [proper]. intros Hp'. apply andb_prop in Hp'. destruct Hp' as [Hp1 Hdd].
      rewrite (H2 Hp1). unfold set_payload. rewrite set_payload_distinct by exact Hdd. reflexivity.
    - (* ADict *) apply okstrict_children in Hp. destruct Hp as [Hpk Hpv].
      destruct (derive true a1) as [kv|e] eqn:Ek; cbn [pbind] in Hd; [|discriminate].
      destruct (derive true a2) as [vv|e] eqn:Ev; cbn [pbind] in Hd; [|discriminate].
      injection Hd as <-. cbn [step] in Hr. apply map_accept in Hr.
      destruct Hr as [_ [y [kvs [pairs [Hg [_ [Hdd [HF [_ ->]]]]]]]]]. unfold gate in Hg.
      destruct (exact_type x TDict) eqn:Ex; [|discriminate]. injection Hg as <-.
      destruct (exact_dict x Ex) as [kvs' ->]. cbn in Hdd. injection Hdd as <-. cbn [inst_ok] in Hw.
      assert (Hall : forallb (fun kv => has_type a1 (fst kv) && has_type a2 (snd kv)) kvs' = true /\
                     (forallb (fun kv => proper (fst kv) && proper (snd kv)) kvs' = true -> pairs = kvs')).
      { clear - HF IHa1 IHa2 Hpk Hpv Hw. induction HF as [|p q ps qs [H1 H2] HF IHF]; [split; reflexivity|].
        cbn [forallb] in Hw. apply andb_prop in Hw. destruct Hw as [Hw0 Hw1]. apply andb_prop in Hw0. destruct Hw0 as [Hwk Hwv].
        destruct (IHa1 Hpk kv eq_refl n _ _ H1 Hwk) as [T1 P1]. destruct (IHa2 Hpv vv eq_refl n _ _ H2 Hwv) as [T2 P2].
        destruct (IHF Hw1) as [I1 I2].
        cbn [forallb]. rewrite T1, T2, I1. split; [reflexivity|]. intros Hp. apply andb_prop in Hp. destruct Hp as [Hp Hps].
        apply andb_prop in Hp. destruct Hp as [Q1 Q2]. destruct p, q. cbn [fst snd] in *.
        rewrite (P1 Q1), (P2 Q2), (I2 Hps). reflexivity. }
      destruct Hall as [H1 H2]. split; [exact H1|]. cbn [proper]. intros Hp'. apply andb_prop in Hp'. destruct Hp' as [Hp1 Hdd].
      rewrite (H2 Hp1). unfold map_payload. rewrite map_payload_distinct by exact Hdd. reflexivity.
    - (* ATupleU *) apply okstrict_children in Hp. destruct (derive true a) as [v'|e] eqn:Ea; cbn [pbind] in Hd; [|discriminate].
      injection Hd as <-. cbn [step tuple_co] in Hr.
      apply (seq_none E TTuple TList VTuple n _ _ _ _ VTuple_inj') in Hr. destruct Hr as [Ex [xs [ws [Hit [HF ->]]]]].
      destruct (exact_tuple x Ex) as [xs' ->]. cbn in Hit. injection Hit as <-. cbn [inst_ok] in Hw.
      destruct (children_strict2 n v' a xs' ws (fun xi wi Hi Hix => IHa Hp v' eq_refl n xi wi Hi Hix) HF Hw) as [H1 H2].
      split; [exact H1|]. cbn [proper]. intros Hp'. rewrite (H2 Hp'). reflexivity.
    - (* ATupleN *)
      change (pbind (many_of (derive true) l) (fun vs => Ok (NTupleV vs None (tuple_co true))) = Ok vd) in Hd.
      destruct (many_of (derive true) l) as [vs|e] eqn:El; cbn [pbind] in Hd; [|discriminate].
      injection Hd as <-. cbn [step tuple_co] in Hr. apply ntuple_accept in Hr.
      destruct Hr as [y [xs [ws [Hg [Hlen [Hit [HF Hobj]]]]]]].
      unfold obj_stage in Hobj. injection Hobj as <-. unfold gate in Hg.
      destruct (exact_type x TTuple) eqn:Ex; [|discriminate]. injection Hg as <-.
      destruct (exact_tuple x Ex) as [xs' ->]. cbn in Hit. injection Hit as <-.
      apply many_of_Forall2 in El. apply okstrict_children in Hp. cbn [has_type proper inst_ok] in *.
      assert (Hxs : length xs' = length vs).
      { cbn in Hlen. injection Hlen as Hlen. apply Z.eqb_eq in Hlen. unfold zlen in Hlen. lia. }
      clear Hlen Ex.
      enough (Hgo : (fix go (l : list ann) (xs : list pyval) : bool :=
                       match l, xs with
                       | [], [] => true
                       | a1 :: lr, x1 :: xr => has_type a1 x1 && go lr xr
                       | _, _ => false
                       end) l xs' = true /\ (forallb proper xs' = true -> ws = xs')).
      { destruct Hgo as [G1 G2]. split; [exact G1|]. intros Hp'. rewrite (G2 Hp'). reflexivity. }
      revert xs' ws HF Hxs H Hp Hw.
      induction El as [|a v0 l vs0 Ha El' IHl]; intros xs ws HF Hxs HI Hp Hw.
      + destruct xs; [|discriminate]. inversion HF; subst. split; reflexivity.
      + destruct xs as [|x0 xs]; [discriminate|]. cbn [combine] in HF. inversion HF as [|? w0 ? ws0 Hh HF']; subst.
        cbn [forallb] in Hp, Hw. apply andb_prop in Hp. destruct Hp as [Hpa Hpl]. apply andb_prop in Hw. destruct Hw as [Hw0 Hwl].
        inversion HI as [|? ? HIa HIl]; subst. unfold callr in Hh. cbn [fst snd] in Hh.
        destruct (HIa Hpa v0 Ha n x0 w0 Hh Hw0) as [T1 P1].
        destruct (IHl xs ws0 HF' ltac:(cbn in Hxs; lia) HIl Hpl Hwl) as [T2 P2].
        rewrite T1, T2. split; [reflexivity|]. cbn [forallb]. intros Hq. apply andb_prop in Hq. destruct Hq as [Q1 Q2].
        rewrite (P1 Q1), (P2 Q2). reflexivity.
    - (* AUnion *)
      destruct l as [|a0 l0]; [discriminate|].
      change (pbind (many_of (derive true) (a0 :: l0)) (fun vs => Ok (UnionV vs)) = Ok vd) in Hd.
      destruct (many_of (derive true) (a0 :: l0)) as [vs|e] eqn:El; cbn [pbind] in Hd; [|discriminate].
      injection Hd as <-. cbn [step] in Hr. apply union_accept in Hr.
      destruct Hr as [pre [v0 [post [Hvs [Hv0 _]]]]].
      apply many_of_Forall2 in El. apply okstrict_children in Hp. cbn [has_type] in *.
      assert (Hin : In v0 vs) by (rewrite Hvs; apply in_or_app; right; left; reflexivity).
      clear Hvs. revert Hin Hp H. generalize dependent (a0 :: l0). intros l El.
      induction El as [|a v1 l vs1 Ha El' IHl]; intros Hin Hp HI; [destruct Hin|].
      cbn [forallb existsb] in *. apply andb_prop in Hp. destruct Hp as [Hpa Hpl].
      inversion HI as [|? ? HIa HIl]; subst.
      destruct Hin as [<-|Hin].
      + destruct (HIa Hpa v1 Ha n x w Hv0 Hw) as [T P]. rewrite T. split; [reflexivity | exact P].
      + destruct (IHl Hin Hpl HIl) as [T P]. rewrite T, orb_true_r. split; [reflexivity | exact P].
    - (* AMaybe *) apply okstrict_children in Hp. destruct (derive true a) as [v'|e] eqn:Ea; cbn [pbind] in Hd; [|discriminate].
      injection Hd as <-. cbn [step] in Hr. rewrite maybe_spec in Hr.
      destruct x; try discriminate.
      + destruct (run E Sync n v' x) as [w'| | | |] eqn:Ei; try discriminate. injection Hr as <-.
        cbn [inst_ok] in Hw. destruct (IHa Hp v' eq_refl n x w' Ei Hw) as [T P]. cbn [has_type proper]. split; [exact T|].
        intros Hq. rewrite (P Hq). reflexivity.
      + injection Hr as <-. split; reflexivity.
    - (* ALiteral *)
      destruct (literal_sound E true vs vd (S n) x w Hd Hr) as [T ->]. split; [exact T | reflexivity].
    - (* AAnnotated *) destruct v as [v0|]; [apply okstrict_children in Hp; destruct Hp | discriminate].
    - (* AQual *) apply okstrict_children in Hp. cbn [has_type]. apply (IHa Hp vd Hd (S n) x w); [cbn [run]; exact Hr | exact Hw].
    - (* AClass *) injection Hd as <-. cbn [step] in Hr. apply scalar_accept in Hr.
      destruct Hr as [_ [y [Hg [Hpr _]]]]. cbn [procs_apply] in Hpr. injection Hpr as <-.
      unfold gate in Hg. cbn [ktype] in Hg. destruct (exact_type x (TClass c)) eqn:Ex; [|discriminate].
      injection Hg as <-. split; [exact Ex | reflexivity].
  Qed.
End StrictAll.
