(* C07, record classes: the derived Dataclass / NamedTuple / TypedDict validator is sound when
   its field validators are (compositional step used by derive_sound_all). *)
From Coq Require Import ZArith List Bool Lia.
From KV Require Import Base.PyVal Base.Prims Model.Validator Model.Sem Model.Derive
     Proofs.Scalar Proofs.Calls Proofs.Records Proofs.EqP Proofs.DeriveP.
Import ListNotations.

Definition is_vstr (v : pyval) : bool := match v with VStr _ => true | _ => false end.

Lemma py_eq_str_refl k : is_vstr k = true -> py_eq k k = true.
Proof.
  destruct k; try discriminate. intros _. cbn. induction s as [|c s IH]; cbn; [reflexivity|].
  rewrite Z.eqb_refl. exact IH.
Qed.

Lemma py_eq_str_eq k k' : is_vstr k = true -> py_eq k k' = true -> k = k'.
Proof.
  destruct k; try discriminate. intros _. destruct k'; cbn; try discriminate.
  intros H. f_equal. apply Proofs.EqbSound.zlist_eqb_sound. exact H.
Qed.

Fixpoint names_nodup (ks : list pyval) : bool :=
  match ks with
  | [] => true
  | k :: r => negb (existsb (pyval_eqb k) r) && names_nodup r
  end.

(* one record node: string field names without repetition, the class table lists the same
   names in the same order, a field without default is required, and declared defaults are
   values of the field's type (they are used on trust) *)
Definition node_ok (E : env) (rk : record_kind) (c : classid) (fields : list (pyval * (ann * bool))) : bool :=
  forallb (fun f => is_vstr (fst f)) fields && names_nodup (map fst fields) &&
  match rk with
  | RkTyped => true
  | _ =>
      list_eqb pyval_eqb (map fst (cfields E c)) (map fst fields) &&
      forallb (fun fd =>
                 match snd fd with
                 | Some d => existsb (fun f => pyval_eqb (fst f) (fst fd) && has_type (fst (snd f)) d) fields
                 | None => existsb (fun f => pyval_eqb (fst f) (fst fd) && snd (snd f)) fields
                 end) (cfields E c)
  end.

Section Rec.
  Variable E : env.
  Variable rec : runner.

  (* fields of the annotation vs entries of the derived schema *)
  Definition field_rel (f : pyval * (ann * bool)) (s : pyval * (validator * bool)) : Prop :=
    fst f = fst s /\ snd (snd f) = snd (snd s) /\
    forall x w, rec (fst (snd s)) x = OValid w -> has_type (fst (snd f)) w = true.

  Lemma payload_typed fields schema data :
    Forall2 field_rel fields schema ->
    forall k w, In (k, w) (key_payload_of rec AbsOmit schema data) ->
                exists a req, In (k, (a, req)) fields /\ has_type a w = true.
  Proof.
    intros HF. induction HF as [|[kf [a rf]] [ks [v rs]] fields schema [Hk [Hr Ht]] HF IH]; intros k w Hin;
      cbn [key_payload_of] in Hin; [destruct Hin|]. cbv zeta in Hin. cbn [fst snd] in *. subst ks rs.
    assert (Hrest : In (k, w) (key_payload_of rec AbsOmit schema data) ->
                    exists a0 req, In (k, (a0, req)) ((kf, (a, rf)) :: fields) /\ has_type a0 w = true).
    { intros H. destruct (IH k w H) as [a0 [req [H1 H2]]]. exists a0, req. split; [right; exact H1 | exact H2]. }
    destruct (dict_get data kf) as [xv|].
    - destruct (rec v xv) as [w0| | | |] eqn:Er; try (apply Hrest; exact Hin).
      destruct Hin as [Hin|Hin]; [|apply Hrest; exact Hin]. injection Hin as <- <-.
      exists a, rf. split; [left; reflexivity | apply (Ht xv w0 Er)].
    - destruct rf; apply Hrest; exact Hin.
  Qed.

  Lemma payload_has_required fields schema data self orig :
    Forall2 field_rel fields schema ->
    present_normal rec schema data ->
    key_errs_of rec self schema data orig = [] ->
    forall k a, In (k, (a, true)) fields -> exists w, In (k, w) (key_payload_of rec AbsOmit schema data).
  Proof.
    intros HF. induction HF as [|[kf [a0 rf]] [ks [v rs]] fields schema [Hk [Hr _]] HF IH]; intros Hn He k a Hin;
      [destruct Hin|]. cbn [fst snd] in *. subst ks rs.
    inversion Hn as [|? ? Hn0 Hn']; subst. cbn [fst snd] in Hn0.
    cbn [key_errs_of key_payload_of] in *. cbv zeta in *.
    assert (Hrest : key_errs_of rec self schema data orig = [] -> In (k, (a, true)) fields ->
                    exists w, In (k, w) (key_payload_of rec AbsOmit schema data)) by (intros; eapply IH; eauto).
    destruct (dict_get data kf) as [xv|] eqn:Eg.
    - destruct (rec v xv) as [w0|i0| | |] eqn:Er; try discriminate.
      destruct Hin as [Hin|Hin].
      + inversion Hin; subst. exists w0. left; reflexivity.
      + destruct (Hrest He Hin) as [w Hw]. exists w. right; exact Hw.
    - destruct rf; [discriminate|]. destruct Hin as [Hin|Hin]; [inversion Hin|]. apply (Hrest He Hin).
  Qed.

  Lemma dict_has_in l k w : In (k, w) l -> py_eq k k = true -> dict_has l k = true.
  Proof.
    unfold dict_has. induction l as [|[k0 v0] l IH]; intros Hin Hk; [destruct Hin|]. cbn [dict_get].
    destruct (py_eq k0 k) eqn:E0; [reflexivity|]. destruct Hin as [Hin|Hin]; [injection Hin as -> ->; congruence|].
    apply IH; assumption.
  Qed.

  Lemma find_field fields k a req w :
    In (k, (a, req)) fields -> py_eq k k = true -> has_type a w = true ->
    (fix find (fields : list (pyval * (ann * bool))) : bool :=
       match fields with
       | [] => false
       | (k0, (a1, _)) :: fr => (py_eq k0 k && has_type a1 w) || find fr
       end) fields = true.
  Proof.
    induction fields as [|[k0 [a1 r1]] fields IH]; intros Hin Hk Ht; [destruct Hin|].
    destruct Hin as [Hin|Hin].
    - injection Hin as -> -> ->. rewrite Hk, Ht. reflexivity.
    - rewrite (IH Hin Hk Ht). apply orb_true_r.
  Qed.

  (* TypedDict *)
  Lemma typed_sound fields schema data self orig c :
    forallb (fun f => is_vstr (fst f)) fields = true ->
    Forall2 field_rel fields schema ->
    present_normal rec schema data ->
    key_errs_of rec self schema data orig = [] ->
    has_type (ARecord RkTyped c fields) (VDict (key_payload_of rec AbsOmit schema data)) = true.
  Proof.
    intros Hs HF Hn He. cbn [has_type]. apply andb_true_intro. split.
    - apply forallb_forall. intros [k w] Hin. cbn [fst snd].
      destruct (payload_typed fields schema data HF k w Hin) as [a [req [Hf Ht]]].
      assert (Hk : py_eq k k = true).
      { apply py_eq_str_refl. rewrite forallb_forall in Hs. apply (Hs _ Hf). }
      apply (find_field fields k a req w Hf Hk Ht).
    - apply forallb_forall. intros [k [a req]] Hf. cbn [fst snd]. destruct req; [|reflexivity]. cbn [negb orb].
      destruct (payload_has_required fields schema data self orig HF Hn He k a Hf) as [w Hw].
      apply (dict_has_in _ k w Hw). apply py_eq_str_refl. rewrite forallb_forall in Hs. apply (Hs _ Hf).
  Qed.

  (* dataclass / NamedTuple: the instance is built from the payloads and the declared defaults *)
  Lemma dict_get_in l k v : dict_get l k = Some v -> exists k', In (k', v) l /\ py_eq k' k = true.
  Proof.
    induction l as [|[k0 v0] l IH]; cbn [dict_get]; [discriminate|].
    destruct (py_eq k0 k) eqn:E0.
    - intros H. injection H as <-. exists k0. split; [left; reflexivity | exact E0].
    - intros H. destruct (IH H) as [k' [H1 H2]]. exists k'. split; [right; exact H1 | exact H2].
  Qed.

  Lemma names_nodup_unique (fields : list (pyval * (ann * bool))) k a r a' r' :
    names_nodup (map fst fields) = true -> In (k, (a, r)) fields -> In (k, (a', r')) fields -> a = a' /\ r = r'.
  Proof.
    induction fields as [|[k0 [a0 r0]] fields IH]; intros Hn H1 H2; [destruct H1|].
    cbn [map fst names_nodup] in Hn. apply andb_prop in Hn. destruct Hn as [Hh Hn].
    assert (Hno : forall a1 r1, In (k0, (a1, r1)) fields -> False).
    { intros a1 r1 Hin. apply negb_true_iff in Hh. assert (Ht : existsb (pyval_eqb k0) (map fst fields) = true).
      { apply existsb_exists. exists k0. split; [apply (in_map fst _ _ Hin) | apply pyval_eqb_refl]. }
      congruence. }
    destruct H1 as [H1|H1], H2 as [H2|H2].
    - inversion H1; inversion H2; subst. split; reflexivity.
    - inversion H1; subst. destruct (Hno _ _ H2).
    - inversion H2; subst. destruct (Hno _ _ H1).
    - apply (IH Hn H1 H2).
  Qed.

  Lemma payload_keys_declared fields schema data k w :
    Forall2 field_rel fields schema -> In (k, w) (key_payload_of rec AbsOmit schema data) ->
    In k (map fst fields).
  Proof.
    intros HF Hin. destruct (payload_typed fields schema data HF k w Hin) as [a [req [H _]]].
    apply (in_map fst _ _ H).
  Qed.

  Lemma go_typed (val : pyval * option pyval -> pyval) : forall fl cf,
      map fst cf = map fst fl ->
      (forall fd a r, In fd cf -> In (fst fd, (a, r)) fl -> has_type a (val fd) = true) ->
      (fix go (fields0 : list (pyval * (ann * bool))) (fs : list (pyval * pyval)) : bool :=
         match fields0, fs with
         | [], [] => true
         | (k, (a1, _)) :: fr, (k', v) :: kr => pyval_eqb k k' && has_type a1 v && go fr kr
         | _, _ => false
         end) fl (map (fun fd => (fst fd, val fd)) cf) = true.
  Proof.
    induction fl as [|[k [a r]] fl IH]; intros cf Hnames Hval; destruct cf as [|fd cf]; try discriminate; [reflexivity|].
    cbn [map fst] in Hnames. injection Hnames as Hk Hrest. cbn [map fst snd].
    rewrite Hk, pyval_eqb_refl. cbn [andb].
    rewrite (Hval fd a r (or_introl eq_refl)); [|rewrite Hk; left; reflexivity]. cbn [andb].
    apply (IH cf Hrest). intros fd' a' r' Hfd' Hf'. apply (Hval fd' a' r'); right; assumption.
  Qed.

  Lemma data_sound rk c fields schema data self orig :
    rk <> RkTyped ->
    node_ok E rk c fields = true ->
    Forall2 field_rel fields schema ->
    present_normal rec schema data ->
    key_errs_of rec self schema data orig = [] ->
    has_type (ARecord rk c fields) (construct E c (key_payload_of rec AbsOmit schema data)) = true.
  Proof.
    intros Hrk Hok HF Hn He. unfold node_ok in Hok.
    apply andb_prop in Hok. destruct Hok as [Hok Hcls]. apply andb_prop in Hok. destruct Hok as [Hstr Hnd].
    assert (Hcls' : list_eqb pyval_eqb (map fst (cfields E c)) (map fst fields) = true /\
                    forallb (fun fd =>
                               match snd fd with
                               | Some d => existsb (fun f => pyval_eqb (fst f) (fst fd) && has_type (fst (snd f)) d) fields
                               | None => existsb (fun f => pyval_eqb (fst f) (fst fd) && snd (snd f)) fields
                               end) (cfields E c) = true)
      by (destruct rk; try congruence; apply andb_prop in Hcls; exact Hcls).
    clear Hcls. destruct Hcls' as [Hnames Hdef].
    apply (Proofs.EqbSound.list_eqb_sound pyval_eqb) in Hnames;
      [|intros; apply Proofs.EqbSound.pyval_eqb_sound; assumption].
    set (payload := key_payload_of rec AbsOmit schema data) in *.
    unfold construct.
    (* value at each class field is typed by the annotation's field of the same name *)
    assert (Hval : forall fd, In fd (cfields E c) ->
                              forall a r, In (fst fd, (a, r)) fields ->
                                          has_type a (match dict_get payload (fst fd) with
                                                      | Some v => v
                                                      | None => match snd fd with Some d => d | None => VNone end
                                                      end) = true).
    { intros fd Hfd a r Hf.
      assert (Hks : is_vstr (fst fd) = true) by (rewrite forallb_forall in Hstr; apply (Hstr _ Hf)).
      destruct (dict_get payload (fst fd)) as [v|] eqn:Eg.
      - destruct (dict_get_in _ _ _ Eg) as [k' [Hin Hk']].
        assert (Hk's : is_vstr k' = true).
        { pose proof (payload_keys_declared fields schema data k' v HF Hin) as Hd.
          apply in_map_iff in Hd. destruct Hd as [f [<- Hf']]. rewrite forallb_forall in Hstr. apply (Hstr _ Hf'). }
        apply (py_eq_str_eq _ _ Hk's) in Hk'. subst k'.
        destruct (payload_typed fields schema data HF _ _ Hin) as [a' [r' [Hf' Ht]]].
        destruct (names_nodup_unique fields _ _ _ _ _ Hnd Hf Hf') as [-> _]. exact Ht.
      - rewrite forallb_forall in Hdef. specialize (Hdef fd Hfd). destruct (snd fd) as [d|].
        + apply existsb_exists in Hdef. destruct Hdef as [[kf [af rf]] [Hf' Hc]]. cbn [fst snd] in Hc.
          apply andb_prop in Hc. destruct Hc as [Hk Ht]. apply Proofs.EqbSound.pyval_eqb_sound in Hk. subst kf.
          destruct (names_nodup_unique fields _ _ _ _ _ Hnd Hf Hf') as [-> _]. exact Ht.
        + apply existsb_exists in Hdef. destruct Hdef as [[kf [af rf]] [Hf' Hc]]. cbn [fst snd] in Hc.
          apply andb_prop in Hc. destruct Hc as [Hk Hr]. apply Proofs.EqbSound.pyval_eqb_sound in Hk. subst kf rf.
          destruct (payload_has_required fields schema data self orig HF Hn He _ _ Hf') as [w Hw].
          pose proof (dict_has_in _ _ _ Hw (py_eq_str_refl _ Hks)) as Hh. unfold dict_has in Hh.
          fold payload in Hh. rewrite Eg in Hh. discriminate. }
    cbn [has_type]. assert (Hgoal :
      (fix go (fields0 : list (pyval * (ann * bool))) (fs : list (pyval * pyval)) : bool :=
         match fields0, fs with
         | [], [] => true
         | (k, (a1, _)) :: fr, (k', v) :: kr => pyval_eqb k k' && has_type a1 v && go fr kr
         | _, _ => false
         end) fields
        (map (fun fd => (fst fd, match dict_get payload (fst fd) with
                                 | Some v => v
                                 | None => match snd fd with Some d => d | None => VNone end
                                 end)) (cfields E c)) = true).
    { apply go_typed; [exact Hnames|]. intros fd a r Hfd Hf. apply (Hval fd Hfd a r Hf). }
    destruct rk; try congruence; rewrite Nat.eqb_refl; exact Hgoal.
  Qed.
End Rec.

(* annotations the full soundness theorem covers: no user validator, every record node ok *)
Fixpoint okann (E : env) (a : ann) : bool :=
  match a with
  | AList x | ASet x | ATupleU x | AMaybe x | AQual x => okann E x
  | ADict k v => okann E k && okann E v
  | ATupleN l | AUnion l => forallb (okann E) l
  | AAnnotated x None => okann E x
  | AAnnotated _ (Some _) => false
  | ARecord rk c fields => node_ok E rk c fields && forallb (fun f => okann E (fst (snd f))) fields
  | _ => true
  end.

Lemma okann_children E a : okann E a = true ->
  match a with
  | AList x | ASet x | ATupleU x | AMaybe x | AQual x => okann E x = true
  | ADict k v => okann E k = true /\ okann E v = true
  | ATupleN l | AUnion l => forallb (okann E) l = true
  | AAnnotated _ (Some _) => False
  | _ => True
  end.
Proof.
  destruct a; cbn [okann]; intros H; auto.
  - apply andb_prop in H. exact H.
  - destruct v; [discriminate | exact I].
Qed.

Section All.
  Variable E : env.
  Hypothesis oracle_typed : forall k x y, oracle E k x = Some y -> exact_type y (okind_type k) = true.

  Lemma record_step rk c fields :
    Forall (fun f => sound_at E (okann E) (fst (snd f))) fields -> sound_at E (okann E) (ARecord rk c fields).
  Proof.
    intros HI Hp sig vd Hd fuel x w Hr. cbn [okann] in Hp. apply andb_prop in Hp. destruct Hp as [Hnode Hfs].
    destruct (derive_record sig rk c fields vd Hd) as [schema [-> [Hk [Hreq HF]]]].
    destruct fuel as [|n]; [discriminate|]. cbn [run step] in Hr. apply class_accept in Hr.
    destruct Hr as [_ [y [data [_ [_ [_ [Hn [He Hobj]]]]]]]]. unfold obj_stage in Hobj.
    assert (Hrel : Forall2 (field_rel (run E Sync n)) fields schema).
    { clear - HF HI Hfs Hk Hreq. revert HI Hfs Hk Hreq.
      induction HF as [|[kf [a rf]] [ks [v rs]] fields schema Hd HF IH]; intros HI Hfs Hk Hreq; [constructor|].
      inversion HI as [|? ? HIa HIl]; subst. cbn [forallb fst snd] in *. apply andb_prop in Hfs. destruct Hfs as [Hfa Hfl].
      cbn [map fst snd] in Hk, Hreq. injection Hk as Hk0 Hk. injection Hreq as Hr0 Hreq.
      constructor; [|apply IH; assumption].
      unfold field_rel. cbn [fst snd]. repeat split; [congruence | congruence|].
      intros x w Hrun. apply (HIa Hfa sig v Hd n x w Hrun). }
    destruct rk.
    - injection Hobj as <-. apply (data_sound E _ RkData c fields schema data _ y ltac:(discriminate) Hnode Hrel Hn He).
    - injection Hobj as <-. apply (data_sound E _ RkNamed c fields schema data _ y ltac:(discriminate) Hnode Hrel Hn He).
    - injection Hobj as <-. unfold node_ok in Hnode. apply andb_prop in Hnode. destruct Hnode as [Hnode _].
      apply andb_prop in Hnode. destruct Hnode as [Hstr _].
      apply (typed_sound _ fields schema data _ y c Hstr Hrel Hn He).
  Qed.

  (* every annotation of the grammar, record classes included *)
  Theorem derive_sound_all :
    forall a, okann E a = true -> forall sig v, derive sig a = Ok v ->
    forall fuel x w, run E Sync fuel v x = OValid w -> has_type a w = true.
  Proof. apply (derive_sound E oracle_typed (okann E) (okann_children E) record_step). Qed.
End All.
