(* C01: validation is total.  For well-formed validator trees every call returns
   Valid or Invalid; the only exception is the documented AssertionError of the
   synchronous entry point.  [wf] states, per node, what the library's own type
   annotations guarantee: predicates and processors are defined on the values the
   node's gate lets through. *)
From Coq Require Import ZArith List Bool Lia.
From KV Require Import Base.PyVal Base.Prims Model.Validator Model.Sem
     Proofs.Scalar Proofs.Calls Proofs.Collections Proofs.Records Proofs.Wrappers Proofs.Returns.
Import ListNotations.
Open Scope nat_scope.

(* outcomes the documentation allows (out-of-fuel is excluded by the theorem's statement) *)
Definition documented (m : mode) (o : outcome) : Prop :=
  match o with
  | OValid _ | OInvalid _ => True
  | OAssert => m = Sync
  | ORaise _ => False
  | ONoFuel => True
  end.

Section WF.
  Variable E : env.

  (* processors keep values inside T without raising; predicates are defined on T *)
  Definition stage_ok (T : pyval -> Prop) (pre : list processor) (ps : list predicate) : Prop :=
    (forall p y, In p pre -> T y -> exists y', proc_apply E p y = Ok y' /\ T y') /\
    (forall p y, In p ps -> T y -> exists b, pred_eval E p y = Ok b).

  Definition gate_into (co : option coercer) (exact dest : pytype) (T : pyval -> Prop) : Prop :=
    forall x y, gate E co exact dest x = inr y -> T y.

  (* child payloads that become set members / dict keys are hashable *)
  Definition payload_hashable (item : validator) : Prop :=
    forall m n x w, run E m n item x = OValid w -> hashable (chashable E) w = true.

  Fixpoint wf (v : validator) : Prop :=
    let fix wf_all (vs : list validator) : Prop :=
      match vs with [] => True | v :: r => wf v /\ wf_all r end in
    let fix wf_keys (kvs : list (pyval * validator)) : Prop :=
      match kvs with [] => True | (_, v) :: r => wf v /\ wf_keys r end in
    let fix wf_schema (kvs : list (pyval * (validator * bool))) : Prop :=
      match kvs with [] => True | (_, (v, _)) :: r => wf v /\ wf_schema r end in
    match v with
    | Scalar k co pre ps aps =>
        exists T : pyval -> Prop, gate_into co (ktype k) (ktype k) T /\ stage_ok T pre ps
    | NoneV _ | AlwaysValid | IsDictV => True
    | EqualsV mt pre =>
        exists T : pyval -> Prop, (forall x, exact_type x (type_of mt) = true -> T x) /\ stage_ok T pre [PEqualTo mt]
    | ListV item ps aps co =>
        wf item /\ exists T : pyval -> Prop, gate_into co TList TList T /\ stage_ok T [] ps /\
                             (forall y, T y -> exists xs, py_iter y = Ok xs)
    | UTupleV item ps aps co =>
        wf item /\ exists T : pyval -> Prop, gate_into co TTuple TList T /\ stage_ok T [] ps /\
                             (forall y, T y -> exists xs, py_iter y = Ok xs)
    | SetV item ps aps co =>
        wf item /\ payload_hashable item /\
        exists T : pyval -> Prop, gate_into co TSet TSet T /\ stage_ok T [] ps /\
                  (forall y, T y -> exists xs, py_iter y = Ok xs)
    | NTupleV fields vobj co =>
        wf_all fields /\
        forall x y, gate E co TTuple TList x = inr y ->
                    (exists b, pred_eval E (PExactItemCount (zlen fields)) y = Ok b) /\
                    (exists xs, py_iter y = Ok xs)
    | MapV kv vv ps aps co =>
        wf kv /\ wf vv /\ payload_hashable kv /\
        exists T : pyval -> Prop, gate_into co TDict TDict T /\ stage_ok T [] ps /\
                  (forall y, T y -> exists kvs, as_dict y = Some kvs)
    | RecordV keys _ _ _ _ => wf_keys keys
    | DictAnyV schema _ _ _ => wf_keys schema
    | ClassV rk c schema _ _ _ co =>
        wf_schema schema /\
        forall x y, class_gate E rk c co x = inr y -> exists data, as_dict y = Some data
    | UnionV vs => wf_all vs
    | OptionalV a b => wf a /\ wf b
    | MaybeV a | KeyNotRequired a | CacheV a => wf a
    | LazyV _ _ => True
    | UserV id flav => forall m x, documented m (uvalid E id flav m x)
    end.

  Lemma wf_all_Forall vs :
    (fix wf_all (vs : list validator) : Prop :=
       match vs with [] => True | v :: r => wf v /\ wf_all r end) vs -> Forall wf vs.
  Proof. induction vs as [|v vs IH]; intros H; [constructor|]. destruct H. constructor; auto. Qed.

  Lemma wf_keys_Forall kvs :
    (fix wf_keys (kvs : list (pyval * validator)) : Prop :=
       match kvs with [] => True | (_, v) :: r => wf v /\ wf_keys r end) kvs ->
    Forall (fun kv => wf (snd kv)) kvs.
  Proof. induction kvs as [|[k v] kvs IH]; intros H; [constructor|]. destruct H. constructor; auto. Qed.

  Lemma wf_schema_Forall kvs :
    (fix wf_schema (kvs : list (pyval * (validator * bool))) : Prop :=
       match kvs with [] => True | (_, (v, _)) :: r => wf v /\ wf_schema r end) kvs ->
    Forall (fun kv => wf (fst (snd kv))) kvs.
  Proof. induction kvs as [|[k [v b]] kvs IH]; intros H; [constructor|]. destruct H. constructor; auto. Qed.

  (* ---------- stages that cannot raise on T ---------- *)

  Lemma procs_total T pre ps y :
    stage_ok T pre ps -> T y -> exists y', procs_apply E pre y = Ok y' /\ T y'.
  Proof.
    intros [Hp _]. revert y. induction pre as [|p pre IH]; intros y Hy.
    - exists y; split; [reflexivity | exact Hy].
    - destruct (Hp p y (or_introl eq_refl) Hy) as [y1 [H1 Hy1]].
      cbn [procs_apply]. rewrite H1. cbn [pbind].
      apply IH; [|exact Hy1]. intros q z Hq Hz. apply Hp; [right; exact Hq | exact Hz].
  Qed.

  Lemma preds_total T pre ps y :
    stage_ok T pre ps -> T y -> preds_defined E ps y.
  Proof.
    intros [_ Hp] Hy. unfold preds_defined. rewrite Forall_forall. intros p Hin. exact (Hp p y Hin Hy).
  Qed.

  Lemma all_failing_total T pre ps aps m y :
    stage_ok T pre ps -> T y -> exists fs, all_failing E m ps aps y = Ok fs.
  Proof.
    intros Hs Hy. destruct (failing_preds_defined E ps y (preds_total _ _ _ _ Hs Hy)) as [fs Hfs].
    unfold all_failing. rewrite Hfs. cbn [pbind]. eexists; reflexivity.
  Qed.

  Lemma pred_stage_documented T pre ps aps self m y o :
    stage_ok T pre ps -> T y -> pred_stage E self m ps aps y = Some o -> documented m o.
  Proof.
    intros Hs Hy. unfold pred_stage.
    destruct (all_failing_total T pre ps aps m y Hs Hy) as [fs ->].
    destruct fs; intros H; inversion H; exact I.
  Qed.

  Lemma obj_stage_documented self m vobj avobj obj : documented m (obj_stage E self m vobj avobj obj).
  Proof.
    unfold obj_stage. destruct (match vobj with Some id => uobj E id obj | None => None end); [exact I|].
    destruct m; [exact I|]. destruct avobj; [|exact I]. destruct (uaobj E n obj); exact I.
  Qed.

  (* ---------- abnormal results of the reference loops come from a child call ---------- *)

  Lemma map_ref_src rec kv vv kvs acc errs o :
    map_ref E rec kv vv kvs acc errs = inl o ->
    (exists k, o = rec kv k) \/ (exists v, o = rec vv v) \/
    (o = ORaise ExType /\ exists k w, rec kv k = OValid w /\ hashable (chashable E) w = false).
  Proof.
    revert acc errs; induction kvs as [|[k v] kvs IH]; intros acc errs; cbn [map_ref]; [discriminate|].
    cbv zeta.
    destruct (rec kv k) eqn:Hk; cbn [normal negb];
      try (intros H; inversion H; left; exists k; rewrite Hk; reflexivity);
    destruct (rec vv v) eqn:Hv; cbn [normal negb];
      try (intros H; inversion H; right; left; exists v; rewrite Hv; reflexivity);
      try apply IH.
    destruct (hashable (chashable E) w) eqn:Hh; [apply IH|].
    intros H; inversion H. right; right. split; [reflexivity|]. exists k, w. auto.
  Qed.

  Lemma keys_ref_src rec self pol keys data orig o :
    keys_ref rec self pol keys data orig = inl o ->
    exists k v r xv, In (k, (v, r)) keys /\ o = rec v xv.
  Proof.
    induction keys as [|[k [v req]] keys IH]; cbn [keys_ref]; [discriminate|].
    assert (Hr : keys_ref rec self pol keys data orig = inl o ->
                 exists k0 v0 r xv, In (k0, (v0, r)) ((k, (v, req)) :: keys) /\ o = rec v0 xv).
    { intros H. destruct (IH H) as [k0 [v0 [r [xv [Hin Ho]]]]]. exists k0, v0, r, xv. split; [right; exact Hin | exact Ho]. }
    destruct (dict_get data k) as [xv|].
    - destruct (rec v xv) eqn:Hv;
        try (intros H; inversion H; exists k, v, req, xv; split; [left; reflexivity | rewrite Hv; reflexivity]).
      + destruct (keys_ref rec self pol keys data orig) as [o'|[? ?]] eqn:Hk; [|discriminate].
        intros H; inversion H; subst. apply Hr. reflexivity.
      + destruct (keys_ref rec self pol keys data orig) as [o'|[? ?]] eqn:Hk; [|discriminate].
        intros H; inversion H; subst. apply Hr. reflexivity.
    - destruct (keys_ref rec self pol keys data orig) as [o'|[? ?]] eqn:Hk.
      + intros H; inversion H; subst. apply Hr. reflexivity.
      + destruct req; [discriminate|]. destruct pol; discriminate.
  Qed.

  Lemma union_ref_src rec vs x o :
    union_ref rec vs x = inl o -> exists v, In v vs /\ o = rec v x.
  Proof.
    induction vs as [|v vs IH]; cbn [union_ref]; [discriminate|].
    destruct (rec v x) eqn:Hv;
      try (intros H; inversion H; exists v; split; [left; reflexivity | rewrite Hv; reflexivity]).
    destruct (union_ref rec vs x) as [o'|errs] eqn:Hu; [|discriminate].
    intros H; inversion H; subst. destruct (IH eq_refl) as [v' [Hin Ho]].
    exists v'. split; [right; exact Hin | exact Ho].
  Qed.

  Lemma collect_set_src' outs acc errs o :
    collect_set E outs acc errs = inl o ->
    In o outs \/ (o = ORaise ExType /\ exists w, In (OValid w) outs /\ hashable (chashable E) w = false).
  Proof.
    revert acc errs; induction outs as [|o' outs IH]; intros acc errs; cbn [collect_set]; [discriminate|].
    assert (Hr : forall a e, collect_set E outs a e = inl o ->
                 In o (o' :: outs) \/ (o = ORaise ExType /\ exists w, In (OValid w) (o' :: outs) /\ hashable (chashable E) w = false)).
    { intros a e H. destruct (IH _ _ H) as [Hin|[He [w [Hw Hh]]]]; [left; right; exact Hin|].
      right. split; [exact He|]. exists w. split; [right; exact Hw | exact Hh]. }
    destruct o'; try (intros H; inversion H; left; left; reflexivity); try apply Hr.
    destruct errs; [|apply Hr]. destruct (hashable (chashable E) w) eqn:Hh; [apply Hr|].
    intros H; inversion H. right. split; [reflexivity|]. exists w. split; [left; reflexivity | exact Hh].
  Qed.

  (* ---------- the step ---------- *)

  Hypothesis Hlazy : forall r, wf (lazy_env E r).

  Variable m : mode.
  Variable n : nat.
  Let rec := run E m n.
  Hypothesis IH : forall v x, wf v -> documented m (rec v x).

  Lemma in_calls_documented s cs o :
    Forall (fun c => wf (fst c)) cs -> In o (run_calls s rec cs) -> documented m o.
  Proof.
    intros Hcs Hin. apply run_calls_in in Hin. destruct Hin as [[v x] [Hin <-]].
    rewrite Forall_forall in Hcs. apply IH. exact (Hcs _ Hin).
  Qed.

  Lemma seq_documented exact dest wrap self item ps aps co x T :
    wf item -> gate_into co exact dest T -> stage_ok T [] ps ->
    (forall y, T y -> exists xs, py_iter y = Ok xs) ->
    documented m (seq_body E exact dest wrap rec self item ps aps co m x).
  Proof.
    intros Hi Hg Hs Hit. unfold seq_body.
    destruct (mode_eqb m Sync && nonempty aps) eqn:Hgd.
    { destruct m; [reflexivity | discriminate]. }
    destruct (gate E co exact dest x) as [e|y] eqn:Hgate; [exact I|].
    pose proof (Hg _ _ Hgate) as Hy.
    destruct (pred_stage E self m ps aps y) as [o|] eqn:Hps; [eapply pred_stage_documented; eauto|].
    destruct (Hit y Hy) as [xs ->].
    destruct (collect_items 0 _) as [o|[ws [|e errs]]] eqn:Hc; try exact I.
    apply collect_items_abnormal in Hc. destruct Hc as [Hin _].
    eapply in_calls_documented; [|exact Hin]. rewrite Forall_map. rewrite Forall_forall; intros; exact Hi.
  Qed.

  Theorem step_documented v x : wf v -> documented m (step E m rec v x).
  Proof.
    destruct v; cbn [step]; intros Hw.
    - (* Scalar *)
      destruct Hw as [T [Hg Hs]]. unfold scalar_body.
      destruct (mode_eqb m Sync && nonempty aps) eqn:Hgd.
      { destruct m; [reflexivity | discriminate]. }
      destruct (gate E co (ktype k) (ktype k) x) as [e|y] eqn:Hgate; [exact I|].
      destruct (procs_total T pre ps y Hs (Hg _ _ Hgate)) as [y' [-> Hy']].
      destruct (all_failing_total T pre ps aps m y' Hs Hy') as [fs ->]. destruct fs; exact I.
    - unfold none_body. destruct co; [destruct (coerce_apply E c x)|destruct x]; exact I.
    - (* EqualsV *)
      destruct Hw as [T [Hg Hs]]. unfold equals_body.
      destruct (exact_type x (type_of m0)) eqn:Hx; [|exact I].
      destruct (procs_total T pre _ x Hs (Hg _ Hx)) as [y' [-> Hy']].
      destruct Hs as [_ Hp]. destruct (Hp (PEqualTo m0) y' (or_introl eq_refl) Hy') as [b Hb].
      cbn [pred_eval] in Hb. rewrite Hb. destruct b; exact I.
    - exact I.
    - destruct (isinstance (ckind E) x TDict); exact I.
    - (* ListV *) destruct Hw as [Hi [T [Hg [Hs Hit]]]]. eapply seq_documented; eauto.
    - (* SetV *)
      destruct Hw as [Hi [Hh [T [Hg [Hs Hit]]]]]. unfold set_body.
      destruct (mode_eqb m Sync && nonempty aps) eqn:Hgd.
      { destruct m; [reflexivity | discriminate]. }
      destruct (gate E co TSet TSet x) as [e|y] eqn:Hgate; [exact I|].
      pose proof (Hg _ _ Hgate) as Hy.
      destruct (pred_stage E _ m ps aps y) as [o|] eqn:Hps; [eapply pred_stage_documented; eauto|].
      destruct (Hit y Hy) as [xs ->].
      destruct (collect_set E _ [] []) as [o|[ws [|e errs]]] eqn:Hc; try exact I.
      apply collect_set_src' in Hc. destruct Hc as [Hin|[_ [w [Hin Hf]]]].
      + eapply in_calls_documented; [|exact Hin]. rewrite Forall_map. rewrite Forall_forall; intros; exact Hi.
      + exfalso. apply run_calls_in in Hin. destruct Hin as [[v' x'] [Hin Hc]].
        apply in_map_iff in Hin. destruct Hin as [xi [Heq _]]. inversion Heq; subst.
        unfold callr in Hc; cbn [fst snd] in Hc. unfold rec in Hc.
        rewrite (Hh _ _ _ _ Hc) in Hf. discriminate.
    - (* UTupleV *) destruct Hw as [Hi [T [Hg [Hs Hit]]]]. eapply seq_documented; eauto.
    - (* NTupleV *)
      destruct Hw as [Hf Hg]. apply wf_all_Forall in Hf. unfold ntuple_body.
      destruct (gate E co TTuple TList x) as [e|y] eqn:Hgate; [exact I|]. cbv zeta.
      destruct (Hg _ _ Hgate) as [[b Hb] [xs Hxs]]. rewrite Hb. destruct b; [|exact I]. rewrite Hxs.
      destruct (collect_items 0 _) as [o|[ws [|e errs]]] eqn:Hc; try exact I.
      + apply collect_items_abnormal in Hc. destruct Hc as [Hin _].
        eapply in_calls_documented; [|exact Hin].
        clear - Hf. revert xs. induction Hf as [|f fs Hf0 _ IHf]; intros [|x0 xs]; cbn [combine]; constructor; auto.
      + apply obj_stage_documented.
    - (* MapV *)
      destruct Hw as [Hk [Hv [Hh [T [Hg [Hs Hd]]]]]]. unfold map_body.
      destruct (mode_eqb m Sync && nonempty aps) eqn:Hgd.
      { destruct m; [reflexivity | discriminate]. }
      destruct (gate E co TDict TDict x) as [e|y] eqn:Hgate; [exact I|].
      pose proof (Hg _ _ Hgate) as Hy.
      destruct (pred_stage E _ m ps aps y) as [o|] eqn:Hps; [eapply pred_stage_documented; eauto|].
      destruct (Hd y Hy) as [kvs ->]. rewrite collect_map_ref.
      destruct (map_ref E rec v1 v2 kvs [] []) as [o|[d [|e errs]]] eqn:Hc; try exact I.
      apply map_ref_src in Hc. destruct Hc as [[k ->]|[[v ->]|[_ [k [w [Hkw Hf]]]]]].
      + apply IH; exact Hk.
      + apply IH; exact Hv.
      + exfalso. unfold rec in Hkw. rewrite (Hh _ _ _ _ Hkw) in Hf. discriminate.
    - (* RecordV *)
      apply wf_keys_Forall in Hw. unfold record_body.
      destruct (mode_eqb m Sync && has_some avobj) eqn:Hgd.
      { destruct m; [reflexivity | discriminate]. }
      destruct (negb (isinstance (ckind E) x TDict)); [exact I|].
      destruct (as_dict x) as [data|]; [|exact I].
      destruct (strict && has_unknown_key (map fst keys) data); [exact I|].
      rewrite keys_loop_ref.
      destruct (keys_ref rec _ AbsNothing (record_keys keys) data x) as [o|[ws [|e errs]]] eqn:Hc; try exact I.
      + apply keys_ref_src in Hc. destruct Hc as [k [v [r [xv [Hin ->]]]]]. apply IH.
        unfold record_keys in Hin. apply in_map_iff in Hin. destruct Hin as [kv [Heq Hin]].
        inversion Heq; subst. rewrite Forall_forall in Hw. exact (Hw _ Hin).
      + apply obj_stage_documented.
    - (* DictAnyV *)
      apply wf_keys_Forall in Hw. unfold dictany_body.
      destruct (mode_eqb m Sync && has_some avobj) eqn:Hgd.
      { destruct m; [reflexivity | discriminate]. }
      destruct x; try exact I.
      destruct (strict && has_unknown_key (map fst schema) kvs); [exact I|].
      rewrite keys_loop_ref.
      destruct (keys_ref rec _ AbsOmit (dictany_keys schema) kvs (VDict kvs)) as [o|[ws [|e errs]]] eqn:Hc; try exact I.
      + apply keys_ref_src in Hc. destruct Hc as [k [v [r [xv [Hin ->]]]]]. apply IH.
        unfold dictany_keys in Hin. apply in_map_iff in Hin. destruct Hin as [kv [Heq Hin]].
        inversion Heq; subst. rewrite Forall_forall in Hw. specialize (Hw _ Hin).
        destruct (snd kv); cbn [unwrap_knr]; exact Hw.
      + apply obj_stage_documented.
    - (* ClassV *)
      destruct Hw as [Hs Hg]. apply wf_schema_Forall in Hs. unfold class_body.
      destruct (mode_eqb m Sync && has_some avobj) eqn:Hgd.
      { destruct m; [reflexivity | discriminate]. }
      destruct (class_gate E rk c co x) as [e|y] eqn:Hgate; [exact I|].
      destruct (Hg _ _ Hgate) as [data ->].
      destruct (strict && has_unknown_key (map fst schema) data); [exact I|].
      rewrite keys_loop_ref.
      destruct (keys_ref rec _ AbsOmit schema data y) as [o|[ws [|e errs]]] eqn:Hc; try exact I.
      + apply keys_ref_src in Hc. destruct Hc as [k [v [r [xv [Hin ->]]]]]. apply IH.
        rewrite Forall_forall in Hs. exact (Hs _ Hin).
      + apply obj_stage_documented.
    - (* UnionV *)
      apply wf_all_Forall in Hw. unfold union_body. rewrite collect_union_ref.
      destruct (union_ref rec vs x) as [o|errs] eqn:Hc; [|exact I].
      apply union_ref_src in Hc. destruct Hc as [v [Hin ->]]. apply IH.
      rewrite Forall_forall in Hw. exact (Hw _ Hin).
    - (* OptionalV *)
      destruct Hw as [H1 H2]. unfold union_body. rewrite collect_union_ref.
      destruct (union_ref rec [v1; v2] x) as [o|errs] eqn:Hc; [|exact I].
      apply union_ref_src in Hc. destruct Hc as [v [Hin ->]]. apply IH.
      destruct Hin as [<-|[<-|[]]]; assumption.
    - (* MaybeV *)
      unfold maybe_body. destruct x; try exact I.
      pose proof (IH v x Hw) as Hd. destruct (rec v x); try exact I; exact Hd.
    - (* LazyV *) apply IH. apply Hlazy.
    - (* KeyNotRequired *)
      unfold knr_body. pose proof (IH v x Hw) as Hd. destruct (rec v x); try exact I; exact Hd.
    - (* CacheV *) apply IH. exact Hw.
    - (* UserV *) apply Hw.
  Qed.
End WF.

Theorem run_documented E :
  (forall r, wf E (lazy_env E r)) ->
  forall m fuel v x, wf E v -> documented m (run E m fuel v x).
Proof.
  intros Hl m. induction fuel as [|n IHn]; intros v x Hw; [exact I|].
  cbn [run]. apply step_documented; auto.
Qed.
