(* C07: typehint-derived validators are sound for the annotated type (exact-type reading). *)
From Coq Require Import ZArith List Bool Lia.
From KV Require Import Base.PyVal Base.Prims Model.Validator Model.Sem Model.Derive
     Proofs.Scalar Proofs.Calls Proofs.Collections Proofs.Wrappers.
Import ListNotations.

(* ---------- induction through the nested lists of an annotation ---------- *)
Section AnnInd.
  Variable P : ann -> Prop.
  Hypothesis HScalar : forall k, P (AScalar k).
  Hypothesis HNone : P ANone.
  Hypothesis HAny : P AAny.
  Hypothesis HNL : P ANakedList.
  Hypothesis HNS : P ANakedSet.
  Hypothesis HNT : P ANakedTuple.
  Hypothesis HND : P ANakedDict.
  Hypothesis HList : forall a, P a -> P (AList a).
  Hypothesis HSet : forall a, P a -> P (ASet a).
  Hypothesis HDict : forall k v, P k -> P v -> P (ADict k v).
  Hypothesis HTupleU : forall a, P a -> P (ATupleU a).
  Hypothesis HTupleN : forall l, Forall P l -> P (ATupleN l).
  Hypothesis HUnion : forall l, Forall P l -> P (AUnion l).
  Hypothesis HMaybe : forall a, P a -> P (AMaybe a).
  Hypothesis HLiteral : forall vs, P (ALiteral vs).
  Hypothesis HAnnotated : forall a v, P a -> P (AAnnotated a v).
  Hypothesis HQual : forall a, P a -> P (AQual a).
  Hypothesis HRecord : forall rk c fields, Forall (fun f => P (fst (snd f))) fields -> P (ARecord rk c fields).
  Hypothesis HClass : forall c, P (AClass c).

  Theorem ann_ind' : forall a, P a.
  Proof.
    fix IH 1. intros a. destruct a.
    - apply HScalar. - apply HNone. - apply HAny. - apply HNL. - apply HNS. - apply HNT. - apply HND.
    - apply HList, IH. - apply HSet, IH. - apply HDict; apply IH. - apply HTupleU, IH.
    - apply HTupleN. induction l as [|x xs IHxs]; constructor; [apply IH | exact IHxs].
    - apply HUnion. induction l as [|x xs IHxs]; constructor; [apply IH | exact IHxs].
    - apply HMaybe, IH. - apply HLiteral. - apply HAnnotated, IH. - apply HQual, IH.
    - apply HRecord. induction fields as [|[k [x b]] xs IHxs]; constructor; [apply IH | exact IHxs].
    - apply HClass.
  Qed.
End AnnInd.

(* annotations whose meaning is the annotation's own: no user validator inside *)
Fixpoint plain (a : ann) : bool :=
  match a with
  | AList x | ASet x | ATupleU x | AMaybe x | AQual x => plain x
  | ADict k v => plain k && plain v
  | ATupleN l | AUnion l => forallb plain l
  | AAnnotated x None => plain x
  | AAnnotated _ (Some _) => false
  | ARecord _ _ _ => false            (* record classes: tied by C04's theorems and the differential run *)
  | _ => true
  end.

Definition okind_type (k : okind) : pytype :=
  match k with OkDecimal => TDecimal | OkUuid => TUuid | OkDate => TDate | OkDatetime => TDatetime end.

Definition many_of (f : ann -> pres validator) :=
  fix many (l : list ann) : pres (list validator) :=
    match l with
    | [] => Ok []
    | x :: r => pbind (f x) (fun v => pbind (many r) (fun vs => Ok (v :: vs)))
    end.

Lemma many_of_Forall2 f : forall l vs, many_of f l = Ok vs -> Forall2 (fun a v => f a = Ok v) l vs.
Proof.
  induction l as [|a l IH]; intros vs H; cbn [many_of] in H.
  - injection H as <-. constructor.
  - destruct (f a) as [v|e] eqn:Ea; cbn [pbind] in H; [|discriminate].
    fold (many_of f) in H. destruct (many_of f l) as [vs'|e] eqn:El; cbn [pbind] in H; [|discriminate].
    injection H as <-. constructor; [exact Ea | apply IH; reflexivity].
Qed.

Lemma set_payload_in ws : forall acc w, In w (fold_left set_add ws acc) -> In w acc \/ In w ws.
Proof.
  induction ws as [|x ws IH]; intros acc w H; cbn [fold_left] in H; [left; exact H|].
  apply IH in H. destruct H as [H|H]; [|right; right; exact H].
  unfold set_add in H. destruct (py_in x acc); [left; exact H|].
  apply in_app_or in H. destruct H as [H|[H|[]]]; [left; exact H | right; left; exact H].
Qed.

Lemma dict_set_entries d k v k' v' :
  In (k', v') (dict_set d k v) -> (In k' (map fst d) \/ k' = k) /\ (In v' (map snd d) \/ v' = v).
Proof.
  induction d as [|[k0 v0] d IH]; cbn [dict_set In map fst snd]; intros H.
  - destruct H as [H|[]]. injection H as <- <-. auto.
  - destruct (py_eq k0 k); cbn [In] in H.
    + destruct H as [H|H]; [injection H as <- <-; auto|].
      split; left; right; [apply (in_map fst _ _ H) | apply (in_map snd _ _ H)].
    + destruct H as [H|H]; [injection H as <- <-; auto|].
      apply IH in H. destruct H as [[H1|H1] [H2|H2]]; auto.
Qed.

Lemma map_payload_entries pairs : forall acc k v,
    In (k, v) (fold_left (fun d q => dict_set d (fst q) (snd q)) pairs acc) ->
    (In k (map fst acc) \/ In k (map fst pairs)) /\ (In v (map snd acc) \/ In v (map snd pairs)).
Proof.
  induction pairs as [|q pairs IH]; intros acc k v H; cbn [fold_left] in H.
  - split; left; [apply (in_map fst _ _ H) | apply (in_map snd _ _ H)].
  - apply IH in H. destruct H as [H1 H2]. cbn [map]. split.
    + destruct H1 as [H1|H1]; [|right; right; exact H1].
      apply in_map_iff in H1. destruct H1 as [[k1 v1] [Hk Hin]]. cbn in Hk. subst k1.
      apply dict_set_entries in Hin. destruct Hin as [[Hin|Hin] _]; [left; exact Hin | right; left; symmetry; exact Hin].
    + destruct H2 as [H2|H2]; [|right; right; exact H2].
      apply in_map_iff in H2. destruct H2 as [[k1 v1] [Hv Hin]]. cbn in Hv. subst v1.
      apply dict_set_entries in Hin. destruct Hin as [_ [Hin|Hin]]; [left; exact Hin | right; left; symmetry; exact Hin].
Qed.


Section Literal.
  Variable E : env.

  Lemma literal_sound sig vs vd fuel x w :
    derive sig (ALiteral vs) = Ok vd -> run E Sync fuel vd x = OValid w ->
    has_type (ALiteral vs) w = true /\ w = x.
  Proof.
    intros Hd Hr. destruct fuel as [|n]; [discriminate|]. cbn [run] in Hr. cbn [derive] in Hd.
      destruct vs as [|l0 ls]; [discriminate|].
      destruct (literal_kind (l0 :: ls)) as [k|] eqn:Ek.
      + injection Hd as <-. cbn [step] in Hr. apply scalar_accept in Hr.
        destruct Hr as [_ [y [Hg [Hpr [Hps _]]]]]. cbn [procs_apply] in Hpr. injection Hpr as <-.
        unfold gate in Hg. destruct (exact_type x (ktype k)) eqn:Ex; [|discriminate]. injection Hg as <-.
        inversion Hps as [|? ? Hc _]; subst. cbn [pred_eval] in Hc.
        assert (Hin : py_in x (l0 :: ls) = true).
        { destruct (unsub x);
            repeat match type of Hc with context [if ?b then _ else _] => destruct b end; congruence. }
        split; [|reflexivity]. cbn [has_type]. unfold py_in in Hin. apply existsb_exists in Hin. destruct Hin as [l1 [Hl1 Heq]].
        apply existsb_exists. exists l1. split; [exact Hl1|]. unfold typed_lit. rewrite Heq, andb_true_r.
        (* every member has the kind's type, and so has x *)
        unfold literal_kind in Ek.
        destruct (forallb (fun w0 => pytype_eqb (type_of w0) (type_of l0)) ls) eqn:Eall; [|discriminate].
        assert (Ht : type_of l1 = type_of l0).
        { destruct Hl1 as [<-|Hl1]; [reflexivity|]. rewrite forallb_forall in Eall. apply pytype_eqb_eq. apply Eall; exact Hl1. }
        rewrite Ht. unfold exact_type in Ex.
        destruct (type_of l0); try discriminate; injection Ek as <-; cbn [ktype] in Ex; rewrite pytype_eqb_eq in Ex; rewrite Ex; reflexivity.
      + destruct (all_none (l0 :: ls)) eqn:En.
        * injection Hd as <-. cbn [step] in Hr. unfold none_body in Hr. destruct x; try discriminate. injection Hr as <-.
          split; [|reflexivity]. cbn [has_type]. unfold all_none in En. cbn [forallb] in En. apply andb_prop in En. destruct En as [E0 _].
          destruct l0; try discriminate. reflexivity.
        * injection Hd as <-. cbn [step] in Hr. apply union_accept in Hr.
          destruct Hr as [pre [v0 [post [Hvs [Hv0 _]]]]].
          assert (Hin : In v0 (pre ++ v0 :: post)) by (apply in_or_app; right; left; reflexivity).
          rewrite <- Hvs in Hin. change (In v0 (map (fun v => EqualsV v []) (l0 :: ls))) in Hin. apply in_map_iff in Hin. destruct Hin as [l1 [<- Hl1]].
          destruct n as [|n]; [discriminate|]. cbn [run step] in Hv0. apply equals_accept in Hv0.
          destruct Hv0 as [Hex [Hpr Heq]]. cbn [procs_apply] in Hpr. injection Hpr as <-.
          split; [|reflexivity]. cbn [has_type]. apply existsb_exists. exists l1. split; [exact Hl1|]. unfold typed_lit.
          unfold exact_type in Hex. rewrite pytype_eqb_eq in Hex. rewrite Hex.
          assert (Hr : pytype_eqb (type_of l1) (type_of l1) = true) by (apply pytype_eqb_eq; reflexivity).
          rewrite Hr. cbn [andb]. unfold py_eq_p in Heq. destruct (_ || _); [discriminate|]. injection Heq as ->. reflexivity.
  Qed.
End Literal.

Section Sound.
  Variable E : env.
  (* the stdlib constructors (Decimal(x), UUID(x), fromisoformat(x)) return their own type *)
  Hypothesis oracle_typed : forall k x y, oracle E k x = Some y -> exact_type y (okind_type k) = true.

  Lemma exact_has_type k x :
    match k with KType _ => False | _ => True end ->
    exact_type x (ktype k) = true -> has_type (AScalar k) x = true.
  Proof. destruct k; try contradiction; destruct x; cbn; intros _ H; try discriminate; reflexivity. Qed.

  Lemma scalar_sound sig k self x w :
    match k with KType _ => False | _ => True end ->
    scalar_body E self k (default_co sig k) [] [] [] Sync x = OValid w -> has_type (AScalar k) w = true.
  Proof.
    intros Hk H. apply scalar_accept in H. destruct H as [_ [y [Hg [Hp _]]]].
    cbn [procs_apply] in Hp. injection Hp as <-. apply (exact_has_type k y Hk).
    unfold gate in Hg. destruct (default_co sig k) as [c|] eqn:Ec.
    - destruct (coerce_apply E c x) as [y'|] eqn:Eco; [|discriminate]. injection Hg as <-.
      unfold default_co in Ec. destruct sig; [discriminate|].
      destruct k; try discriminate; injection Ec as <-; cbn [coerce_apply ktype] in *.
      + destruct (exact_type x TDecimal) eqn:Ex; [injection Eco as <-; exact Ex|].
        destruct (_ || _); [|discriminate]. apply (oracle_typed OkDecimal _ _ Eco).
      + destruct (exact_type x TUuid) eqn:Ex; [injection Eco as <-; exact Ex|].
        destruct (exact_type x TStr); [|discriminate]. apply (oracle_typed OkUuid _ _ Eco).
      + destruct (exact_type x TDate) eqn:Ex; [injection Eco as <-; exact Ex|].
        destruct (isinstance _ _ _); [|discriminate]. apply (oracle_typed OkDate _ _ Eco).
      + destruct (exact_type x TDatetime) eqn:Ex; [injection Eco as <-; exact Ex|].
        destruct (isinstance _ _ _); [|discriminate]. apply (oracle_typed OkDatetime _ _ Eco).
    - destruct (exact_type x (ktype k)) eqn:Ex; [|discriminate]. injection Hg as <-. exact Ex.
  Qed.

  (* which annotations the theorem is about: any predicate closed under taking sub-annotations
     that excludes user validators; record nodes are handled by the hypothesis ok_record *)
  Variable ok : ann -> bool.
  Hypothesis ok_children :
    forall a, ok a = true ->
              match a with
              | AList x | ASet x | ATupleU x | AMaybe x | AQual x => ok x = true
              | ADict k v => ok k = true /\ ok v = true
              | ATupleN l | AUnion l => forallb ok l = true
              | AAnnotated _ (Some _) => False
              | _ => True
              end.

  Definition sound_at (a : ann) : Prop :=
    ok a = true -> forall sig v, derive sig a = Ok v ->
    forall fuel x w, run E Sync fuel v x = OValid w -> has_type a w = true.

  Hypothesis ok_record :
    forall rk c fields, Forall (fun f => sound_at (fst (snd f))) fields -> sound_at (ARecord rk c fields).

  Lemma seq_sound exact dest wrap n self item co x out a
        (wrap_inj : forall p q, wrap p = wrap q -> p = q) :
    (forall xi w, run E Sync n item xi = OValid w -> has_type a w = true) ->
    seq_body E exact dest wrap (run E Sync n) self item [] [] co Sync x = OValid out ->
    exists ws, out = wrap ws /\ forallb (has_type a) ws = true.
  Proof.
    intros IH H. apply (seq_accept E exact dest wrap _ _ _ _ _ _ _ _ _ wrap_inj) in H.
    destruct H as [_ [y [xs [ws [_ [_ [_ [HF Hout]]]]]]]]. exists ws. split; [exact Hout|].
    apply forallb_forall. intros w Hw. clear Hout. induction HF as [|xi wi xs ws Hh HF IHF]; [destruct Hw|].
    destruct Hw as [<-|Hw]; [apply (IH xi _ Hh) | apply IHF; exact Hw].
  Qed.

  Lemma VSet_inj a b : VSet a = VSet b -> a = b. Proof. congruence. Qed.

  Theorem derive_sound : forall a, sound_at a.
  Proof.
    induction a using ann_ind'; unfold sound_at in *; intros Hp sig vd Hd fuel x w Hr;
      (destruct fuel as [|n]; [discriminate|]); cbn [run] in Hr; cbn [derive] in Hd.
    - (* AScalar *)
      destruct k; try discriminate; injection Hd as <-; cbn [step] in Hr;
        (eapply scalar_sound; [|exact Hr]; exact I).
    - (* ANone *) injection Hd as <-. cbn [step] in Hr. unfold none_body in Hr.
      destruct x; try discriminate. injection Hr as <-. reflexivity.
    - (* AAny *) reflexivity.
    - (* ANakedList *) injection Hd as <-. cbn [step] in Hr.
      apply (seq_sound TList TList VList n _ _ _ _ _ AAny VList_inj') in Hr; [|reflexivity].
      destruct Hr as [ws [-> _]]. reflexivity.
    - (* ANakedSet *) injection Hd as <-. cbn [step] in Hr. apply set_accept in Hr.
      destruct Hr as [_ [y [xs [ws [_ [_ [_ [_ [_ ->]]]]]]]]]. reflexivity.
    - (* ANakedTuple *) injection Hd as <-. cbn [step] in Hr.
      apply (seq_sound TTuple TList VTuple n _ _ _ _ _ AAny VTuple_inj') in Hr; [|reflexivity].
      destruct Hr as [ws [-> _]]. reflexivity.
    - (* ANakedDict *) injection Hd as <-. cbn [step] in Hr. apply map_accept in Hr.
      destruct Hr as [_ [y [kvs [pairs [_ [_ [_ [_ [_ ->]]]]]]]]]. reflexivity.
    - (* AList *) apply ok_children in Hp. destruct (derive sig a) as [v'|e] eqn:Ea; cbn [pbind] in Hd; [|discriminate].
      injection Hd as <-. cbn [step] in Hr.
      apply (seq_sound TList TList VList n _ _ _ _ _ a VList_inj') in Hr;
        [|intros xi wi Hi; apply (IHa Hp sig v' Ea n xi wi Hi)].
      destruct Hr as [ws [-> Hws]]. exact Hws.
    - (* ASet *) apply ok_children in Hp. destruct (derive sig a) as [v'|e] eqn:Ea; cbn [pbind] in Hd; [|discriminate].
      injection Hd as <-. cbn [step] in Hr. apply set_accept in Hr.
      destruct Hr as [_ [y [xs [ws [_ [_ [_ [HF [_ ->]]]]]]]]]. cbn [has_type].
      apply forallb_forall. intros w0 Hw0. apply set_payload_in in Hw0. destruct Hw0 as [[]|Hw0].
      clear - HF Hw0 IHa Hp Ea. induction HF as [|xi wi xs ws Hh HF IHF]; [destruct Hw0|].
      destruct Hw0 as [<-|Hw0]; [apply (IHa Hp sig v' Ea n xi _ Hh) | apply IHF; exact Hw0].
    - (* ADict *) apply ok_children in Hp. destruct Hp as [Hpk Hpv].
      destruct (derive sig a1) as [kv|e] eqn:Ek; cbn [pbind] in Hd; [|discriminate].
      destruct (derive sig a2) as [vv|e] eqn:Ev; cbn [pbind] in Hd; [|discriminate].
      injection Hd as <-. cbn [step] in Hr. apply map_accept in Hr.
      destruct Hr as [_ [y [kvs [pairs [_ [_ [_ [HF [_ ->]]]]]]]]]. cbn [has_type].
      assert (Hks : forall k, In k (map fst pairs) -> has_type a1 k = true).
      { clear - HF IHa1 Hpk Ek. induction HF as [|p q ps qs [Hh _] HF IHF]; intros k Hin; [destruct Hin|].
        destruct Hin as [<-|Hin]; [apply (IHa1 Hpk sig kv Ek n _ _ Hh) | apply IHF; exact Hin]. }
      assert (Hvs : forall k, In k (map snd pairs) -> has_type a2 k = true).
      { clear - HF IHa2 Hpv Ev. induction HF as [|p q ps qs [_ Hh] HF IHF]; intros k Hin; [destruct Hin|].
        destruct Hin as [<-|Hin]; [apply (IHa2 Hpv sig vv Ev n _ _ Hh) | apply IHF; exact Hin]. }
      apply forallb_forall. intros [k0 v0] Hin. cbn [fst snd].
      apply map_payload_entries in Hin. destruct Hin as [[[]|H1] [[]|H2]].
      rewrite (Hks _ H1), (Hvs _ H2). reflexivity.
    - (* ATupleU *) apply ok_children in Hp. destruct (derive sig a) as [v'|e] eqn:Ea; cbn [pbind] in Hd; [|discriminate].
      injection Hd as <-. cbn [step] in Hr.
      apply (seq_sound TTuple TList VTuple n _ _ _ _ _ a VTuple_inj') in Hr;
        [|intros xi wi Hi; apply (IHa Hp sig v' Ea n xi wi Hi)].
      destruct Hr as [ws [-> Hws]]. exact Hws.
    - (* ATupleN *)
      change (pbind (many_of (derive sig) l) (fun vs => Ok (NTupleV vs None (tuple_co sig))) = Ok vd) in Hd.
      destruct (many_of (derive sig) l) as [vs|e] eqn:El; cbn [pbind] in Hd; [|discriminate].
      injection Hd as <-. cbn [step] in Hr. apply ntuple_accept in Hr.
      destruct Hr as [y [xs [ws [Hg [Hlen [Hit [HF Hobj]]]]]]].
      unfold obj_stage in Hobj. injection Hobj as <-. cbn [has_type].
      apply many_of_Forall2 in El. apply ok_children in Hp.
      (* arity: the coerced value has exactly one item per field *)
      assert (Hxs : length xs = length vs).
      { cbn [pred_eval] in Hlen. unfold py_len, py_iter in *. destruct (unsub y); try discriminate;
          cbn [pbind] in Hlen; injection Hit as <-; injection Hlen as Hlen; apply Z.eqb_eq in Hlen;
            unfold zlen in Hlen; try lia.
        all: rewrite map_length; lia. }
      clear Hg Hlen Hit. revert xs ws HF Hxs H Hp.
      induction El as [|a v0 l vs0 Ha El' IHl]; intros xs ws HF Hxs HI Hp.
      + destruct xs; [|discriminate]. inversion HF; subst. reflexivity.
      + destruct xs as [|x0 xs]; [discriminate|]. cbn [combine] in HF. inversion HF as [|? w0 ? ws0 Hh HF']; subst.
        cbn [forallb] in Hp. apply andb_prop in Hp. destruct Hp as [Hpa Hpl].
        inversion HI as [|? ? HIa HIl]; subst. unfold callr in Hh. cbn [fst snd] in Hh.
        rewrite (HIa Hpa sig v0 Ha n x0 w0 Hh). cbn [andb].
        apply (IHl xs ws0 HF' ltac:(cbn in Hxs; lia) HIl Hpl).
    - (* AUnion *)
      destruct l as [|a0 l0]; [discriminate|].
      change (pbind (many_of (derive sig) (a0 :: l0)) (fun vs => Ok (UnionV vs)) = Ok vd) in Hd.
      destruct (many_of (derive sig) (a0 :: l0)) as [vs|e] eqn:El; cbn [pbind] in Hd; [|discriminate].
      injection Hd as <-. cbn [step] in Hr. apply union_accept in Hr.
      destruct Hr as [pre [v0 [post [Hvs [Hv0 _]]]]].
      apply many_of_Forall2 in El. apply ok_children in Hp. cbn [has_type] in *.
      assert (Hin : In v0 vs) by (rewrite Hvs; apply in_or_app; right; left; reflexivity).
      clear Hvs. revert Hin Hp H. generalize dependent (a0 :: l0). intros l El.
      induction El as [|a v1 l vs1 Ha El' IHl]; intros Hin Hp HI; [destruct Hin|].
      cbn [forallb existsb] in *. apply andb_prop in Hp. destruct Hp as [Hpa Hpl].
      inversion HI as [|? ? HIa HIl]; subst.
      destruct Hin as [<-|Hin].
      + rewrite (HIa Hpa sig v1 Ha n x w Hv0). reflexivity.
      + rewrite (IHl Hin Hpl HIl). apply orb_true_r.
    - (* AMaybe *) apply ok_children in Hp. destruct (derive sig a) as [v'|e] eqn:Ea; cbn [pbind] in Hd; [|discriminate].
      injection Hd as <-. cbn [step] in Hr. rewrite maybe_spec in Hr.
      destruct x; try discriminate.
      + destruct (run E Sync n v' x) as [w'| | | |] eqn:Ei; try discriminate. injection Hr as <-.
        cbn [has_type]. apply (IHa Hp sig v' Ea n x w' Ei).
      + injection Hr as <-. reflexivity.
    - (* ALiteral *) apply (literal_sound E sig vs vd (S n) x w Hd Hr).
    - (* AAnnotated *) destruct v as [v0|]; [apply ok_children in Hp; destruct Hp | discriminate].
    - (* AQual *) apply ok_children in Hp. cbn [has_type]. apply (IHa Hp sig vd Hd (S n) x w). cbn [run]. exact Hr.
    - (* ARecord *) apply (ok_record rk c fields H Hp sig vd Hd (S n) x w). cbn [run]. exact Hr.
    - (* AClass *) injection Hd as <-. cbn [step] in Hr. apply scalar_accept in Hr.
      destruct Hr as [_ [y [Hg [Hpr _]]]]. cbn [procs_apply] in Hpr. injection Hpr as <-.
      unfold gate in Hg. cbn [ktype] in Hg. destruct (exact_type x (TClass c)) eqn:Ex; [|discriminate].
      injection Hg as <-. exact Ex.
  Qed.
End Sound.

Lemma plain_children a : plain a = true ->
  match a with
  | AList x | ASet x | ATupleU x | AMaybe x | AQual x => plain x = true
  | ADict k v => plain k = true /\ plain v = true
  | ATupleN l | AUnion l => forallb plain l = true
  | AAnnotated _ (Some _) => False
  | _ => True
  end.
Proof.
  destruct a; cbn [plain]; intros H; auto.
  - apply andb_prop in H. exact H.
  - destruct v; [discriminate | exact I].
Qed.

(* record-free annotations *)
Theorem derive_sound_plain (E : env) :
  (forall k x y, oracle E k x = Some y -> exact_type y (okind_type k) = true) ->
  forall a, plain a = true -> forall sig v, derive sig a = Ok v ->
  forall fuel x w, run E Sync fuel v x = OValid w -> has_type a w = true.
Proof.
  intros Ho. apply (derive_sound E Ho plain plain_children).
  intros rk c fields _ Hp. discriminate.
Qed.

(* ---------- signature mode: nothing is coerced ---------- *)

(* containers as Python builds them: no two equal set members / dict keys *)
Fixpoint distinct_from (acc xs : list pyval) : bool :=
  match xs with
  | [] => true
  | x :: r => negb (py_in x acc) && distinct_from (acc ++ [x]) r
  end.

Fixpoint keys_distinct_from (acc : list (pyval * pyval)) (kvs : list (pyval * pyval)) : bool :=
  match kvs with
  | [] => true
  | (k, v) :: r => negb (dict_has acc k) && keys_distinct_from (acc ++ [(k, v)]) r
  end.

Fixpoint proper (x : pyval) : bool :=
  match x with
  | VList xs | VTuple xs => forallb proper xs
  | VSet xs => forallb proper xs && distinct_from [] xs
  | VDict kvs => forallb (fun kv => proper (fst kv) && proper (snd kv)) kvs && keys_distinct_from [] kvs
  | VJust y => proper y
  | VObj _ fs => forallb (fun kv => proper (snd kv)) fs
  | _ => true
  end.

Lemma set_payload_distinct xs : forall acc, distinct_from acc xs = true -> fold_left set_add xs acc = acc ++ xs.
Proof.
  induction xs as [|x xs IH]; intros acc H; cbn [fold_left distinct_from] in *; [rewrite app_nil_r; reflexivity|].
  apply andb_prop in H. destruct H as [H1 H2]. apply negb_true_iff in H1.
  unfold set_add at 2. rewrite H1. rewrite IH by exact H2. rewrite <- app_assoc. reflexivity.
Qed.

Lemma dict_set_fresh d k v : dict_has d k = false -> dict_set d k v = d ++ [(k, v)].
Proof.
  unfold dict_has. induction d as [|[k0 v0] d IH]; cbn [dict_set dict_get app]; intros H; [reflexivity|].
  destruct (py_eq k0 k); [discriminate|]. rewrite IH by exact H. reflexivity.
Qed.

Lemma map_payload_distinct kvs : forall acc,
    keys_distinct_from acc kvs = true ->
    fold_left (fun d q => dict_set d (fst q) (snd q)) kvs acc = acc ++ kvs.
Proof.
  induction kvs as [|[k v] kvs IH]; intros acc H; cbn [fold_left keys_distinct_from fst snd] in *; [rewrite app_nil_r; reflexivity|].
  apply andb_prop in H. destruct H as [H1 H2]. apply negb_true_iff in H1.
  rewrite dict_set_fresh by exact H1. rewrite IH by exact H2. rewrite <- app_assoc. reflexivity.
Qed.

Section Strict.
  Variable E : env.

  Definition strict_at (a : ann) : Prop :=
    plain a = true -> forall v, derive true a = Ok v ->
    forall fuel x w, run E Sync fuel v x = OValid w ->
                     has_type a x = true /\ (proper x = true -> w = x).

  Lemma exact_list x : exact_type x TList = true -> exists xs, x = VList xs.
  Proof. destruct x; cbn; try discriminate; eauto. Qed.
  Lemma exact_tuple x : exact_type x TTuple = true -> exists xs, x = VTuple xs.
  Proof. destruct x; cbn; try discriminate; eauto. Qed.
  Lemma exact_set x : exact_type x TSet = true -> exists xs, x = VSet xs.
  Proof. destruct x; cbn; try discriminate; eauto. Qed.
  Lemma exact_dict x : exact_type x TDict = true -> exists xs, x = VDict xs.
  Proof. destruct x; cbn; try discriminate; eauto. Qed.

  (* children: typed inputs and identical payloads *)
  Lemma children_strict n item a xs ws :
    (forall xi w, run E Sync n item xi = OValid w -> has_type a xi = true /\ (proper xi = true -> w = xi)) ->
    Forall2 (fun xi w => run E Sync n item xi = OValid w) xs ws ->
    forallb (has_type a) xs = true /\ (forallb proper xs = true -> ws = xs).
  Proof.
    intros IH HF. induction HF as [|xi wi xs ws Hh HF [I1 I2]]; [split; reflexivity|].
    destruct (IH xi wi Hh) as [H1 H2]. cbn [forallb]. rewrite H1, I1. split; [reflexivity|].
    intros Hp. apply andb_prop in Hp. destruct Hp as [P1 P2]. rewrite (H2 P1), (I2 P2). reflexivity.
  Qed.

  Lemma always_valid_children n xs ws :
    Forall2 (fun xi w => run E Sync n AlwaysValid xi = OValid w) xs ws -> ws = xs.
  Proof.
    intros HF. induction HF as [|xi wi xs ws Hh HF IH]; [reflexivity|].
    destruct n; [discriminate|]. cbn in Hh. injection Hh as <-. rewrite IH. reflexivity.
  Qed.

  Lemma seq_none exact dest wrap n self item x out (wrap_inj : forall p q, wrap p = wrap q -> p = q) :
    seq_body E exact dest wrap (run E Sync n) self item [] [] None Sync x = OValid out ->
    exact_type x exact = true /\
    exists xs ws, py_iter x = Ok xs /\ Forall2 (fun xi w => run E Sync n item xi = OValid w) xs ws /\ out = wrap ws.
  Proof.
    intros H. apply (seq_accept E exact dest wrap _ _ _ _ _ _ _ _ _ wrap_inj) in H.
    destruct H as [_ [y [xs [ws [Hg [_ [Hit [HF Hout]]]]]]]]. unfold gate in Hg.
    destruct (exact_type x exact) eqn:Ex; [|discriminate]. injection Hg as <-.
    split; [reflexivity|]. exists xs, ws. auto.
  Qed.

  Theorem derive_strict : forall a, strict_at a.
  Proof.
    induction a using ann_ind'; unfold strict_at in *; intros Hp vd Hd fuel x w Hr;
      (destruct fuel as [|n]; [discriminate|]); cbn [run] in Hr; cbn [derive] in Hd.
    - (* AScalar *)
      destruct k; try discriminate; injection Hd as <-; cbn [step] in Hr; apply scalar_accept in Hr;
        destruct Hr as [_ [y [Hg [Hpr _]]]]; cbn [procs_apply] in Hpr; injection Hpr as <-;
          unfold gate, default_co in Hg; cbn [ktype] in Hg;
            match type of Hg with (if ?b then _ else _) = _ => destruct b eqn:Ex; [|discriminate] end;
            injection Hg as <-; (split; [|reflexivity]); destruct x; cbn in Ex; try discriminate; reflexivity.
    - (* ANone *) injection Hd as <-. cbn [step] in Hr. unfold none_body in Hr.
      destruct x; try discriminate. injection Hr as <-. split; reflexivity.
    - (* AAny *) injection Hd as <-. cbn [step] in Hr. injection Hr as <-. split; reflexivity.
    - (* ANakedList *) injection Hd as <-. cbn [step] in Hr.
      apply (seq_none TList TList VList n _ _ _ _ VList_inj') in Hr. destruct Hr as [Ex [xs [ws [Hit [HF ->]]]]].
      destruct (exact_list x Ex) as [xs' ->]. cbn in Hit. injection Hit as <-.
      rewrite (always_valid_children n _ _ HF). split; reflexivity.
    - (* ANakedSet *) injection Hd as <-. cbn [step] in Hr. apply set_accept in Hr.
      destruct Hr as [_ [y [xs [ws [Hg [_ [Hit [HF [_ ->]]]]]]]]]. unfold gate in Hg.
      destruct (exact_type x TSet) eqn:Ex; [|discriminate]. injection Hg as <-.
      destruct (exact_set x Ex) as [xs' ->]. cbn in Hit. injection Hit as <-.
      rewrite (always_valid_children n _ _ HF). split; [reflexivity|].
      cbn [proper]. intros Hp'. apply andb_prop in Hp'. destruct Hp' as [_ Hd].
      unfold set_payload. rewrite set_payload_distinct by exact Hd. reflexivity.
    - (* ANakedTuple *) injection Hd as <-. cbn [step tuple_co] in Hr.
      apply (seq_none TTuple TList VTuple n _ _ _ _ VTuple_inj') in Hr. destruct Hr as [Ex [xs [ws [Hit [HF ->]]]]].
      destruct (exact_tuple x Ex) as [xs' ->]. cbn in Hit. injection Hit as <-.
      rewrite (always_valid_children n _ _ HF). split; reflexivity.
    - (* ANakedDict *) injection Hd as <-. cbn [step] in Hr. apply map_accept in Hr.
      destruct Hr as [_ [y [kvs [pairs [Hg [_ [Hd [HF [_ ->]]]]]]]]]. unfold gate in Hg.
      destruct (exact_type x TDict) eqn:Ex; [|discriminate]. injection Hg as <-.
      destruct (exact_dict x Ex) as [kvs' ->]. cbn in Hd. injection Hd as <-.
      assert (Hpairs : pairs = kvs').
      { clear - HF. induction HF as [|p q ps qs [H1 H2] HF IH]; [reflexivity|].
        destruct n; [discriminate|]. cbn in H1, H2. destruct p, q. cbn [fst snd] in *.
        injection H1 as <-. injection H2 as <-. rewrite IH. reflexivity. }
      subst pairs. split; [reflexivity|]. cbn [proper]. intros Hp'. apply andb_prop in Hp'. destruct Hp' as [_ Hd].
      unfold map_payload. rewrite map_payload_distinct by exact Hd. reflexivity.
    - (* AList *) cbn [plain] in Hp. destruct (derive true a) as [v'|e] eqn:Ea; cbn [pbind] in Hd; [|discriminate].
      injection Hd as <-. cbn [step] in Hr.
      apply (seq_none TList TList VList n _ _ _ _ VList_inj') in Hr. destruct Hr as [Ex [xs [ws [Hit [HF ->]]]]].
      destruct (exact_list x Ex) as [xs' ->]. cbn in Hit. injection Hit as <-.
      destruct (children_strict n v' a xs' ws (fun xi wi Hi => IHa Hp v' eq_refl n xi wi Hi) HF) as [H1 H2].
      split; [exact H1|]. cbn [proper]. intros Hp'. rewrite (H2 Hp'). reflexivity.
    - (* ASet *) cbn [plain] in Hp. destruct (derive true a) as [v'|e] eqn:Ea; cbn [pbind] in Hd; [|discriminate].
      injection Hd as <-. cbn [step] in Hr. apply set_accept in Hr.
      destruct Hr as [_ [y [xs [ws [Hg [_ [Hit [HF [_ ->]]]]]]]]]. unfold gate in Hg.
      destruct (exact_type x TSet) eqn:Ex; [|discriminate]. injection Hg as <-.
      destruct (exact_set x Ex) as [xs' ->]. cbn in Hit. injection Hit as <-.
      destruct (children_strict n v' a xs' ws (fun xi wi Hi => IHa Hp v' eq_refl n xi wi Hi) HF) as [H1 H2].
      split; [exact H1|]. cbn [proper]. intros Hp'. apply andb_prop in Hp'. destruct Hp' as [Hp1 Hd].
      rewrite (H2 Hp1). unfold set_payload. rewrite set_payload_distinct by exact Hd. reflexivity.
    - (* ADict *) cbn [plain] in Hp. apply andb_prop in Hp. destruct Hp as [Hpk Hpv].
      destruct (derive true a1) as [kv|e] eqn:Ek; cbn [pbind] in Hd; [|discriminate].
      destruct (derive true a2) as [vv|e] eqn:Ev; cbn [pbind] in Hd; [|discriminate].
      injection Hd as <-. cbn [step] in Hr. apply map_accept in Hr.
      destruct Hr as [_ [y [kvs [pairs [Hg [_ [Hdd [HF [_ ->]]]]]]]]]. unfold gate in Hg.
      destruct (exact_type x TDict) eqn:Ex; [|discriminate]. injection Hg as <-.
      destruct (exact_dict x Ex) as [kvs' ->]. cbn in Hdd. injection Hdd as <-.
      assert (Hall : forallb (fun kv => has_type a1 (fst kv) && has_type a2 (snd kv)) kvs' = true /\
                     (forallb (fun kv => proper (fst kv) && proper (snd kv)) kvs' = true -> pairs = kvs')).
      { clear - HF IHa1 IHa2 Hpk Hpv. induction HF as [|p q ps qs [H1 H2] HF [I1 I2]]; [split; reflexivity|].
        destruct (IHa1 Hpk kv eq_refl n _ _ H1) as [T1 P1]. destruct (IHa2 Hpv vv eq_refl n _ _ H2) as [T2 P2].
        cbn [forallb]. rewrite T1, T2, I1. split; [reflexivity|]. intros Hp. apply andb_prop in Hp. destruct Hp as [Hp Hps].
        apply andb_prop in Hp. destruct Hp as [Q1 Q2]. destruct p, q. cbn [fst snd] in *.
        rewrite (P1 Q1), (P2 Q2), (I2 Hps). reflexivity. }
      destruct Hall as [H1 H2]. split; [exact H1|]. cbn [proper]. intros Hp'. apply andb_prop in Hp'. destruct Hp' as [Hp1 Hd].
      rewrite (H2 Hp1). unfold map_payload. rewrite map_payload_distinct by exact Hd. reflexivity.
    - (* ATupleU *) cbn [plain] in Hp. destruct (derive true a) as [v'|e] eqn:Ea; cbn [pbind] in Hd; [|discriminate].
      injection Hd as <-. cbn [step tuple_co] in Hr.
      apply (seq_none TTuple TList VTuple n _ _ _ _ VTuple_inj') in Hr. destruct Hr as [Ex [xs [ws [Hit [HF ->]]]]].
      destruct (exact_tuple x Ex) as [xs' ->]. cbn in Hit. injection Hit as <-.
      destruct (children_strict n v' a xs' ws (fun xi wi Hi => IHa Hp v' eq_refl n xi wi Hi) HF) as [H1 H2].
      split; [exact H1|]. cbn [proper]. intros Hp'. rewrite (H2 Hp'). reflexivity.
    - (* ATupleN *)
      change (pbind (many_of (derive true) l) (fun vs => Ok (NTupleV vs None (tuple_co true))) = Ok vd) in Hd.
      destruct (many_of (derive true) l) as [vs|e] eqn:El; cbn [pbind] in Hd; [|discriminate].
      injection Hd as <-. cbn [step tuple_co] in Hr. apply ntuple_accept in Hr.
      destruct Hr as [y [xs [ws [Hg [Hlen [Hit [HF Hobj]]]]]]].
      unfold obj_stage in Hobj. injection Hobj as <-. unfold gate in Hg.
      destruct (exact_type x TTuple) eqn:Ex; [|discriminate]. injection Hg as <-.
      destruct (exact_tuple x Ex) as [xs' ->]. cbn in Hit. injection Hit as <-.
      apply many_of_Forall2 in El. cbn [plain has_type proper] in *.
      assert (Hxs : length xs' = length vs).
      { cbn in Hlen. injection Hlen as Hlen. apply Z.eqb_eq in Hlen. unfold zlen in Hlen. lia. }
      clear Hlen Ex.
      enough (Hgo : (fix go (l : list ann) (xs : list pyval) : bool :=
                       match l, xs with
                       | [], [] => true
                       | a1 :: lr, x1 :: xr => has_type a1 x1 && go lr xr
                       | _, _ => false
                       end) l xs' = true /\ (forallb proper xs' = true -> ws = xs')).
      { destruct Hgo as [G1 G2]. split; [exact G1|]. intros Hp'. rewrite (G2 Hp'). reflexivity. }
      revert xs' ws HF Hxs H Hp.
      induction El as [|a v0 l vs0 Ha El' IHl]; intros xs ws HF Hxs HI Hp.
      + destruct xs; [|discriminate]. inversion HF; subst. split; reflexivity.
      + destruct xs as [|x0 xs]; [discriminate|]. cbn [combine] in HF. inversion HF as [|? w0 ? ws0 Hh HF']; subst.
        cbn [forallb] in Hp. apply andb_prop in Hp. destruct Hp as [Hpa Hpl].
        inversion HI as [|? ? HIa HIl]; subst. unfold callr in Hh. cbn [fst snd] in Hh.
        destruct (HIa Hpa v0 Ha n x0 w0 Hh) as [T1 P1].
        destruct (IHl xs ws0 HF' ltac:(cbn in Hxs; lia) HIl Hpl) as [T2 P2].
        rewrite T1, T2. split; [reflexivity|]. cbn [forallb]. intros Hq. apply andb_prop in Hq. destruct Hq as [Q1 Q2].
        rewrite (P1 Q1), (P2 Q2). reflexivity.
    - (* AUnion *)
      destruct l as [|a0 l0]; [discriminate|].
      change (pbind (many_of (derive true) (a0 :: l0)) (fun vs => Ok (UnionV vs)) = Ok vd) in Hd.
      destruct (many_of (derive true) (a0 :: l0)) as [vs|e] eqn:El; cbn [pbind] in Hd; [|discriminate].
      injection Hd as <-. cbn [step] in Hr. apply union_accept in Hr.
      destruct Hr as [pre [v0 [post [Hvs [Hv0 _]]]]].
      apply many_of_Forall2 in El. cbn [has_type plain] in *.
      assert (Hin : In v0 vs) by (rewrite Hvs; apply in_or_app; right; left; reflexivity).
      clear Hvs. revert Hin Hp H. generalize dependent (a0 :: l0). intros l El.
      induction El as [|a v1 l vs1 Ha El' IHl]; intros Hin Hp HI; [destruct Hin|].
      cbn [forallb existsb] in *. apply andb_prop in Hp. destruct Hp as [Hpa Hpl].
      inversion HI as [|? ? HIa HIl]; subst.
      destruct Hin as [<-|Hin].
      + destruct (HIa Hpa v1 Ha n x w Hv0) as [T P]. rewrite T. split; [reflexivity | exact P].
      + destruct (IHl Hin Hpl HIl) as [T P]. rewrite T, orb_true_r. split; [reflexivity | exact P].
    - (* AMaybe *) cbn [plain] in Hp. destruct (derive true a) as [v'|e] eqn:Ea; cbn [pbind] in Hd; [|discriminate].
      injection Hd as <-. cbn [step] in Hr. rewrite maybe_spec in Hr.
      destruct x; try discriminate.
      + destruct (run E Sync n v' x) as [w'| | | |] eqn:Ei; try discriminate. injection Hr as <-.
        destruct (IHa Hp v' eq_refl n x w' Ei) as [T P]. cbn [has_type proper]. split; [exact T|].
        intros Hq. rewrite (P Hq). reflexivity.
      + injection Hr as <-. split; reflexivity.
    - (* ALiteral *)
      destruct (literal_sound E true vs vd (S n) x w Hd Hr) as [T ->]. split; [exact T | reflexivity].
    - (* AAnnotated *) destruct v as [v0|]; discriminate.
    - (* AQual *) cbn [plain] in Hp. cbn [has_type]. apply (IHa Hp vd Hd (S n) x w). cbn [run]. exact Hr.
    - (* ARecord *) discriminate.
    - (* AClass *) injection Hd as <-. cbn [step] in Hr. apply scalar_accept in Hr.
      destruct Hr as [_ [y [Hg [Hpr _]]]]. cbn [procs_apply] in Hpr. injection Hpr as <-.
      unfold gate in Hg. cbn [ktype] in Hg. destruct (exact_type x (TClass c)) eqn:Ex; [|discriminate].
      injection Hg as <-. split; [exact Ex | reflexivity].
  Qed.
End Strict.

(* ---------- records: shape of the derived validator ---------- *)

Definition fields_of_def (f : ann -> pres validator) :=
  fix fields_of (l : list (pyval * (ann * bool))) : pres (list (pyval * (validator * bool))) :=
    match l with
    | [] => Ok []
    | (k, (x, req)) :: r =>
        pbind (f x) (fun v => pbind (fields_of r) (fun vs => Ok ((k, (v, req)) :: vs)))
    end.

Lemma fields_of_shape f : forall l fs,
    fields_of_def f l = Ok fs ->
    map fst fs = map fst l /\ map (fun e => snd (snd e)) fs = map (fun e => snd (snd e)) l /\
    Forall2 (fun e s => f (fst (snd e)) = Ok (fst (snd s))) l fs.
Proof.
  induction l as [|[k [x req]] l IH]; intros fs H; cbn [fields_of_def] in H.
  - injection H as <-. repeat split; constructor.
  - destruct (f x) as [v|e] eqn:Ex; cbn [pbind] in H; [|discriminate].
    fold (fields_of_def f) in H. destruct (fields_of_def f l) as [fs'|e] eqn:El; cbn [pbind] in H; [|discriminate].
    injection H as <-. destruct (IH fs' eq_refl) as [A [B C]]. cbn [map fst snd]. rewrite A, B.
    repeat split. constructor; [exact Ex | exact C].
Qed.

(* the derived record validator: the class's own fields in order, each field's validator derived
   from its annotation, requiredness copied from the class, unknown keys allowed, and - in
   signature mode - a coercer that only admits instances of the class *)
Theorem derive_record sig rk c fields v :
  derive sig (ARecord rk c fields) = Ok v ->
  exists schema, v = ClassV rk c schema None None false (record_co sig rk c) /\
                 map fst schema = map fst fields /\
                 map (fun e => snd (snd e)) schema = map (fun e => snd (snd e)) fields /\
                 Forall2 (fun e s => derive sig (fst (snd e)) = Ok (fst (snd s))) fields schema.
Proof.
  intros H. change (pbind (fields_of_def (derive sig) fields)
                          (fun fs => Ok (ClassV rk c fs None None false (record_co sig rk c))) = Ok v) in H.
  destruct (fields_of_def (derive sig) fields) as [fs|e] eqn:Ef; cbn [pbind] in H; [|discriminate].
  injection H as <-. exists fs. split; [reflexivity|]. apply fields_of_shape. exact Ef.
Qed.
