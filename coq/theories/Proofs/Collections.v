(* Proofs about the collection validators (C03). *)
From Coq Require Import ZArith List Bool Lia.
From KV Require Import Base.PyVal Base.Prims Model.Validator Model.Sem Proofs.Scalar Proofs.Calls.
Import ListNotations.
Open Scope nat_scope.

Section Collections.
  Variable E : env.

  Lemma pred_stage_none self m ps aps y :
    pred_stage E self m ps aps y = None <-> all_failing E m ps aps y = Ok [].
  Proof.
    unfold pred_stage. destruct (all_failing E m ps aps y) as [[|f fs]|e]; split; intros H;
      try discriminate; reflexivity.
  Qed.

  (* ---------- list / uniform tuple ---------- *)

  Theorem seq_accept exact dest wrap rec self item ps aps co m x out
          (wrap_inj : forall a b, wrap a = wrap b -> a = b) :
    seq_body E exact dest wrap rec self item ps aps co m x = OValid out <->
    (m = Sync -> aps = []) /\
    exists y xs ws,
      gate E co exact dest x = inr y /\
      all_failing E m ps aps y = Ok [] /\
      py_iter y = Ok xs /\
      Forall2 (fun xi w => rec item xi = OValid w) xs ws /\
      out = wrap ws.
  Proof.
    unfold seq_body. split.
    - destruct (mode_eqb m Sync && nonempty aps) eqn:Hg; [discriminate|].
      destruct (gate E co exact dest x) as [e|y] eqn:Hgate; [discriminate|].
      destruct (pred_stage E self m ps aps y) as [o|] eqn:Hps.
      { unfold pred_stage in Hps. destruct (all_failing E m ps aps y) as [[|? ?]|?]; inversion Hps; subst; discriminate. }
      apply pred_stage_none in Hps.
      destruct (py_iter y) as [xs|e] eqn:Hit; [|discriminate].
      destruct (collect_items 0 _) as [o|[ws errs]] eqn:Hc.
      { intros ->. apply collect_items_abnormal in Hc. destruct Hc as [_ Hc]; discriminate. }
      destruct errs; [|discriminate]. intros H; inversion H; subst; clear H.
      apply collect_items_ok in Hc. destruct Hc as [Hn [Hws Herrs]].
      split.
      { intros ->. cbn in Hg. apply nonempty_false; exact Hg. }
      exists y, xs, ws. repeat split; auto.
      pose proof (run_calls_prefix _ _ Hn) as Hn'.
      rewrite (run_calls_normal _ _ Hn'), map_callr_item in Hn, Hws, Herrs.
      symmetry in Herrs. pose proof (index_errs_nil _ _ Hn Herrs) as Hall.
      rewrite <- Hws in Hall. apply map_OValid_Forall2 in Hall. exact Hall.
    - intros [Hs [y [xs [ws [Hgate [Hps [Hit [Hall ->]]]]]]]].
      assert (Hg : mode_eqb m Sync && nonempty aps = false).
      { destruct m; cbn; [|reflexivity]. rewrite (Hs eq_refl); reflexivity. }
      rewrite Hg, Hgate. apply (proj2 (pred_stage_none self m ps aps y)) in Hps. rewrite Hps, Hit.
      apply map_OValid_Forall2 in Hall.
      assert (Hn : Forall (fun c => normal (callr rec c) = true) (map (fun xi => (item, xi)) xs)).
      { apply (Forall_callr_item (fun o => normal o = true)). rewrite Forall_forall. intros xi Hin.
        apply (in_map (rec item)) in Hin. rewrite Hall in Hin. apply in_map_iff in Hin.
        destruct Hin as [w [<- _]]. reflexivity. }
      rewrite (run_calls_normal _ _ Hn), map_callr_item, Hall.
      rewrite collect_items_normal.
      + rewrite valid_payloads_map, index_errs_map_valid. reflexivity.
      + rewrite Forall_map. rewrite Forall_forall; intros; reflexivity.
  Qed.

  (* rejection by elements: exactly the failing positions, each with the child's own Invalid *)
  Theorem seq_index_errs exact dest wrap rec self item ps aps co m x errs v who :
    seq_body E exact dest wrap rec self item ps aps co m x
    = OInvalid (Invalid (IndexErrs errs) v who) ->
    exists y xs,
      gate E co exact dest x = inr y /\
      all_failing E m ps aps y = Ok [] /\
      py_iter y = Ok xs /\
      Forall (fun xi => normal (rec item xi) = true) xs /\
      errs = index_errs 0 (map (rec item) xs) /\ errs <> [] /\
      v = y /\ who = self.
  Proof.
    unfold seq_body.
    destruct (mode_eqb m Sync && nonempty aps); [discriminate|].
    destruct (gate E co exact dest x) as [e|y] eqn:Hgate.
    { intros H; inversion H; subst. apply gate_rejects in Hgate. destruct co; destruct Hgate; discriminate. }
    destruct (pred_stage E self m ps aps y) as [o|] eqn:Hps.
    { unfold pred_stage in Hps. destruct (all_failing E m ps aps y) as [[|? ?]|?]; inversion Hps; subst; discriminate. }
    apply pred_stage_none in Hps.
    destruct (py_iter y) as [xs|e] eqn:Hit; [|discriminate].
    destruct (collect_items 0 _) as [o|[ws errs']] eqn:Hc.
    { intros ->. apply collect_items_abnormal in Hc. destruct Hc as [_ Hc]; discriminate. }
    destruct errs' as [|e1 errs']; [discriminate|].
    intros H; inversion H; subst; clear H.
    apply collect_items_ok in Hc. destruct Hc as [Hn [_ Herrs]].
    apply run_calls_prefix in Hn. rewrite (run_calls_normal _ _ Hn), map_callr_item in Herrs.
    apply (Forall_callr_item (fun o => normal o = true)) in Hn.
    eexists _, xs. repeat split; eauto. discriminate.
  Qed.

  (* container-level failures are decided without consulting any element *)
  Theorem seq_container_first exact dest wrap rec1 rec2 self item ps aps co m x :
    (exists e, gate E co exact dest x = inl e) \/
    (exists y, gate E co exact dest x = inr y /\ all_failing E m ps aps y <> Ok []) \/
    (mode_eqb m Sync && nonempty aps = true) ->
    seq_body E exact dest wrap rec1 self item ps aps co m x
    = seq_body E exact dest wrap rec2 self item ps aps co m x.
  Proof.
    unfold seq_body. intros [[e He]|[[y [Hy Hne]]|Hg]].
    - destruct (mode_eqb m Sync && nonempty aps); [reflexivity|]. rewrite He. reflexivity.
    - destruct (mode_eqb m Sync && nonempty aps); [reflexivity|]. rewrite Hy.
      unfold pred_stage. destruct (all_failing E m ps aps y) as [[|? ?]|?]; try reflexivity. congruence.
    - rewrite Hg. reflexivity.
  Qed.

  (* ---------- n-tuple ---------- *)

  Lemma run_calls_combine_valid rec fields xs ws :
    Forall2 (fun c w => callr rec c = OValid w) (combine fields xs) ws ->
    run_calls false rec (combine fields xs) = map OValid ws.
  Proof.
    intros H. apply map_OValid_Forall2 in H.
    rewrite run_calls_normal; [exact H|].
    rewrite Forall_forall. intros c Hin. apply (in_map (callr rec)) in Hin.
    rewrite H in Hin. apply in_map_iff in Hin. destruct Hin as [w [<- _]]. reflexivity.
  Qed.

  Theorem ntuple_accept rec self fields vobj co m x out :
    ntuple_body E rec self fields vobj co m x = OValid out <->
    exists y xs ws,
      gate E co TTuple TList x = inr y /\
      pred_eval E (PExactItemCount (zlen fields)) y = Ok true /\
      py_iter y = Ok xs /\
      Forall2 (fun c w => callr rec c = OValid w) (combine fields xs) ws /\
      obj_stage E self m vobj None (VTuple ws) = OValid out.
  Proof.
    unfold ntuple_body. split.
    - destruct (gate E co TTuple TList x) as [e|y] eqn:Hgate; [discriminate|].
      cbv zeta. destruct (pred_eval E (PExactItemCount (zlen fields)) y) as [[|]|] eqn:Hlen; try discriminate.
      destruct (py_iter y) as [xs|e] eqn:Hit; [|discriminate].
      destruct (collect_items 0 _) as [o|[ws errs]] eqn:Hc.
      { intros ->. apply collect_items_abnormal in Hc. destruct Hc as [_ Hc]; discriminate. }
      destruct errs; [|discriminate]. intros H.
      apply collect_items_ok in Hc. destruct Hc as [Hn [Hws Herrs]].
      exists y, xs, ws. repeat split; auto.
      pose proof (run_calls_prefix _ _ Hn) as Hn'.
      rewrite (run_calls_normal _ _ Hn') in Hn, Hws, Herrs.
      symmetry in Herrs. pose proof (index_errs_nil _ _ Hn Herrs) as Hall.
      rewrite <- Hws in Hall. apply map_OValid_Forall2 in Hall. exact Hall.
    - intros [y [xs [ws [Hgate [Hlen [Hit [Hall Hobj]]]]]]].
      rewrite Hgate. cbv zeta. rewrite Hlen, Hit.
      rewrite (run_calls_combine_valid _ _ _ _ Hall).
      rewrite collect_items_normal.
      + rewrite valid_payloads_map, index_errs_map_valid. exact Hobj.
      + rewrite Forall_map. rewrite Forall_forall; intros; reflexivity.
  Qed.

  (* the arity predicate is decided on the coerced value before any slot is validated *)
  Theorem ntuple_arity_first rec1 rec2 self fields vobj co m x y :
    gate E co TTuple TList x = inr y ->
    pred_eval E (PExactItemCount (zlen fields)) y <> Ok true ->
    ntuple_body E rec1 self fields vobj co m x = ntuple_body E rec2 self fields vobj co m x.
  Proof.
    unfold ntuple_body. intros -> Hne. cbv zeta.
    destruct (pred_eval E (PExactItemCount (zlen fields)) y) as [[|]|]; try reflexivity. congruence.
  Qed.

  Theorem ntuple_arity_error rec self fields vobj co m x y :
    gate E co TTuple TList x = inr y ->
    pred_eval E (PExactItemCount (zlen fields)) y = Ok false ->
    ntuple_body E rec self fields vobj co m x
    = OInvalid (Invalid (PredicateErrs [PRSync (PExactItemCount (zlen fields))]) y self).
  Proof. unfold ntuple_body. intros -> H. cbv zeta. rewrite H. reflexivity. Qed.

  Theorem ntuple_index_errs rec self fields vobj co m x errs v who :
    ntuple_body E rec self fields vobj co m x = OInvalid (Invalid (IndexErrs errs) v who) ->
    (forall id obj errs', uobj E id obj <> Some (IndexErrs errs')) ->
    exists y xs,
      gate E co TTuple TList x = inr y /\ py_iter y = Ok xs /\
      Forall (fun c => normal (callr rec c) = true) (combine fields xs) /\
      errs = index_errs 0 (map (callr rec) (combine fields xs)) /\ errs <> [] /\ v = y /\ who = self.
  Proof.
    unfold ntuple_body. intros H Hu.
    destruct (gate E co TTuple TList x) as [e|y] eqn:Hgate.
    { inversion H; subst. apply gate_rejects in Hgate. destruct co; destruct Hgate; discriminate. }
    cbv zeta in H. destruct (pred_eval E (PExactItemCount (zlen fields)) y) as [[|]|]; try discriminate.
    destruct (py_iter y) as [xs|e] eqn:Hit; [|discriminate].
    destruct (collect_items 0 _) as [o|[ws errs']] eqn:Hc.
    { subst o. apply collect_items_abnormal in Hc. destruct Hc as [_ Hc]; discriminate. }
    destruct errs' as [|e1 errs'].
    { unfold obj_stage in H. destruct vobj as [id|]; [|destruct m; discriminate].
      destruct (uobj E id (VTuple ws)) eqn:Hob; [|destruct m; discriminate].
      inversion H; subst. exfalso. eapply Hu; eauto. }
    inversion H; subst; clear H.
    apply collect_items_ok in Hc. destruct Hc as [Hn [_ Herrs]].
    apply run_calls_prefix in Hn. rewrite (run_calls_normal _ _ Hn) in Herrs.
    eexists _, xs. repeat split; eauto. discriminate.
  Qed.

  (* ---------- set ---------- *)

  Definition set_payload (acc : list pyval) (ws : list pyval) : list pyval :=
    fold_left set_add ws acc.

  Lemma collect_set_valid ws acc :
    Forall (fun w => hashable (chashable E) w = true) ws ->
    collect_set E (map OValid ws) acc [] = inr (set_payload acc ws, []).
  Proof.
    revert acc; induction ws as [|w ws IH]; intros acc H; [reflexivity|].
    inversion H; subst. cbn [map collect_set]. rewrite H2. rewrite (IH _ H3). reflexivity.
  Qed.

  Fixpoint invalids (outs : list outcome) : list invalid :=
    match outs with
    | [] => []
    | OInvalid i :: r => i :: invalids r
    | _ :: r => invalids r
    end.

  Lemma collect_set_spec outs acc errs acc' errs' :
    collect_set E outs acc errs = inr (acc', errs') ->
    Forall (fun o => normal o = true) outs /\ errs' = errs ++ invalids outs.
  Proof.
    revert acc errs; induction outs as [|o outs IH]; intros acc errs H; cbn [collect_set] in H.
    - inversion H; subst. split; [constructor | rewrite app_nil_r; reflexivity].
    - destruct o; try discriminate.
      + destruct errs as [|e0 errs0].
        * destruct (hashable (chashable E) w); [|discriminate].
          destruct (IH _ _ H) as [Hn ->]. split; [constructor; [reflexivity|exact Hn] | reflexivity].
        * destruct (IH _ _ H) as [Hn ->]. split; [constructor; [reflexivity|exact Hn] | reflexivity].
      + destruct (IH _ _ H) as [Hn ->]. split; [constructor; [reflexivity|exact Hn]|].
        cbn [invalids]. rewrite <- app_assoc. reflexivity.
  Qed.

  Lemma collect_set_all_valid outs acc acc' :
    collect_set E outs acc [] = inr (acc', []) ->
    exists ws, outs = map OValid ws /\
               Forall (fun w => hashable (chashable E) w = true) ws /\
               acc' = set_payload acc ws.
  Proof.
    revert acc; induction outs as [|o outs IH]; intros acc H; cbn [collect_set] in H.
    - inversion H; subst. exists []. repeat split; constructor.
    - destruct o; try discriminate.
      + destruct (hashable (chashable E) w) eqn:Hh; [|discriminate].
        destruct (IH _ H) as [ws [-> [Hhs ->]]].
        exists (w :: ws). repeat split; [constructor; assumption].
      + apply collect_set_spec in H. destruct H as [_ H]. destruct (invalids outs); discriminate.
  Qed.

  Theorem set_accept rec self item ps aps co m x out :
    set_body E rec self item ps aps co m x = OValid out <->
    (m = Sync -> aps = []) /\
    exists y xs ws,
      gate E co TSet TSet x = inr y /\
      all_failing E m ps aps y = Ok [] /\
      py_iter y = Ok xs /\
      Forall2 (fun xi w => rec item xi = OValid w) xs ws /\
      Forall (fun w => hashable (chashable E) w = true) ws /\
      out = VSet (set_payload [] ws).
  Proof.
    unfold set_body. split.
    - destruct (mode_eqb m Sync && nonempty aps) eqn:Hg; [discriminate|].
      destruct (gate E co TSet TSet x) as [e|y] eqn:Hgate; [discriminate|].
      destruct (pred_stage E self m ps aps y) as [o|] eqn:Hps.
      { unfold pred_stage in Hps. destruct (all_failing E m ps aps y) as [[|? ?]|?]; inversion Hps; subst; discriminate. }
      apply pred_stage_none in Hps.
      destruct (py_iter y) as [xs|e] eqn:Hit; [|discriminate].
      destruct (collect_set E _ [] []) as [o|[ws errs]] eqn:Hc.
      { intros ->. exfalso. clear - Hc.
        remember (run_calls false rec (map (fun xi => (item, xi)) xs)) as outs. clear Heqouts.
        assert (G : forall outs acc errs w, collect_set E outs acc errs <> inl (OValid w)).
        { clear. induction outs as [|o outs IH]; intros acc errs w; cbn [collect_set]; [discriminate|].
          destruct o; try discriminate; try apply IH.
          destruct errs; [destruct (hashable _ _); [apply IH|discriminate] | apply IH]. }
        eapply G; eauto. }
      destruct errs; [|discriminate]. intros H; inversion H; subst; clear H.
      split.
      { intros ->. cbn in Hg. apply nonempty_false; exact Hg. }
      destruct (collect_set_all_valid _ _ _ Hc) as [pws [Houts [Hh ->]]].
      exists y, xs, pws. repeat split; auto.
      assert (Hn : Forall (fun o => normal o = true) (run_calls false rec (map (fun xi => (item, xi)) xs))).
      { rewrite Houts. rewrite Forall_map. rewrite Forall_forall; intros; reflexivity. }
      apply run_calls_prefix in Hn. rewrite (run_calls_normal _ _ Hn), map_callr_item in Houts.
      apply map_OValid_Forall2 in Houts. exact Houts.
    - intros [Hs [y [xs [ws [Hgate [Hps [Hit [Hall [Hh ->]]]]]]]]].
      assert (Hg : mode_eqb m Sync && nonempty aps = false).
      { destruct m; cbn; [|reflexivity]. rewrite (Hs eq_refl); reflexivity. }
      rewrite Hg, Hgate. apply (proj2 (pred_stage_none self m ps aps y)) in Hps. rewrite Hps, Hit.
      apply map_OValid_Forall2 in Hall.
      assert (Hn : Forall (fun c => normal (callr rec c) = true) (map (fun xi => (item, xi)) xs)).
      { apply (Forall_callr_item (fun o => normal o = true)). rewrite Forall_forall. intros xi Hin.
        apply (in_map (rec item)) in Hin. rewrite Hall in Hin. apply in_map_iff in Hin.
        destruct Hin as [w [<- _]]. reflexivity. }
      rewrite (run_calls_normal _ _ Hn), map_callr_item, Hall.
      rewrite (collect_set_valid _ _ Hh). reflexivity.
  Qed.

  (* one entry per failing member, in iteration order, each the child's own Invalid *)
  Theorem set_member_errs rec self item ps aps co m x errs v who :
    set_body E rec self item ps aps co m x = OInvalid (Invalid (SetErrs errs) v who) ->
    exists y xs,
      gate E co TSet TSet x = inr y /\ py_iter y = Ok xs /\
      Forall (fun xi => normal (rec item xi) = true) xs /\
      errs = invalids (map (rec item) xs) /\ errs <> [] /\ v = y /\ who = self.
  Proof.
    unfold set_body.
    destruct (mode_eqb m Sync && nonempty aps); [discriminate|].
    destruct (gate E co TSet TSet x) as [e|y] eqn:Hgate.
    { intros H; inversion H; subst. apply gate_rejects in Hgate. destruct co; destruct Hgate; discriminate. }
    destruct (pred_stage E self m ps aps y) as [o|] eqn:Hps.
    { unfold pred_stage in Hps. destruct (all_failing E m ps aps y) as [[|? ?]|?]; inversion Hps; subst; discriminate. }
    destruct (py_iter y) as [xs|e] eqn:Hit; [|discriminate].
    destruct (collect_set E _ [] []) as [o|[ws errs']] eqn:Hc.
    { intros ->. exfalso.
      assert (G : forall outs acc errs e0 v0 w0, collect_set E outs acc errs <> inl (OInvalid (Invalid (SetErrs e0) v0 w0))).
      { clear. induction outs as [|o outs IH]; intros acc errs e0 v0 w0; cbn [collect_set]; [discriminate|].
        destruct o; try discriminate; try apply IH.
        destruct errs; [destruct (hashable _ _); [apply IH|discriminate] | apply IH]. }
      eapply G; eauto. }
    destruct errs' as [|e1 errs']; [discriminate|].
    intros H; inversion H; subst; clear H.
    apply collect_set_spec in Hc. destruct Hc as [Hn Herrs]. cbn [app] in Herrs.
    apply run_calls_prefix in Hn. rewrite (run_calls_normal _ _ Hn), map_callr_item in Herrs.
    apply (Forall_callr_item (fun o => normal o = true)) in Hn.
    eexists _, xs. repeat split; eauto. discriminate.
  Qed.

  (* ---------- map ---------- *)

  Definition inv_of (o : outcome) : option invalid :=
    match o with OInvalid i => Some i | _ => None end.

  (* reference loop: key then value of every pair, in order *)
  Fixpoint map_ref (rec : runner) (kv vv : validator) (kvs : list (pyval * pyval))
           (acc : list (pyval * pyval))
           (errs : list (pyval * (option invalid * option invalid)))
    : outcome + (list (pyval * pyval) * list (pyval * (option invalid * option invalid))) :=
    match kvs with
    | [] => inr (acc, errs)
    | (k, v) :: rest =>
        let ko := rec kv k in
        if negb (normal ko) then inl ko else
        let vo := rec vv v in
        if negb (normal vo) then inl vo else
        match ko, vo with
        | OValid kw, OValid vw =>
            if hashable (chashable E) kw then map_ref rec kv vv rest (dict_set acc kw vw) errs
            else inl (ORaise ExType)
        | _, _ => map_ref rec kv vv rest acc (errs ++ [(k, (inv_of ko, inv_of vo))])
        end
    end.

  Lemma collect_map_ref rec kv vv kvs acc errs :
    collect_map E (map fst kvs) (run_calls false rec (map_calls kv vv kvs)) acc errs
    = map_ref rec kv vv kvs acc errs.
  Proof.
    revert acc errs; induction kvs as [|[k v] kvs IH]; intros acc errs; [reflexivity|].
    unfold map_calls. cbn [flat_map map fst snd app run_calls map_ref].
    fold (map_calls kv vv kvs).
    destruct (rec kv k) eqn:Hk; cbn [normal negb collect_map]; try reflexivity.
    - destruct (rec vv v) eqn:Hv; cbn [normal negb collect_map]; try reflexivity.
      + destruct (hashable (chashable E) w); [apply IH | reflexivity].
      + apply IH.
    - destruct (rec vv v) eqn:Hv; cbn [normal negb collect_map]; try reflexivity; apply IH.
  Qed.

  Definition map_payload (acc : list (pyval * pyval)) (pairs : list (pyval * pyval)) :=
    fold_left (fun d q => dict_set d (fst q) (snd q)) pairs acc.

  Fixpoint map_errs_of (rec : runner) (kv vv : validator) (kvs : list (pyval * pyval))
    : list (pyval * (option invalid * option invalid)) :=
    match kvs with
    | [] => []
    | (k, v) :: rest =>
        match rec kv k, rec vv v with
        | OValid _, OValid _ => map_errs_of rec kv vv rest
        | ko, vo => (k, (inv_of ko, inv_of vo)) :: map_errs_of rec kv vv rest
        end
    end.

  Lemma map_ref_errs rec kv vv kvs acc errs acc' errs' :
    map_ref rec kv vv kvs acc errs = inr (acc', errs') ->
    errs' = errs ++ map_errs_of rec kv vv kvs /\
    Forall (fun p => normal (rec kv (fst p)) = true /\ normal (rec vv (snd p)) = true) kvs.
  Proof.
    revert acc errs; induction kvs as [|[k v] kvs IH]; intros acc errs H; cbn [map_ref] in H.
    - inversion H; subst. rewrite app_nil_r. split; [reflexivity|constructor].
    - cbv zeta in H. cbn [map_errs_of].
      destruct (rec kv k) eqn:Hk; cbn [normal negb] in H; try discriminate;
      destruct (rec vv v) eqn:Hv; cbn [normal negb] in H; try discriminate.
      + destruct (hashable (chashable E) w); [|discriminate].
        destruct (IH _ _ H) as [-> Hn]. split; [reflexivity|].
        constructor; [cbn [fst snd]; rewrite Hk, Hv; split; reflexivity | exact Hn].
      + destruct (IH _ _ H) as [-> Hn]. split; [rewrite <- app_assoc; reflexivity|].
        constructor; [cbn [fst snd]; rewrite Hk, Hv; split; reflexivity | exact Hn].
      + destruct (IH _ _ H) as [-> Hn]. split; [rewrite <- app_assoc; reflexivity|].
        constructor; [cbn [fst snd]; rewrite Hk, Hv; split; reflexivity | exact Hn].
      + destruct (IH _ _ H) as [-> Hn]. split; [rewrite <- app_assoc; reflexivity|].
        constructor; [cbn [fst snd]; rewrite Hk, Hv; split; reflexivity | exact Hn].
  Qed.

  Lemma map_ref_valid rec kv vv kvs acc acc' :
    map_ref rec kv vv kvs acc [] = inr (acc', []) ->
    exists pairs,
      Forall2 (fun p q => rec kv (fst p) = OValid (fst q) /\ rec vv (snd p) = OValid (snd q)) kvs pairs /\
      Forall (fun q => hashable (chashable E) (fst q) = true) pairs /\
      acc' = map_payload acc pairs.
  Proof.
    revert acc; induction kvs as [|[k v] kvs IH]; intros acc H; cbn [map_ref] in H.
    - inversion H; subst. exists []. repeat split; constructor.
    - cbv zeta in H.
      destruct (rec kv k) eqn:Hk; cbn [normal negb] in H; try discriminate;
      destruct (rec vv v) eqn:Hv; cbn [normal negb] in H; try discriminate.
      + destruct (hashable (chashable E) w) eqn:Hh; [|discriminate].
        destruct (IH _ H) as [pairs [Hf [Hhs ->]]].
        exists ((w, w0) :: pairs). repeat split; constructor; auto.
      + apply map_ref_errs in H. destruct H as [H _]. destruct (map_errs_of rec kv vv kvs); discriminate.
      + apply map_ref_errs in H. destruct H as [H _]. destruct (map_errs_of rec kv vv kvs); discriminate.
      + apply map_ref_errs in H. destruct H as [H _]. destruct (map_errs_of rec kv vv kvs); discriminate.
  Qed.

  Lemma map_ref_complete rec kv vv kvs acc pairs :
    Forall2 (fun p q => rec kv (fst p) = OValid (fst q) /\ rec vv (snd p) = OValid (snd q)) kvs pairs ->
    Forall (fun q => hashable (chashable E) (fst q) = true) pairs ->
    map_ref rec kv vv kvs acc [] = inr (map_payload acc pairs, []).
  Proof.
    intros H; revert acc; induction H as [|[k v] [kw vw] kvs pairs [Hk Hv] _ IH]; intros acc Hh;
      [reflexivity|].
    inversion Hh; subst. cbn [fst snd] in *. cbn [map_ref]. cbv zeta.
    rewrite Hk, Hv. cbn [normal negb]. rewrite H1. apply IH. assumption.
  Qed.

  Lemma map_ref_not_valid rec kv vv kvs acc errs w :
    map_ref rec kv vv kvs acc errs <> inl (OValid w).
  Proof.
    revert acc errs; induction kvs as [|[k v] kvs IH]; intros acc errs; cbn [map_ref]; [discriminate|].
    cbv zeta.
    destruct (rec kv k) eqn:Hk; cbn [normal negb]; try discriminate;
    destruct (rec vv v) eqn:Hv; cbn [normal negb]; try discriminate; try apply IH.
    destruct (hashable (chashable E) w0); [apply IH|discriminate].
  Qed.

  Lemma map_ref_not_invalid rec kv vv kvs acc errs i :
    map_ref rec kv vv kvs acc errs <> inl (OInvalid i).
  Proof.
    revert acc errs; induction kvs as [|[k v] kvs IH]; intros acc errs; cbn [map_ref]; [discriminate|].
    cbv zeta.
    destruct (rec kv k) eqn:Hk; cbn [normal negb]; try discriminate;
    destruct (rec vv v) eqn:Hv; cbn [normal negb]; try discriminate; try apply IH.
    destruct (hashable (chashable E) w); [apply IH|discriminate].
  Qed.

  Theorem map_accept rec self kv vv ps aps co m x out :
    map_body E rec self kv vv ps aps co m x = OValid out <->
    (m = Sync -> aps = []) /\
    exists y kvs pairs,
      gate E co TDict TDict x = inr y /\
      all_failing E m ps aps y = Ok [] /\
      as_dict y = Some kvs /\
      Forall2 (fun p q => rec kv (fst p) = OValid (fst q) /\ rec vv (snd p) = OValid (snd q)) kvs pairs /\
      Forall (fun q => hashable (chashable E) (fst q) = true) pairs /\
      out = VDict (map_payload [] pairs).
  Proof.
    unfold map_body. split.
    - destruct (mode_eqb m Sync && nonempty aps) eqn:Hg; [discriminate|].
      destruct (gate E co TDict TDict x) as [e|y] eqn:Hgate; [discriminate|].
      destruct (pred_stage E self m ps aps y) as [o|] eqn:Hps.
      { unfold pred_stage in Hps. destruct (all_failing E m ps aps y) as [[|? ?]|?]; inversion Hps; subst; discriminate. }
      apply pred_stage_none in Hps.
      destruct (as_dict y) as [kvs|] eqn:Hd; [|discriminate].
      rewrite collect_map_ref.
      destruct (map_ref rec kv vv kvs [] []) as [o|[d errs]] eqn:Hc.
      { intros ->. exfalso. eapply map_ref_not_valid; eauto. }
      destruct errs; [|discriminate]. intros H; inversion H; subst; clear H.
      split.
      { intros ->. cbn in Hg. apply nonempty_false; exact Hg. }
      destruct (map_ref_valid _ _ _ _ _ _ Hc) as [pairs [Hf [Hh ->]]].
      exists y, kvs, pairs. repeat split; auto.
    - intros [Hs [y [kvs [pairs [Hgate [Hps [Hd [Hf [Hh ->]]]]]]]]].
      assert (Hg : mode_eqb m Sync && nonempty aps = false).
      { destruct m; cbn; [|reflexivity]. rewrite (Hs eq_refl); reflexivity. }
      rewrite Hg, Hgate. apply (proj2 (pred_stage_none self m ps aps y)) in Hps. rewrite Hps, Hd.
      rewrite collect_map_ref. rewrite (map_ref_complete _ _ _ _ _ _ Hf Hh). reflexivity.
  Qed.

  (* errors are keyed by the original key, with separate key / value parts *)
  Theorem map_errs rec self kv vv ps aps co m x errs v who :
    map_body E rec self kv vv ps aps co m x = OInvalid (Invalid (MapErr errs) v who) ->
    exists y kvs,
      gate E co TDict TDict x = inr y /\ as_dict y = Some kvs /\
      errs = map_errs_of rec kv vv kvs /\ errs <> [] /\ v = y /\ who = self.
  Proof.
    unfold map_body.
    destruct (mode_eqb m Sync && nonempty aps); [discriminate|].
    destruct (gate E co TDict TDict x) as [e|y] eqn:Hgate.
    { intros H; inversion H; subst. apply gate_rejects in Hgate. destruct co; destruct Hgate; discriminate. }
    destruct (pred_stage E self m ps aps y) as [o|] eqn:Hps.
    { unfold pred_stage in Hps. destruct (all_failing E m ps aps y) as [[|? ?]|?]; inversion Hps; subst; discriminate. }
    destruct (as_dict y) as [kvs|] eqn:Hd; [|discriminate].
    rewrite collect_map_ref.
    destruct (map_ref rec kv vv kvs [] []) as [o|[d errs']] eqn:Hc.
    { intros ->. exfalso. eapply map_ref_not_invalid; eauto. }
    destruct errs' as [|e1 errs']; [discriminate|].
    intros H; inversion H; subst; clear H.
    apply map_ref_errs in Hc. destruct Hc as [Herrs _]. cbn [app] in Herrs.
    eexists _, kvs. repeat split; eauto. discriminate.
  Qed.
End Collections.

Lemma VList_inj' a b : VList a = VList b -> a = b. Proof. congruence. Qed.
Lemma VTuple_inj' a b : VTuple a = VTuple b -> a = b. Proof. congruence. Qed.
