(* C12: error rendering is total and faithful on every error the built-ins can produce. *)
From Coq Require Import ZArith List Bool Lia.
From KV Require Import Base.PyVal Base.Prims Model.Validator Model.Render Proofs.Provenance.
Import ListNotations.
Open Scope nat_scope.

(* a node the renderer's dispatch covers: built-in predicates (choices of any kind),
   custom errors only if they are SerializableErr *)
Definition node_renderable (i : invalid) : bool :=
  match i with
  | Invalid (PredicateErrs ps) _ _ => forallb pred_message_ok ps
  | Invalid (CustomErr id) _ _ => is_serializable_err id
  | _ => true
  end.

Section OneLevel.
  Variable A : Type.
  Variable nl : invalid -> A.

  (* one level never raises on a renderable node, whatever the callback is *)
  Theorem render1_total i : node_renderable i = true -> exists r, render1 A nl i = Ok r.
  Proof.
    destruct i as [e v who]. destruct e; cbn [node_renderable render1]; intros H; try (eexists; reflexivity).
    - destruct t; eexists; reflexivity.
    - destruct (scalar_special who); [eexists; reflexivity|].
      destruct dest; try (destruct (is_record_class who); eexists; reflexivity); eexists; reflexivity.
    - rewrite H. eexists; reflexivity.
    - rewrite H. eexists; reflexivity.
  Qed.

  (* faithful: the callback is applied to every direct child, in order, and to nothing else *)
  Theorem render1_children i r :
    render1 A nl i = Ok r ->
    match i with Invalid e _ _ => rnode_children A r = map nl (direct_children e) end.
  Proof.
    destruct i as [e v who]. destruct e; cbn [render1]; intros H.
    - destruct t; inversion H; subst; reflexivity.
    - destruct (scalar_special who); [inversion H; subst; reflexivity|].
      destruct dest; try (inversion H; subst; reflexivity);
        destruct (is_record_class who); inversion H; subst; reflexivity.
    - inversion H; subst. reflexivity.
    - inversion H; subst; reflexivity.
    - inversion H; subst. cbn [rnode_children direct_children]. rewrite !map_map. reflexivity.
    - injection H as <-. clear. cbn [rnode_children direct_children].
      induction ks as [|[k [a b]] ks IH]; [reflexivity|]. cbn [map flat_map fst snd]. rewrite IH.
      rewrite map_app. f_equal. destruct a, b; reflexivity.
    - inversion H; subst; reflexivity.
    - inversion H; subst. cbn [rnode_children direct_children]. rewrite !map_map. reflexivity.
    - inversion H; subst. reflexivity.
    - inversion H; subst. reflexivity.
    - destruct (forallb pred_message_ok ps); inversion H; subst; reflexivity.
    - destruct (is_serializable_err id); inversion H; subst; reflexivity.
  Qed.

  (* one entry per failing index / key / map pair / member / variant / predicate *)
  Theorem render1_entries i r :
    render1 A nl i = Ok r ->
    match i, r with
    | Invalid (IndexErrs ix) _ _, RIndex xs => map fst xs = map fst ix
    | Invalid (KeyErrs ks) _ _, RKeys xs => map fst xs = map fst ks
    | Invalid (MapErr ks) _ _, RMap xs => map fst xs = map fst ks
    | Invalid (SetErrs es) _ _, RMembers xs => length xs = length es
    | Invalid (UnionErrs es) _ _, RVariants xs => length xs = length es
    | Invalid (PredicateErrs ps) _ _, RMsgs n => n = length ps
    | _, _ => True
    end.
  Proof.
    destruct i as [e v who]. destruct e; cbn [render1]; intros H.
    - destruct t; injection H as <-; exact I.
    - destruct (scalar_special who); [injection H as <-; exact I|].
      destruct dest; try (injection H as <-; exact I);
        destruct (is_record_class who); injection H as <-; exact I.
    - injection H as <-. exact I.
    - injection H as <-. exact I.
    - injection H as <-. rewrite map_map. reflexivity.
    - injection H as <-. rewrite map_map. reflexivity.
    - injection H as <-. exact I.
    - injection H as <-. rewrite map_map. reflexivity.
    - injection H as <-. apply map_length.
    - injection H as <-. apply map_length.
    - destruct (forallb pred_message_ok ps); [injection H as <-; reflexivity | discriminate].
    - destruct (is_serializable_err id); [injection H as <-; exact I | discriminate].
  Qed.
End OneLevel.

(* ---------- the full default rendering ---------- *)

Fixpoint raises (t : rtree) : bool :=
  let fix any (xs : list rtree) : bool :=
    match xs with [] => false | x :: r => raises x || any r end in
  let fix anyi (xs : list (nat * rtree)) : bool :=
    match xs with [] => false | (_, x) :: r => raises x || anyi r end in
  let fix anyk (xs : list (pyval * rtree)) : bool :=
    match xs with [] => false | (_, x) :: r => raises x || anyk r end in
  let fix anym (xs : list (pyval * (option rtree * option rtree))) : bool :=
    match xs with
    | [] => false
    | (_, (a, b)) :: r =>
        match a with Some x => raises x | None => false end ||
        match b with Some x => raises x | None => false end || anym r
    end in
  match t with
  | RTRaise _ => true
  | RT (RIndex xs) => anyi xs
  | RT (RKeys xs) => anyk xs
  | RT (RMap xs) => anym xs
  | RT (RMembers xs) | RT (RVariants xs) => any xs
  | RT (RChild a) => raises a
  | RT _ => false
  end.

(* if every node of the error tree is renderable, rendering the whole tree never raises *)
Theorem render_all_total :
  forall i, (forall nd, In nd (nodes_inv i) -> node_renderable nd = true) -> raises (render_all i) = false.
Proof.
  fix IH 1. intros i Hn. destruct i as [e v who].
  assert (Hroot : node_renderable (Invalid e v who) = true) by (apply Hn; cbn; left; reflexivity).
  assert (Hsub : forall c, In c (direct_children e) -> forall nd, In nd (nodes_inv c) -> node_renderable nd = true).
  { intros c Hc nd Hnd. apply Hn. cbn [nodes_inv]. right. apply (proj2 (nodes_err_children e nd)). exists c. auto. }
  cbn [render_all]. destruct e; cbn [render1 node_renderable] in *; try reflexivity.
  - destruct t; reflexivity.
  - destruct (scalar_special who); [reflexivity|].
    destruct dest; try (destruct (is_record_class who); reflexivity); reflexivity.
  - (* ContainerErr *) cbn [raises]. apply IH. apply Hsub. left; reflexivity.
  - (* KeyErrs *) clear Hn Hroot. cbn [raises direct_children] in *.
    induction ks as [|[k c] ks IHk]; [reflexivity|]. cbn [map]. rewrite IH; [|apply Hsub; left; reflexivity].
    cbn [orb]. apply IHk. intros c' Hc'. apply Hsub. right; exact Hc'.
  - (* MapErr *) clear Hn Hroot. cbn [raises direct_children] in *.
    induction ks as [|[k [a b]] ks IHk]; [reflexivity|]. cbn [map fst snd option_map].
    assert (Ha : match option_map render_all a with Some x => raises x | None => false end = false).
    { destruct a as [a|]; [|reflexivity]. cbn [option_map]. apply IH. apply Hsub. cbn [flat_map fst snd opt_list app]. left; reflexivity. }
    assert (Hb : match option_map render_all b with Some x => raises x | None => false end = false).
    { destruct b as [b|]; [|reflexivity]. cbn [option_map]. apply IH. apply Hsub. cbn [flat_map fst snd opt_list].
      apply in_or_app. left. apply in_or_app. right. left; reflexivity. }
    rewrite Ha, Hb. cbn [orb]. apply IHk. intros c' Hc'. apply Hsub. cbn [flat_map]. apply in_or_app. right; exact Hc'.
  - (* IndexErrs *) clear Hn Hroot. cbn [raises direct_children] in *.
    induction ix as [|[j c] ix IHk]; [reflexivity|]. cbn [map]. rewrite IH; [|apply Hsub; left; reflexivity].
    cbn [orb]. apply IHk. intros c' Hc'. apply Hsub. right; exact Hc'.
  - (* SetErrs *) clear Hn Hroot. cbn [raises direct_children] in *.
    induction items as [|c cs IHk]; [reflexivity|]. cbn [map]. rewrite IH; [|apply Hsub; left; reflexivity].
    cbn [orb]. apply IHk. intros c' Hc'. apply Hsub. right; exact Hc'.
  - (* UnionErrs *) clear Hn Hroot. cbn [raises direct_children] in *.
    induction variants as [|c cs IHk]; [reflexivity|]. cbn [map]. rewrite IH; [|apply Hsub; left; reflexivity].
    cbn [orb]. apply IHk. intros c' Hc'. apply Hsub. right; exact Hc'.
  - rewrite Hroot. reflexivity.
  - rewrite Hroot. reflexivity.
Qed.

(* ---------- the signature message: one line per failure and per container node ---------- *)
Lemma list_sum_cons x l : list_sum (x :: l) = x + list_sum l.
Proof. reflexivity. Qed.

Lemma flat_map_length_sum {A B} (f : A -> list B) (l : list A) :
  length (flat_map f l) = list_sum (map (fun x => length (f x)) l).
Proof. induction l as [|x l IH]; [reflexivity|]. cbn [flat_map map]. rewrite list_sum_cons, app_length, IH. reflexivity. Qed.

Lemma list_sum_add {A} (f g : A -> nat) (l : list A) :
  list_sum (map (fun x => f x + g x) l) = list_sum (map f l) + list_sum (map g l).
Proof. induction l as [|x l IH]; [reflexivity|]. cbn [map]. rewrite !list_sum_cons, IH. lia. Qed.

Lemma list_sum_ext {A} (f g : A -> nat) (l : list A) :
  (forall x, In x l -> f x = g x) -> list_sum (map f l) = list_sum (map g l).
Proof.
  induction l as [|x l IH]; intros H; [reflexivity|]. cbn [map]. rewrite !list_sum_cons.
  rewrite (H x (or_introl eq_refl)), IH; [reflexivity|]. intros y Hy. apply H. right. exact Hy.
Qed.

Theorem msg_levels_count : forall i l, length (msg_levels l i) = failures i + headers i.
Proof.
  fix IH 1. intros [e v w] l. cbn [msg_levels failures headers].
  destruct e; cbn [msg_levels_err failures_err headers_err length]; try reflexivity.
  - (* ContainerErr *) apply IH.
  - (* KeyErrs *) rewrite flat_map_length_sum, <- plus_n_Sm. f_equal. rewrite <- list_sum_add.
    induction ks as [|[k c] ks IHl]; [reflexivity|]. cbn [map snd]. rewrite !list_sum_cons, (IH c (S l)), IHl. reflexivity.
  - (* MapErr *) rewrite flat_map_length_sum, <- plus_n_Sm. f_equal. rewrite <- list_sum_add.
    induction ks as [|[k [a b]] ks IHl]; [reflexivity|]. cbn [map fst snd]. rewrite !list_sum_cons, app_length, IHl.
    destruct a as [a|], b as [b|]; cbn [length]; rewrite ?(IH a (S l)), ?(IH b (S l)); lia.
  - (* IndexErrs *) rewrite flat_map_length_sum, <- plus_n_Sm. f_equal. rewrite <- list_sum_add.
    induction ix as [|[k c] ix IHl]; [reflexivity|]. cbn [map snd]. rewrite !list_sum_cons, (IH c (S l)), IHl. reflexivity.
  - (* SetErrs *) rewrite flat_map_length_sum, <- plus_n_Sm. f_equal. rewrite <- list_sum_add.
    induction items as [|c xs IHl]; [reflexivity|]. cbn [map]. rewrite !list_sum_cons, (IH c (S l)), IHl. reflexivity.
  - (* UnionErrs *) rewrite flat_map_length_sum, <- plus_n_Sm. f_equal. rewrite <- list_sum_add.
    induction variants as [|c xs IHl]; [reflexivity|]. cbn [map]. rewrite !list_sum_cons, (IH c (S l)), IHl. reflexivity.
  - (* PredicateErrs *) rewrite map_length. lia.
Qed.
