(* C17: validated output is a fixed point (proved on the fragment [fp_ok]; the remaining
   validator kinds are covered by the re-validation correspondence, see DESIGN.md). *)
From Coq Require Import ZArith List Bool Lia.
From KV Require Import Base.PyVal Base.Prims Model.Validator Model.Sem
     Proofs.Scalar Proofs.Calls Proofs.Collections Proofs.Records Proofs.Wrappers Proofs.Total Proofs.Typed Proofs.Preds
     Proofs.DeriveP Proofs.DeriveR Proofs.Mono Proofs.FixRec.
Import ListNotations.
Open Scope nat_scope.

(* containers built by set.add / d[k] = v hold no two equal members / keys: building them again changes nothing *)
Lemma distinct_from_snoc a : forall l x,
    distinct_from a (l ++ [x]) = distinct_from a l && negb (py_in x (a ++ l)).
Proof.
  intros l. revert a. induction l as [|y l IH]; intros a x; cbn [app distinct_from].
  - rewrite app_nil_r, andb_true_r. reflexivity.
  - rewrite IH. rewrite <- app_assoc. cbn [app]. rewrite andb_assoc. reflexivity.
Qed.

Lemma set_payload_nodup ws : forall acc,
    distinct_from [] acc = true -> distinct_from [] (fold_left set_add ws acc) = true.
Proof.
  induction ws as [|x ws IH]; intros acc H; cbn [fold_left]; [exact H|]. apply IH.
  unfold set_add. destruct (py_in x acc) eqn:Ein; [exact H|].
  rewrite distinct_from_snoc, H. cbn [app]. rewrite Ein. reflexivity.
Qed.

Lemma set_payload_idem ws : fold_left set_add (fold_left set_add ws []) [] = fold_left set_add ws [].
Proof. rewrite (set_payload_distinct (fold_left set_add ws []) []); [reflexivity|]. apply set_payload_nodup. reflexivity. Qed.

Lemma keys_distinct_snoc a : forall l k v,
    keys_distinct_from a (l ++ [(k, v)]) = keys_distinct_from a l && negb (dict_has (a ++ l) k).
Proof.
  intros l. revert a. induction l as [|[k0 v0] l IH]; intros a k v; cbn [app keys_distinct_from].
  - rewrite app_nil_r, andb_true_r. reflexivity.
  - rewrite IH. rewrite <- app_assoc. cbn [app]. rewrite andb_assoc. reflexivity.
Qed.

Lemma dict_has_keys a b k : map fst a = map fst b -> dict_has a k = dict_has b k.
Proof.
  unfold dict_has. revert b. induction a as [|[k0 v0] a IH]; intros [|[k1 v1] b] H; try discriminate; [reflexivity|].
  cbn [map fst] in H. injection H as -> H. cbn [dict_get]. destruct (py_eq k1 k); [reflexivity|]. apply IH; exact H.
Qed.

Lemma keys_distinct_keys : forall l l' a a',
    map fst l = map fst l' -> map fst a = map fst a' -> keys_distinct_from a l = keys_distinct_from a' l'.
Proof.
  induction l as [|[k v] l IH]; intros [|[k' v'] l'] a a' H Ha; try discriminate; [reflexivity|].
  cbn [map fst] in H. injection H as -> H. cbn [keys_distinct_from].
  rewrite (dict_has_keys a a' k' Ha). f_equal. apply IH; [exact H|]. rewrite !map_app, Ha. reflexivity.
Qed.

Lemma dict_set_keys_same d k v : dict_has d k = true -> map fst (dict_set d k v) = map fst d.
Proof.
  unfold dict_has. induction d as [|[k0 v0] d IH]; cbn [dict_get dict_set]; [discriminate|].
  destruct (py_eq k0 k); cbn [map fst]; [reflexivity|]. intros H. rewrite IH by exact H. reflexivity.
Qed.

Lemma map_payload_nodup pairs : forall acc,
    keys_distinct_from [] acc = true ->
    keys_distinct_from [] (fold_left (fun d q => dict_set d (fst q) (snd q)) pairs acc) = true.
Proof.
  induction pairs as [|[k v] pairs IH]; intros acc H; cbn [fold_left fst snd]; [exact H|]. apply IH.
  destruct (dict_has acc k) eqn:Eh.
  - rewrite (keys_distinct_keys (dict_set acc k v) acc [] [] (dict_set_keys_same acc k v Eh) eq_refl). exact H.
  - rewrite (dict_set_fresh acc k v Eh), keys_distinct_snoc, H. cbn [app]. rewrite Eh. reflexivity.
Qed.

Section Fix.
  Variable E : env.
  (* extra fuel that lets every declared default of a record class pass its field validator *)
  Variable D : nat.

  (* processors are idempotent on the target type and stay inside it *)
  Definition procs_stable (t : pytype) (pre : list processor) : Prop :=
    forall y w, exact_type y t = true -> procs_apply E pre y = Ok w ->
                exact_type w t = true /\ procs_apply E pre w = Ok w.

  (* container predicates that only look at the number of items *)
  Definition len_only (wrap : list pyval -> pyval) (p : predicate) : Prop :=
    forall xs ws, length xs = length ws -> pred_eval E p (wrap xs) = pred_eval E p (wrap ws).
  Definition alen_only (wrap : list pyval -> pyval) (a : apredicate) : Prop :=
    forall xs ws, length xs = length ws -> apred_eval E a (wrap xs) = apred_eval E a (wrap ws).

  (* union variants that return their input *)
  Definition identity_variant (v : validator) : Prop :=
    forall m n x w, run E m n v x = OValid w -> w = x.

  Fixpoint fp_ok (v : validator) : Prop :=
    let fix all (vs : list validator) : Prop :=
      match vs with [] => True | v :: r => fp_ok v /\ all r end in
    let fix all_id (vs : list validator) : Prop :=
      match vs with [] => True | v :: r => identity_variant v /\ all_id r end in
    let fix all_kv (l : list (pyval * validator)) : Prop :=
      match l with
      | [] => True
      | (_, KeyNotRequired inner) :: r => fp_ok inner /\ all_kv r
      | (_, v) :: r => fp_ok v /\ all_kv r
      end in
    let fix all_sch (l : list (pyval * (validator * bool))) : Prop :=
      match l with [] => True | (_, (v, _)) :: r => fp_ok v /\ all_sch r end in
    match v with
    | Scalar k co pre ps aps =>
        (co = None \/ (co = default_coercer k /\ co <> None)) /\ procs_stable (ktype k) pre
    | NoneV None | AlwaysValid | IsDictV => True
    | EqualsV mt pre => procs_stable (type_of mt) pre
    | ListV item ps aps None =>
        fp_ok item /\ Forall (len_only VList) ps /\ Forall (alen_only VList) aps
    | UTupleV item ps aps co =>
        (co = None \/ co = Some CoTupleOrList) /\ fp_ok item /\
        Forall (len_only VTuple) ps /\ Forall (alen_only VTuple) aps
    | SetV item [] [] None => fp_ok item
    | MapV kv vv [] [] None => fp_ok kv /\ fp_ok vv
    | NTupleV fields _ co => (co = None \/ co = Some CoTupleOrList) /\ all fields
    | DictAnyV schema None None _ => str_keys schema = true /\ all_kv schema
    | ClassV rk c schema None None _ None =>
        str_keys schema = true /\ all_sch schema /\
        match rk with
        | RkTyped => True
        | _ => map fst (cfields E c) = map fst schema /\
               Forall (fun fd => forall v req, In (fst fd, (v, req)) schema ->
                                  match snd fd with
                                  | Some d => forall m, run E m D v d = OValid d
                                  | None => req = true
                                  end) (cfields E c)
        end
    | UnionV vs => all_id vs
    | OptionalV (NoneV None) b => fp_ok b
    | MaybeV a | CacheV a => fp_ok a
    | LazyV _ _ => True
    | _ => False
    end.

  Lemma fp_all vs :
    (fix all (vs : list validator) : Prop :=
       match vs with [] => True | v :: r => fp_ok v /\ all r end) vs -> Forall fp_ok vs.
  Proof. induction vs as [|v vs IH]; intros H; [constructor|]. destruct H. constructor; auto. Qed.

  Lemma fp_all_id vs :
    (fix all_id (vs : list validator) : Prop :=
       match vs with [] => True | v :: r => identity_variant v /\ all_id r end) vs ->
    Forall identity_variant vs.
  Proof. induction vs as [|v vs IH]; intros H; [constructor|]. destruct H. constructor; auto. Qed.

  Lemma fp_all_kv l :
    (fix all_kv (l : list (pyval * validator)) : Prop :=
       match l with
       | [] => True
       | (_, KeyNotRequired inner) :: r => fp_ok inner /\ all_kv r
       | (_, v) :: r => fp_ok v /\ all_kv r
       end) l -> Forall (fun e => fp_ok (unwrap_knr (snd e))) l.
  Proof.
    induction l as [|[k v] l IH]; intros H; [constructor|].
    destruct v; destruct H as [H1 H2]; (constructor; [exact H1 | apply IH; exact H2]).
  Qed.

  Lemma fp_all_sch l :
    (fix all_sch (l : list (pyval * (validator * bool))) : Prop :=
       match l with [] => True | (_, (v, _)) :: r => fp_ok v /\ all_sch r end) l ->
    Forall (fun e => fp_ok (fst (snd e))) l.
  Proof. induction l as [|[k [v r]] l IH]; intros H; [constructor|]. destruct H. constructor; auto. Qed.

  Hypothesis oracle_typed : forall k x y, oracle E k x = Some y -> exact_type y (otype k) = true.
  Hypothesis Hlazy : forall r, fp_ok (lazy_env E r).

  Lemma all_failing_len wrap m ps aps xs ws :
    Forall (len_only wrap) ps -> Forall (alen_only wrap) aps -> length xs = length ws ->
    all_failing E m ps aps (wrap xs) = all_failing E m ps aps (wrap ws).
  Proof.
    intros Hp Ha Hl. unfold all_failing.
    assert (Hf : failing_preds E ps (wrap xs) = failing_preds E ps (wrap ws)).
    { induction Hp as [|p0 ps0 Hp0 _ IHp]; [reflexivity|]. cbn [failing_preds]. rewrite (Hp0 _ _ Hl), IHp. reflexivity. }
    rewrite Hf. destruct (failing_preds E ps (wrap ws)); cbn [pbind]; [|reflexivity].
    destruct m; [reflexivity|]. unfold failing_apreds. f_equal. f_equal. f_equal.
    induction Ha as [|a0 aps0 Ha0 _ IHa]; [reflexivity|]. cbn [filter]. rewrite (Ha0 _ _ Hl), IHa. reflexivity.
  Qed.

  Lemma Forall2_length {A B} (R : A -> B -> Prop) xs ys : Forall2 R xs ys -> length xs = length ys.
  Proof. induction 1; cbn; congruence. Qed.

  Variable m : mode.
  Variable n : nat.
  Let rec := run E m n.
  Let rec' := run E m (n + D).
  Hypothesis IH : forall v x w, fp_ok v -> rec v x = OValid w -> rec' v w = OValid w.

  Lemma Hle : le_run rec rec'.
  Proof. intros v x H. apply run_mono; [lia | exact H]. Qed.

  Lemma rec_pos v x w : rec v x = OValid w -> exists n0, n = S n0.
  Proof. unfold rec. destruct n as [|n0]; [discriminate | eauto]. Qed.

  Lemma Forall2_fix item xs ws :
    fp_ok item -> Forall2 (fun xi w => rec item xi = OValid w) xs ws ->
    Forall2 (fun wi w => rec' item wi = OValid w) ws ws.
  Proof.
    intros Hi H. induction H as [|x w xs ws Hx _ IHf]; constructor; [eapply IH; eauto | exact IHf].
  Qed.

  Lemma scalar_fix self k co pre ps aps x w :
    (co = None \/ (co = default_coercer k /\ co <> None)) -> procs_stable (ktype k) pre ->
    scalar_body E self k co pre ps aps m x = OValid w ->
    scalar_body E self k co pre ps aps m w = OValid w.
  Proof.
    intros Hco Hst H. apply scalar_accept in H. destruct H as [Hs [y [Hg [Hp [Hps Haps]]]]].
    assert (Hy : exact_type y (ktype k) = true).
    { destruct Hco as [->|[-> Hne]].
      - apply gate_exact in Hg. destruct Hg as [Hx ->]. exact Hx.
      - destruct (default_coercer k) as [c|] eqn:Hd; [|congruence].
        apply gate_coerced in Hg. eapply default_coercer_typed; eauto. }
    destruct (Hst _ _ Hy Hp) as [Hw Hpw].
    apply scalar_accept. split; [exact Hs|]. exists w. repeat split; auto.
    destruct Hco as [->|[-> Hne]].
    - apply gate_exact. auto.
    - destruct (default_coercer k) as [c|] eqn:Hd; [|congruence]. apply gate_coerced.
      destruct k; cbn [default_coercer] in Hd; inversion Hd; subst; cbn [coerce_apply ktype] in *; rewrite Hw; reflexivity.
  Qed.

  Lemma obj_stage_none self obj : obj_stage E self m None None obj = OValid obj.
  Proof. unfold obj_stage. destruct m; reflexivity. Qed.

  (* the key loop on its own payload *)
  Lemma keys_payload_fix self keys data orig self' orig' :
    str_keys keys = true ->
    Forall (fun e => fp_ok (fst (snd e))) keys ->
    present_normal rec keys data ->
    key_errs_of rec self keys data orig = [] ->
    let P := key_payload_of rec AbsOmit keys data in
    has_unknown_key (map fst keys) P = false /\
    present_normal rec' keys P /\
    key_errs_of rec' self' keys P orig' = [] /\
    key_payload_of rec' AbsOmit keys P = P.
  Proof.
    intros Hsk Hf Hn He P. unfold str_keys in Hsk. apply andb_prop in Hsk. destruct Hsk as [Hs Hnd].
    assert (Hfix : forall k v req xv w, In (k, (v, req)) keys -> rec v xv = OValid w -> rec' v w = OValid w).
    { intros k v req xv w Hin Hr. rewrite Forall_forall in Hf. apply (IH v xv w (Hf _ Hin) Hr). }
    destruct (keys_fix rec rec' keys Hs Hnd data self orig Hn He Hfix self' orig' keys (fun e H => H)) as [H1 [H2 H3]].
    split; [apply (payload_no_unknown rec keys Hs data)|]. split; [exact H3|]. split; [exact H2 | exact H1].
  Qed.

  Lemma str_keys_names {A B} (l1 : list (pyval * A)) (l2 : list (pyval * B)) :
    map fst l1 = map fst l2 -> str_keys l2 = true -> str_keys l1 = true.
  Proof.
    unfold str_keys. intros Hm H. rewrite Hm.
    replace (forallb (fun e => is_vstr (fst e)) l1) with (forallb is_vstr (map fst l1)) by apply forallb_map'.
    rewrite Hm, forallb_map'. exact H.
  Qed.

  (* a key loop over a mapping that has every declared key with an accepted value *)
  Lemma keys_all_present (fs : list (pyval * pyval)) self orig : forall ks : list (pyval * (validator * bool)),
      (forall k v req, In (k, (v, req)) ks -> exists u, dict_get fs k = Some u /\ rec' v u = OValid u) ->
      key_payload_of rec' AbsOmit ks fs
      = map (fun e => (fst e, match dict_get fs (fst e) with Some u => u | None => VNone end)) ks /\
      key_errs_of rec' self ks fs orig = [] /\
      present_normal rec' ks fs.
  Proof.
    induction ks as [|[k [v req]] ks IHk]; intros Hall; [repeat split; constructor|].
    destruct (IHk (fun k0 v0 r0 Hin => Hall k0 v0 r0 (or_intror Hin))) as [H1 [H2 H3]].
    destruct (Hall k v req (or_introl eq_refl)) as [u [Hg Hu]].
    cbn [key_payload_of key_errs_of map fst]. cbv zeta. rewrite Hg, Hu, H1. repeat split; auto.
    constructor; [cbn [fst snd]; rewrite Hg, Hu; reflexivity | exact H3].
  Qed.

  Lemma class_fix_obj rk c schema strict data self orig :
    rk <> RkTyped ->
    str_keys schema = true ->
    Forall (fun e => fp_ok (fst (snd e))) schema ->
    map fst (cfields E c) = map fst schema ->
    Forall (fun fd => forall v req, In (fst fd, (v, req)) schema ->
                        match snd fd with
                        | Some d => forall m0, run E m0 D v d = OValid d
                        | None => req = true
                        end) (cfields E c) ->
    present_normal rec schema data ->
    key_errs_of rec self schema data orig = [] ->
    class_body E rec' (ClassV rk c schema None None strict None) rk c schema None None strict None m
               (construct E c (key_payload_of rec AbsOmit schema data))
    = OValid (construct E c (key_payload_of rec AbsOmit schema data)).
  Proof.
    intros Hrk Hsk Hsch Hnames Hdef Hn He.
    set (P := key_payload_of rec AbsOmit schema data).
    set (val := fun fd : pyval * option pyval =>
                  match dict_get P (fst fd) with
                  | Some v => v
                  | None => match snd fd with Some d => d | None => VNone end
                  end).
    set (fs := map (fun fd => (fst fd, val fd)) (cfields E c)).
    assert (Hcon : construct E c P = VObj c fs) by reflexivity.
    rewrite Hcon.
    pose proof Hsk as Hsk0. unfold str_keys in Hsk0. apply andb_prop in Hsk0. destruct Hsk0 as [Hs Hnd].
    pose proof (str_keys_names _ _ Hnames Hsk) as Hskc.
    assert (Hfix : forall k v req xv w, In (k, (v, req)) schema -> rec v xv = OValid w -> rec' v w = OValid w).
    { intros k v req xv w Hin Hr. rewrite Forall_forall in Hsch. apply (IH v xv w (Hsch _ Hin) Hr). }
    assert (Hfld : forall k v req, In (k, (v, req)) schema ->
                     exists fd, In fd (cfields E c) /\ fst fd = k /\ dict_get fs k = Some (val fd) /\ rec' v (val fd) = OValid (val fd)).
    { intros k v req Hin.
      assert (Hk : In k (map fst (cfields E c))) by (rewrite Hnames; apply (in_map fst _ _ Hin)).
      apply in_map_iff in Hk. destruct Hk as [fd [Hfk Hfd]]. exists fd. split; [exact Hfd|]. split; [exact Hfk|].
      split.
      - subst k. unfold fs. apply (dict_get_map_str val (cfields E c) fd Hskc Hfd).
      - unfold val. rewrite Hfk. destruct (dict_get P k) as [w0|] eqn:Hg.
        + eapply (payload_value_fix rec rec' schema Hs Hnd data); eauto.
        + rewrite Forall_forall in Hdef. pose proof (Hdef fd Hfd v req) as Hd0. rewrite Hfk in Hd0. specialize (Hd0 Hin).
          destruct (snd fd) as [d|].
          * apply (run_valid_mono E m D (n + D)); [lia | apply Hd0].
          * subst req. destruct (payload_required rec schema Hs Hnd data self orig Hn He k v Hin) as [w0 Hw0].
            fold P in Hw0. congruence. }
    destruct (keys_all_present fs (ClassV rk c schema None None strict None) (VDict fs) schema) as [H1 [H2 H3]].
    { intros k v req Hin. destruct (Hfld k v req Hin) as [fd [_ [_ [Hg Hr]]]]. exists (val fd). split; assumption. }
    apply class_accept. split; [reflexivity|]. exists (VDict fs), fs.
    split. { apply class_gate_plain. right. split; [exact Hrk|]. exists fs. split; reflexivity. }
    split; [reflexivity|].
    split.
    { intros _. unfold has_unknown_key. apply not_true_is_false. intros Hex. apply existsb_exists in Hex.
      destruct Hex as [[k u] [Hin Hneg]]. cbn [fst] in Hneg. apply negb_true_iff in Hneg.
      assert (Hk : In k (map fst schema)).
      { rewrite <- Hnames. unfold fs in Hin. apply in_map_iff in Hin. destruct Hin as [fd [Heq Hfd]].
        inversion Heq; subst. apply in_map. exact Hfd. }
      rewrite py_in_str in Hneg; [discriminate | | exact Hk].
      apply in_map_iff in Hk. destruct Hk as [e [<- He0]]. rewrite forallb_forall in Hs. apply (Hs _ He0). }
    split; [exact H3|]. split; [exact H2|].
    rewrite obj_stage_none. rewrite H1.
    assert (Hsame : construct E c (map (fun e : pyval * (validator * bool) =>
                       (fst e, match dict_get fs (fst e) with Some u => u | None => VNone end)) schema) = VObj c fs).
    { unfold construct. f_equal. unfold fs. apply map_ext_in. intros fd Hfd. f_equal.
      assert (Hk : In (fst fd) (map fst schema)) by (rewrite <- Hnames; apply in_map; exact Hfd).
      apply in_map_iff in Hk. destruct Hk as [[k [v req]] [Hke Hin]]. cbn [fst] in Hke. subst k.
      pose proof (dict_get_map_str (fun e : pyval * (validator * bool) =>
                     match dict_get fs (fst e) with Some u => u | None => VNone end) schema _ Hsk Hin) as Hg2.
      cbn [fst] in Hg2. fold fs. rewrite Hg2.
      pose proof (dict_get_map_str val (cfields E c) fd Hskc Hfd) as Hg3. fold fs in Hg3. rewrite Hg3. reflexivity. }
    destruct rk; try (exfalso; apply Hrk; reflexivity); rewrite Hsame; reflexivity.
  Qed.

  Theorem step_fix v x w : fp_ok v -> step E m rec v x = OValid w -> step E m rec' v w = OValid w.
  Proof.
    destruct v; cbn [step fp_ok]; intros Hf H; try contradiction.
    - destruct Hf as [Hco Hst]. eapply scalar_fix; eauto.
    - destruct co; [contradiction|]. unfold none_body in *. destruct x; inversion H. reflexivity.
    - (* EqualsV *)
      apply equals_accept in H. destruct H as [Hx [Hp He]]. destruct (Hf _ _ Hx Hp) as [Hw Hpw].
      apply equals_accept. auto.
    - inversion H; reflexivity.
    - destruct (isinstance (ckind E) x TDict) eqn:Hi; inversion H; subst. rewrite Hi. reflexivity.
    - (* ListV *)
      destruct co; [contradiction|]. destruct Hf as [Hi [Hp Ha]].
      apply (seq_accept E TList TList VList rec _ v ps aps None m x w VList_inj') in H.
      destruct H as [Hs [y [xs [ws [Hg [Hps [Hit [Hall ->]]]]]]]].
      apply gate_exact in Hg. destruct Hg as [Hx ->].
      assert (Hxl : x = VList xs).
      { unfold exact_type in Hx. destruct x; cbn in Hx; try discriminate. cbn in Hit. inversion Hit; reflexivity. }
      subst x.
      apply (seq_accept E TList TList VList rec' _ v ps aps None m (VList ws) (VList ws) VList_inj').
      split; [exact Hs|]. exists (VList ws), ws, ws. repeat split.
      + rewrite <- Hps. symmetry. apply all_failing_len; auto. eapply Forall2_length; eauto.
      + eapply Forall2_fix; eauto.
    - (* SetV *)
      destruct ps; try contradiction. destruct aps; try contradiction. destruct co; try contradiction.
      apply set_accept in H. destruct H as [Hs [y [xs [ws [Hg [Hps [Hit [Hall [Hh ->]]]]]]]]].
      set (p := set_payload [] ws).
      assert (Hin : forall w0, In w0 p -> In w0 ws).
      { intros w0 Hw0. unfold p, set_payload in Hw0. apply set_payload_in in Hw0. destruct Hw0 as [[]|Hw0]. exact Hw0. }
      apply set_accept. split; [exact Hs|]. exists (VSet p), p, p. repeat split.
      + unfold all_failing. cbn. destruct m; reflexivity.
      + assert (G : forall l, (forall w0, In w0 l -> In w0 ws) -> Forall2 (fun xi w => rec' v xi = OValid w) l l).
        { induction l as [|w0 l IHl]; intros Hl; constructor; [|apply IHl; intros w1 Hw1; apply Hl; right; exact Hw1].
          assert (Hw0 : In w0 ws) by (apply Hl; left; reflexivity).
          clear - Hall Hw0 IH Hf. induction Hall as [|xi wi xs0 ws0 Hx _ IHa]; [destruct Hw0|].
          destruct Hw0 as [<-|Hw0]; [eapply IH; eauto | apply IHa; exact Hw0]. }
        apply G. exact Hin.
      + apply Forall_forall. intros w0 Hw0. rewrite Forall_forall in Hh. apply Hh. apply Hin. exact Hw0.
      + unfold p, set_payload. rewrite set_payload_idem. reflexivity.
    - (* UTupleV *)
      destruct Hf as [Hco [Hi [Hp Ha]]].
      apply (seq_accept E TTuple TList VTuple rec _ v ps aps co m x w VTuple_inj') in H.
      destruct H as [Hs [y [xs [ws [Hg [Hps [Hit [Hall ->]]]]]]]].
      assert (Hy : y = VTuple xs).
      { destruct Hco as [->| ->].
        - apply gate_exact in Hg. destruct Hg as [Hx ->]. unfold exact_type in Hx.
          destruct x; cbn in Hx; try discriminate. cbn in Hit. inversion Hit; reflexivity.
        - apply gate_coerced in Hg. cbn [coerce_apply] in Hg.
          destruct x; inversion Hg; subst; cbn in Hit; inversion Hit; reflexivity. }
      subst y.
      apply (seq_accept E TTuple TList VTuple rec' _ v ps aps co m (VTuple ws) (VTuple ws) VTuple_inj').
      split; [exact Hs|]. exists (VTuple ws), ws, ws. repeat split.
      + destruct Hco as [->| ->]; reflexivity.
      + rewrite <- Hps. symmetry. apply all_failing_len; auto. eapply Forall2_length; eauto.
      + eapply Forall2_fix; eauto.
    - (* NTupleV *)
      destruct Hf as [Hco Hfs]. apply fp_all in Hfs.
      apply ntuple_accept in H. destruct H as [y [xs [ws [Hg [Hlen [Hit [Hall Hobj]]]]]]].
      assert (Hw : w = VTuple ws).
      { unfold obj_stage in Hobj. destruct (match vobj with Some id => uobj E id (VTuple ws) | None => None end); [discriminate|].
        destruct m; inversion Hobj; reflexivity. }
      subst w.
      assert (Hy : y = VTuple xs).
      { destruct Hco as [->| ->].
        - apply gate_exact in Hg. destruct Hg as [Hx ->]. unfold exact_type in Hx.
          destruct x; cbn in Hx; try discriminate. cbn in Hit. inversion Hit; reflexivity.
        - apply gate_coerced in Hg. cbn [coerce_apply] in Hg.
          destruct x; inversion Hg; subst; cbn in Hit; inversion Hit; reflexivity. }
      subst y.
      assert (Hl : length ws = length (combine fields xs)) by (symmetry; eapply Forall2_length; eauto).
      cbn [pred_eval py_len unsub pbind] in Hlen. inversion Hlen as [Hz]. apply Z.eqb_eq in Hz.
      unfold zlen in Hz. apply Nat2Z.inj in Hz.
      rewrite combine_length in Hl. rewrite Hz, Nat.min_id in Hl.
      apply ntuple_accept. exists (VTuple ws), ws, ws. repeat split.
      + destruct Hco as [->| ->]; reflexivity.
      + cbn [pred_eval py_len unsub pbind]. f_equal. apply Z.eqb_eq. unfold zlen. congruence.
      + clear - Hall Hfs IH. revert xs ws Hall. induction Hfs as [|f fs Hf0 _ IHf]; intros xs ws Hall.
        * cbn [combine] in *. inversion Hall; constructor.
        * destruct xs as [|x0 xs]; cbn [combine] in Hall; [inversion Hall; constructor|].
          inversion Hall as [|c w0 cs ws0 Hc Hrest]; subst. cbn [combine]. constructor.
          -- unfold callr in *; cbn [fst snd] in *. eapply IH; eauto.
          -- apply (IHf xs); exact Hrest.
      + exact Hobj.
    - (* MapV *)
      destruct ps; try contradiction. destruct aps; try contradiction. destruct co; try contradiction.
      destruct Hf as [Hfk Hfv].
      apply map_accept in H. destruct H as [Hs [y [kvs [pairs [Hg [Hps [Hd [Hall [Hh ->]]]]]]]]].
      set (d := map_payload [] pairs).
      assert (Hent : forall k0 v0, In (k0, v0) d -> In k0 (map fst pairs) /\ In v0 (map snd pairs)).
      { intros k0 v0 Hin. unfold d, map_payload in Hin. apply map_payload_entries in Hin. destruct Hin as [[[]|H1] [[]|H2]]. auto. }
      assert (Hkfix : forall k0, In k0 (map fst pairs) -> rec' v1 k0 = OValid k0).
      { clear - Hall IH Hfk. induction Hall as [|p q ps qs [Hk _] _ IHa]; intros k0 Hin; [destruct Hin|].
        destruct Hin as [<-|Hin]; [eapply IH; eauto | apply IHa; exact Hin]. }
      assert (Hvfix : forall v0, In v0 (map snd pairs) -> rec' v2 v0 = OValid v0).
      { clear - Hall IH Hfv. induction Hall as [|p q ps qs [_ Hv] _ IHa]; intros v0 Hin; [destruct Hin|].
        destruct Hin as [<-|Hin]; [eapply IH; eauto | apply IHa; exact Hin]. }
      assert (Hkh : forall k0, In k0 (map fst pairs) -> hashable (chashable E) k0 = true).
      { intros k0 Hin. apply in_map_iff in Hin. destruct Hin as [q [<- Hq]]. rewrite Forall_forall in Hh. apply (Hh q Hq). }
      apply map_accept. split; [exact Hs|]. exists (VDict d), d, d. repeat split.
      + unfold all_failing. cbn. destruct m; reflexivity.
      + assert (G : forall l, (forall k0 v0, In (k0, v0) l -> In (k0, v0) d) ->
                              Forall2 (fun p q => rec' v1 (fst p) = OValid (fst q) /\ rec' v2 (snd p) = OValid (snd q)) l l).
        { induction l as [|[k0 v0] l IHl]; intros Hl; constructor; [|apply IHl; intros k1 w1 Hw1; apply Hl; right; exact Hw1].
          destruct (Hent k0 v0 (Hl k0 v0 (or_introl eq_refl))) as [H1 H2]. cbn [fst snd]. split; [apply Hkfix | apply Hvfix]; assumption. }
        apply G. auto.
      + apply Forall_forall. intros [k0 v0] Hin. cbn [fst]. apply Hkh. apply (Hent k0 v0 Hin).
      + unfold d, map_payload. f_equal. symmetry.
        rewrite (map_payload_distinct (fold_left (fun d0 q => dict_set d0 (fst q) (snd q)) pairs []) []); [reflexivity|].
        apply map_payload_nodup. reflexivity.
    - (* DictAnyV *)
      destruct vobj; try contradiction. destruct avobj; try contradiction.
      destruct Hf as [Hsk Hkv]. apply fp_all_kv in Hkv.
      apply dictany_accept in H. destruct H as [_ [data [-> [_ [Hn [He Hobj]]]]]].
      rewrite obj_stage_none in Hobj. injection Hobj as <-.
      assert (Hsk' : str_keys (dictany_keys schema) = true).
      { unfold str_keys, dictany_keys in *. rewrite map_map. cbn [fst]. rewrite forallb_map'. exact Hsk. }
      assert (Hf' : Forall (fun e => fp_ok (fst (snd e))) (dictany_keys schema)).
      { unfold dictany_keys. apply Forall_map. cbn [fst snd]. exact Hkv. }
      destruct (keys_payload_fix _ _ _ _ (DictAnyV schema None None strict)
                  (VDict (key_payload_of rec AbsOmit (dictany_keys schema) data)) Hsk' Hf' Hn He) as [Hu [Hn' [He' Hp']]].
      apply dictany_accept. split; [reflexivity|]. eexists. split; [reflexivity|].
      assert (Hmk : map fst (dictany_keys schema) = map fst schema) by (unfold dictany_keys; rewrite map_map; reflexivity).
      split; [intros _; rewrite <- Hmk; exact Hu|]. split; [exact Hn'|]. split; [exact He'|].
      rewrite obj_stage_none, Hp'. reflexivity.
    - (* ClassV *)
      destruct vobj; try contradiction. destruct avobj; try contradiction. destruct co; try contradiction.
      destruct Hf as [Hsk [Hsch Hrk]]. apply fp_all_sch in Hsch.
      apply class_accept in H. destruct H as [_ [y [data [Hgate [Hd [_ [Hn [He Hobj]]]]]]]].
      rewrite obj_stage_none in Hobj. injection Hobj as <-.
      set (P := key_payload_of rec AbsOmit schema data) in *.
      pose proof Hsk as Hsk0. unfold str_keys in Hsk0. apply andb_prop in Hsk0. destruct Hsk0 as [Hs Hnd].
      assert (Hfix : forall k v req xv w, In (k, (v, req)) schema -> rec v xv = OValid w -> rec' v w = OValid w).
      { intros k v req xv w Hin Hr. rewrite Forall_forall in Hsch. apply (IH v xv w (Hsch _ Hin) Hr). }
      destruct rk.
      + (* dataclass *) destruct Hrk as [Hnames Hdef].
        apply (class_fix_obj RkData c schema strict data (ClassV RkData c schema None None strict None) y); auto; discriminate.
      + (* named tuple *) destruct Hrk as [Hnames Hdef].
        apply (class_fix_obj RkNamed c schema strict data (ClassV RkNamed c schema None None strict None) y); auto; discriminate.
      + (* typed dict *)
        destruct (keys_payload_fix (ClassV RkTyped c schema None None strict None) schema data y
                    (ClassV RkTyped c schema None None strict None) (VDict P) Hsk Hsch Hn He) as [Hu [Hn' [He' Hp']]].
        apply class_accept. split; [reflexivity|]. exists (VDict P), P. split; [reflexivity|]. split; [reflexivity|].
        split; [intros _; exact Hu|]. split; [exact Hn'|]. split; [exact He'|].
        rewrite obj_stage_none. fold P in Hp'. rewrite Hp'. reflexivity.
    - (* UnionV *)
      apply fp_all_id in Hf.
      pose proof H as H0. apply union_accept in H0. destruct H0 as [pre [v [post [-> [Hv Hpre]]]]].
      assert (Hid : identity_variant v) by (rewrite Forall_forall in Hf; apply Hf; apply in_or_app; right; left; reflexivity).
      assert (w = x) by (eapply Hid; exact Hv). subst w.
      pose proof (step_mono E m rec rec' (UnionV (pre ++ v :: post)) x Hle) as Hm. cbn [step] in Hm.
      rewrite Hm; [exact H | rewrite H; discriminate].
    - (* OptionalV *)
      destruct v1; try contradiction. destruct co; [contradiction|].
      pose proof H as H0. apply union_accept in H0. destruct H0 as [pre [v [post [Hvs [Hv Hpre]]]]].
      destruct (rec_pos _ _ _ Hv) as [n0 Hn0].
      assert (Hnone : forall y, rec' (NoneV None) y = none_body E (NoneV None) None y).
      { intros y. unfold rec'. rewrite Hn0. reflexivity. }
      destruct pre as [|p0 pre].
      + cbn [app] in Hvs. inversion Hvs; subst v post.
        assert (w = VNone).
        { unfold rec in Hv. rewrite Hn0 in Hv. cbn [run step] in Hv. unfold none_body in Hv. destruct x; inversion Hv; reflexivity. }
        subst w. apply union_accept. exists [], (NoneV None), [v2]. repeat split; auto.
        rewrite Hnone. reflexivity.
      + cbn [app] in Hvs. inversion Hvs as [[Hp0 Hrest]]. destruct pre; cbn [app] in Hrest; inversion Hrest; subst.
        2:{ destruct pre; discriminate. }
        pose proof (IH _ _ _ Hf Hv) as Hw.
        apply union_accept.
        destruct w.
        1:{ exists [], (NoneV None), [v]. repeat split; auto; try (rewrite Hnone; reflexivity). }
        all: (exists [NoneV None], v, []; repeat split; auto;
              constructor; [eexists; rewrite Hnone; reflexivity | constructor]).
    - (* MaybeV *)
      unfold maybe_body in *. destruct x; try discriminate.
      + destruct (rec v x) eqn:Hr; inversion H; subst. rewrite (IH _ _ _ Hf Hr). reflexivity.
      + inversion H; reflexivity.
    - (* LazyV *) eapply IH; eauto.
    - (* CacheV *) eapply IH; eauto.
  Qed.
End Fix.

Theorem run_fix_fuel E D :
  (forall k x y, oracle E k x = Some y -> exact_type y (otype k) = true) ->
  (forall r, fp_ok E D (lazy_env E r)) ->
  forall m fuel v x w, fp_ok E D v -> run E m fuel v x = OValid w -> run E m (fuel + D) v w = OValid w.
Proof.
  intros Ho Hl m. induction fuel as [|n IHn]; intros v x w Hf H; [discriminate|].
  cbn [run Nat.add] in *. eapply step_fix; eauto.
Qed.

(* without record-class defaults no extra fuel is needed *)
Theorem run_fix E :
  (forall k x y, oracle E k x = Some y -> exact_type y (otype k) = true) ->
  (forall r, fp_ok E 0 (lazy_env E r)) ->
  forall m fuel v x w, fp_ok E 0 v -> run E m fuel v x = OValid w -> run E m fuel v w = OValid w.
Proof.
  intros Ho Hl m fuel v x w Hf H. rewrite <- (Nat.add_0_r fuel) at 1. eapply run_fix_fuel; eauto.
Qed.

(* built-in processors are stable *)
Section Stable.
  Variable E : env.
  Lemma procs_stable_nil t : procs_stable E t [].
  Proof. intros y w Hy H. inversion H; subst. auto. Qed.

  Lemma exact_str y : exact_type y TStr = true -> exists s, y = VStr s.
  Proof. unfold exact_type. destruct y; cbn; try discriminate. eauto. Qed.
  Lemma exact_bytes y : exact_type y TBytes = true -> exists s, y = VBytes s.
  Proof. unfold exact_type. destruct y; cbn; try discriminate. eauto. Qed.

  Lemma procs_stable_strip_str : procs_stable E TStr [Strip].
  Proof.
    intros y w Hy H. destruct (exact_str y Hy) as [s ->]. cbn in H. inversion H; subst.
    split; [reflexivity|]. cbn. rewrite Proofs.Preds.strip_idempotent. reflexivity.
  Qed.
  Lemma procs_stable_strip_bytes : procs_stable E TBytes [Strip].
  Proof.
    intros y w Hy H. destruct (exact_bytes y Hy) as [s ->]. cbn in H. inversion H; subst.
    split; [reflexivity|]. cbn. rewrite Proofs.Preds.strip_idempotent. reflexivity.
  Qed.
  Lemma procs_stable_upper_bytes : procs_stable E TBytes [Upper].
  Proof.
    intros y w Hy H. destruct (exact_bytes y Hy) as [s ->]. cbn in H. inversion H; subst.
    split; [reflexivity|]. cbn. rewrite Proofs.Preds.upper_bytes_idempotent. reflexivity.
  Qed.
  Lemma procs_stable_lower_bytes : procs_stable E TBytes [Lower].
  Proof.
    intros y w Hy H. destruct (exact_bytes y Hy) as [s ->]. cbn in H. inversion H; subst.
    split; [reflexivity|]. cbn. rewrite Proofs.Preds.lower_bytes_idempotent. reflexivity.
  Qed.
End Stable.
