(* C17: validated output is a fixed point (proved on the fragment [fp_ok]; the remaining
   validator kinds are covered by the re-validation correspondence, see DESIGN.md). *)
From Coq Require Import ZArith List Bool Lia.
From KV Require Import Base.PyVal Base.Prims Model.Validator Model.Sem
     Proofs.Scalar Proofs.Calls Proofs.Collections Proofs.Wrappers Proofs.Total Proofs.Typed Proofs.Preds.
Import ListNotations.
Open Scope nat_scope.

Section Fix.
  Variable E : env.

  (* processors are idempotent on the target type and stay inside it *)
  Definition procs_stable (t : pytype) (pre : list processor) : Prop :=
    forall y w, exact_type y t = true -> procs_apply E pre y = Ok w ->
                exact_type w t = true /\ procs_apply E pre w = Ok w.

  (* container predicates that only look at the number of items *)
  Definition len_only (wrap : list pyval -> pyval) (p : predicate) : Prop :=
    forall xs ws, length xs = length ws -> pred_eval E p (wrap xs) = pred_eval E p (wrap ws).
  Definition alen_only (wrap : list pyval -> pyval) (a : apredicate) : Prop :=
    forall xs ws, length xs = length ws -> apred_eval E a (wrap xs) = apred_eval E a (wrap ws).

  (* union variants that return their input *)
  Definition identity_variant (v : validator) : Prop :=
    forall m n x w, run E m n v x = OValid w -> w = x.

  Fixpoint fp_ok (v : validator) : Prop :=
    let fix all (vs : list validator) : Prop :=
      match vs with [] => True | v :: r => fp_ok v /\ all r end in
    let fix all_id (vs : list validator) : Prop :=
      match vs with [] => True | v :: r => identity_variant v /\ all_id r end in
    match v with
    | Scalar k co pre ps aps =>
        (co = None \/ (co = default_coercer k /\ co <> None)) /\ procs_stable (ktype k) pre
    | NoneV None | AlwaysValid | IsDictV => True
    | EqualsV mt pre => procs_stable (type_of mt) pre
    | ListV item ps aps None =>
        fp_ok item /\ Forall (len_only VList) ps /\ Forall (alen_only VList) aps
    | UTupleV item ps aps co =>
        (co = None \/ co = Some CoTupleOrList) /\ fp_ok item /\
        Forall (len_only VTuple) ps /\ Forall (alen_only VTuple) aps
    | NTupleV fields _ co => (co = None \/ co = Some CoTupleOrList) /\ all fields
    | UnionV vs => all_id vs
    | OptionalV (NoneV None) b => fp_ok b
    | MaybeV a | CacheV a => fp_ok a
    | LazyV _ _ => True
    | _ => False
    end.

  Lemma fp_all vs :
    (fix all (vs : list validator) : Prop :=
       match vs with [] => True | v :: r => fp_ok v /\ all r end) vs -> Forall fp_ok vs.
  Proof. induction vs as [|v vs IH]; intros H; [constructor|]. destruct H. constructor; auto. Qed.

  Lemma fp_all_id vs :
    (fix all_id (vs : list validator) : Prop :=
       match vs with [] => True | v :: r => identity_variant v /\ all_id r end) vs ->
    Forall identity_variant vs.
  Proof. induction vs as [|v vs IH]; intros H; [constructor|]. destruct H. constructor; auto. Qed.

  Hypothesis oracle_typed : forall k x y, oracle E k x = Some y -> exact_type y (otype k) = true.
  Hypothesis Hlazy : forall r, fp_ok (lazy_env E r).

  Lemma all_failing_len wrap m ps aps xs ws :
    Forall (len_only wrap) ps -> Forall (alen_only wrap) aps -> length xs = length ws ->
    all_failing E m ps aps (wrap xs) = all_failing E m ps aps (wrap ws).
  Proof.
    intros Hp Ha Hl. unfold all_failing.
    assert (Hf : failing_preds E ps (wrap xs) = failing_preds E ps (wrap ws)).
    { induction Hp as [|p0 ps0 Hp0 _ IHp]; [reflexivity|]. cbn [failing_preds]. rewrite (Hp0 _ _ Hl), IHp. reflexivity. }
    rewrite Hf. destruct (failing_preds E ps (wrap ws)); cbn [pbind]; [|reflexivity].
    destruct m; [reflexivity|]. unfold failing_apreds. f_equal. f_equal. f_equal.
    induction Ha as [|a0 aps0 Ha0 _ IHa]; [reflexivity|]. cbn [filter]. rewrite (Ha0 _ _ Hl), IHa. reflexivity.
  Qed.

  Lemma Forall2_length {A B} (R : A -> B -> Prop) xs ys : Forall2 R xs ys -> length xs = length ys.
  Proof. induction 1; cbn; congruence. Qed.

  Variable m : mode.
  Variable n : nat.
  Let rec := run E m n.
  Hypothesis IH : forall v x w, fp_ok v -> rec v x = OValid w -> rec v w = OValid w.

  Lemma Forall2_fix item xs ws :
    fp_ok item -> Forall2 (fun xi w => rec item xi = OValid w) xs ws ->
    Forall2 (fun wi w => rec item wi = OValid w) ws ws.
  Proof.
    intros Hi H. induction H as [|x w xs ws Hx _ IHf]; constructor; [eapply IH; eauto | exact IHf].
  Qed.

  Lemma scalar_fix self k co pre ps aps x w :
    (co = None \/ (co = default_coercer k /\ co <> None)) -> procs_stable (ktype k) pre ->
    scalar_body E self k co pre ps aps m x = OValid w ->
    scalar_body E self k co pre ps aps m w = OValid w.
  Proof.
    intros Hco Hst H. apply scalar_accept in H. destruct H as [Hs [y [Hg [Hp [Hps Haps]]]]].
    assert (Hy : exact_type y (ktype k) = true).
    { destruct Hco as [->|[-> Hne]].
      - apply gate_exact in Hg. destruct Hg as [Hx ->]. exact Hx.
      - destruct (default_coercer k) as [c|] eqn:Hd; [|congruence].
        apply gate_coerced in Hg. eapply default_coercer_typed; eauto. }
    destruct (Hst _ _ Hy Hp) as [Hw Hpw].
    apply scalar_accept. split; [exact Hs|]. exists w. repeat split; auto.
    destruct Hco as [->|[-> Hne]].
    - apply gate_exact. auto.
    - destruct (default_coercer k) as [c|] eqn:Hd; [|congruence]. apply gate_coerced.
      destruct k; cbn [default_coercer] in Hd; inversion Hd; subst; cbn [coerce_apply ktype] in *; rewrite Hw; reflexivity.
  Qed.

  Theorem step_fix v x w : fp_ok v -> step E m rec v x = OValid w -> step E m rec v w = OValid w.
  Proof.
    destruct v; cbn [step fp_ok]; intros Hf H; try contradiction.
    - destruct Hf as [Hco Hst]. eapply scalar_fix; eauto.
    - destruct co; [contradiction|]. unfold none_body in *. destruct x; inversion H. reflexivity.
    - (* EqualsV *)
      apply equals_accept in H. destruct H as [Hx [Hp He]]. destruct (Hf _ _ Hx Hp) as [Hw Hpw].
      apply equals_accept. auto.
    - inversion H; reflexivity.
    - destruct (isinstance (ckind E) x TDict) eqn:Hi; inversion H; subst. rewrite Hi. reflexivity.
    - (* ListV *)
      destruct co; [contradiction|]. destruct Hf as [Hi [Hp Ha]].
      apply (seq_accept E TList TList VList rec _ v ps aps None m x w VList_inj') in H.
      destruct H as [Hs [y [xs [ws [Hg [Hps [Hit [Hall ->]]]]]]]].
      apply gate_exact in Hg. destruct Hg as [Hx ->].
      assert (Hxl : x = VList xs).
      { unfold exact_type in Hx. destruct x; cbn in Hx; try discriminate. cbn in Hit. inversion Hit; reflexivity. }
      subst x.
      apply (seq_accept E TList TList VList rec _ v ps aps None m (VList ws) (VList ws) VList_inj').
      split; [exact Hs|]. exists (VList ws), ws, ws. repeat split.
      + rewrite <- Hps. symmetry. apply all_failing_len; auto. eapply Forall2_length; eauto.
      + eapply Forall2_fix; eauto.
    - (* UTupleV *)
      destruct Hf as [Hco [Hi [Hp Ha]]].
      apply (seq_accept E TTuple TList VTuple rec _ v ps aps co m x w VTuple_inj') in H.
      destruct H as [Hs [y [xs [ws [Hg [Hps [Hit [Hall ->]]]]]]]].
      assert (Hy : y = VTuple xs).
      { destruct Hco as [->| ->].
        - apply gate_exact in Hg. destruct Hg as [Hx ->]. unfold exact_type in Hx.
          destruct x; cbn in Hx; try discriminate. cbn in Hit. inversion Hit; reflexivity.
        - apply gate_coerced in Hg. cbn [coerce_apply] in Hg.
          destruct x; inversion Hg; subst; cbn in Hit; inversion Hit; reflexivity. }
      subst y.
      apply (seq_accept E TTuple TList VTuple rec _ v ps aps co m (VTuple ws) (VTuple ws) VTuple_inj').
      split; [exact Hs|]. exists (VTuple ws), ws, ws. repeat split.
      + destruct Hco as [->| ->]; reflexivity.
      + rewrite <- Hps. symmetry. apply all_failing_len; auto. eapply Forall2_length; eauto.
      + eapply Forall2_fix; eauto.
    - (* NTupleV *)
      destruct Hf as [Hco Hfs]. apply fp_all in Hfs.
      apply ntuple_accept in H. destruct H as [y [xs [ws [Hg [Hlen [Hit [Hall Hobj]]]]]]].
      assert (Hw : w = VTuple ws).
      { unfold obj_stage in Hobj. destruct (match vobj with Some id => uobj E id (VTuple ws) | None => None end); [discriminate|].
        destruct m; inversion Hobj; reflexivity. }
      subst w.
      assert (Hy : y = VTuple xs).
      { destruct Hco as [->| ->].
        - apply gate_exact in Hg. destruct Hg as [Hx ->]. unfold exact_type in Hx.
          destruct x; cbn in Hx; try discriminate. cbn in Hit. inversion Hit; reflexivity.
        - apply gate_coerced in Hg. cbn [coerce_apply] in Hg.
          destruct x; inversion Hg; subst; cbn in Hit; inversion Hit; reflexivity. }
      subst y.
      assert (Hl : length ws = length (combine fields xs)) by (symmetry; eapply Forall2_length; eauto).
      cbn [pred_eval py_len unsub pbind] in Hlen. inversion Hlen as [Hz]. apply Z.eqb_eq in Hz.
      unfold zlen in Hz. apply Nat2Z.inj in Hz.
      rewrite combine_length in Hl. rewrite Hz, Nat.min_id in Hl.
      apply ntuple_accept. exists (VTuple ws), ws, ws. repeat split.
      + destruct Hco as [->| ->]; reflexivity.
      + cbn [pred_eval py_len unsub pbind]. f_equal. apply Z.eqb_eq. unfold zlen. congruence.
      + clear - Hall Hfs IH. revert xs ws Hall. induction Hfs as [|f fs Hf0 _ IHf]; intros xs ws Hall.
        * cbn [combine] in *. inversion Hall; constructor.
        * destruct xs as [|x0 xs]; cbn [combine] in Hall; [inversion Hall; constructor|].
          inversion Hall as [|c w0 cs ws0 Hc Hrest]; subst. cbn [combine]. constructor.
          -- unfold callr in *; cbn [fst snd] in *. eapply IH; eauto.
          -- apply (IHf xs); exact Hrest.
      + exact Hobj.
    - (* UnionV *)
      apply fp_all_id in Hf.
      pose proof H as H0. apply union_accept in H0. destruct H0 as [pre [v [post [-> [Hv Hpre]]]]].
      assert (Hid : identity_variant v) by (rewrite Forall_forall in Hf; apply Hf; apply in_or_app; right; left; reflexivity).
      assert (w = x) by (eapply Hid; exact Hv). subst w. exact H.
    - (* OptionalV *)
      destruct v1; try contradiction. destruct co; [contradiction|].
      pose proof H as H0. apply union_accept in H0. destruct H0 as [pre [v [post [Hvs [Hv Hpre]]]]].
      destruct pre as [|p0 pre].
      + cbn [app] in Hvs. inversion Hvs; subst.
        assert (w = VNone).
        { unfold rec in Hv. destruct n; [discriminate|]. cbn [run step] in Hv. unfold none_body in Hv. destruct x; inversion Hv; reflexivity. }
        subst w. apply union_accept. exists [], (NoneV None), [v2]. repeat split; auto.
        unfold rec. destruct n; [discriminate|]. reflexivity.
      + cbn [app] in Hvs. inversion Hvs as [[Hp0 Hrest]]. destruct pre; cbn [app] in Hrest; inversion Hrest; subst.
        2:{ destruct pre; discriminate. }
        pose proof (IH _ _ _ Hf Hv) as Hw.
        apply union_accept.
        destruct (rec (NoneV None) w) eqn:Hn.
        * assert (w0 = VNone /\ w = VNone) as [-> ->].
          { unfold rec in Hn. destruct n; [discriminate|]. cbn [run step] in Hn. unfold none_body in Hn. destruct w; inversion Hn; auto. }
          exists [], (NoneV None), [v]. repeat split; auto.
        * exists [NoneV None], v, []. repeat split; auto. constructor; [eexists; exact Hn | constructor].
        * exfalso. unfold rec in Hn. destruct n; [unfold rec in Hv; discriminate|]. cbn [run step] in Hn. unfold none_body in Hn. destruct w; discriminate.
        * exfalso. unfold rec in Hn. destruct n; [unfold rec in Hv; discriminate|]. cbn [run step] in Hn. unfold none_body in Hn. destruct w; discriminate.
        * exfalso. unfold rec in Hn, Hv. destruct n; [|cbn [run step] in Hn; unfold none_body in Hn; destruct w; discriminate]. discriminate.
    - (* MaybeV *)
      unfold maybe_body in *. destruct x; try discriminate.
      + destruct (rec v x) eqn:Hr; inversion H; subst. rewrite (IH _ _ _ Hf Hr). reflexivity.
      + inversion H; reflexivity.
    - (* LazyV *) eapply IH; eauto.
    - (* CacheV *) eapply IH; eauto.
  Qed.
End Fix.

Theorem run_fix E :
  (forall k x y, oracle E k x = Some y -> exact_type y (otype k) = true) ->
  (forall r, fp_ok E (lazy_env E r)) ->
  forall m fuel v x w, fp_ok E v -> run E m fuel v x = OValid w -> run E m fuel v w = OValid w.
Proof.
  intros Ho Hl m. induction fuel as [|n IHn]; intros v x w Hf H; [discriminate|].
  cbn [run] in *. eapply step_fix; eauto.
Qed.

(* built-in processors are stable *)
Section Stable.
  Variable E : env.
  Lemma procs_stable_nil t : procs_stable E t [].
  Proof. intros y w Hy H. inversion H; subst. auto. Qed.

  Lemma exact_str y : exact_type y TStr = true -> exists s, y = VStr s.
  Proof. unfold exact_type. destruct y; cbn; try discriminate. eauto. Qed.
  Lemma exact_bytes y : exact_type y TBytes = true -> exists s, y = VBytes s.
  Proof. unfold exact_type. destruct y; cbn; try discriminate. eauto. Qed.

  Lemma procs_stable_strip_str : procs_stable E TStr [Strip].
  Proof.
    intros y w Hy H. destruct (exact_str y Hy) as [s ->]. cbn in H. inversion H; subst.
    split; [reflexivity|]. cbn. rewrite Proofs.Preds.strip_idempotent. reflexivity.
  Qed.
  Lemma procs_stable_strip_bytes : procs_stable E TBytes [Strip].
  Proof.
    intros y w Hy H. destruct (exact_bytes y Hy) as [s ->]. cbn in H. inversion H; subst.
    split; [reflexivity|]. cbn. rewrite Proofs.Preds.strip_idempotent. reflexivity.
  Qed.
  Lemma procs_stable_upper_bytes : procs_stable E TBytes [Upper].
  Proof.
    intros y w Hy H. destruct (exact_bytes y Hy) as [s ->]. cbn in H. inversion H; subst.
    split; [reflexivity|]. cbn. rewrite Proofs.Preds.upper_bytes_idempotent. reflexivity.
  Qed.
  Lemma procs_stable_lower_bytes : procs_stable E TBytes [Lower].
  Proof.
    intros y w Hy H. destruct (exact_bytes y Hy) as [s ->]. cbn in H. inversion H; subst.
    split; [reflexivity|]. cbn. rewrite Proofs.Preds.lower_bytes_idempotent. reflexivity.
  Qed.
End Stable.
