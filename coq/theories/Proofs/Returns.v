(* C06 (second half): when no async-only check is configured, the synchronous call
   returns (it never raises the documented AssertionError). *)
From Coq Require Import ZArith List Bool Lia.
From KV Require Import Base.PyVal Base.Prims Model.Validator Model.Sem Proofs.Calls Proofs.Agree.
Import ListNotations.
Open Scope nat_scope.

(* where an abnormal collector result comes from *)
Definition from_outs (outs : list outcome) (o : outcome) : Prop :=
  In o outs \/ exists e, o = ORaise e.

Lemma collect_items_src i outs o : collect_items i outs = inl o -> from_outs outs o.
Proof. intros H. apply collect_items_abnormal in H. left; tauto. Qed.

Lemma collect_set_src E outs acc errs o : collect_set E outs acc errs = inl o -> from_outs outs o.
Proof.
  revert acc errs; induction outs as [|o' outs IH]; intros acc errs; cbn [collect_set]; [discriminate|].
  assert (Hr : forall a e, collect_set E outs a e = inl o -> from_outs (o' :: outs) o).
  { intros a e H. destruct (IH _ _ H) as [Hin|He]; [left; right; exact Hin | right; exact He]. }
  destruct o'; try (intros H; inversion H; left; left; reflexivity); try apply Hr.
  destruct errs; [|apply Hr]. destruct (hashable _ _); [apply Hr|].
  intros H; inversion H. right; eexists; reflexivity.
Qed.

Lemma collect_map_src E keys outs acc errs o :
  collect_map E keys outs acc errs = inl o -> from_outs outs o.
Proof.
  revert outs acc errs; induction keys as [|k keys IH]; intros outs acc errs; cbn [collect_map].
  - destruct outs; [discriminate | intros H; inversion H; right; eexists; reflexivity].
  - destruct outs as [|ko [|vo r]].
    + intros H; inversion H; right; eexists; reflexivity.
    + destruct (normal ko); intros H; inversion H; [right; eexists; reflexivity | left; left; reflexivity].
    + assert (Hr : forall a e, collect_map E keys r a e = inl o -> from_outs (ko :: vo :: r) o).
      { intros a e H. destruct (IH _ _ _ H) as [Hin|He]; [left; right; right; exact Hin | right; exact He]. }
      destruct ko; try (intros H; inversion H; left; left; reflexivity);
      destruct vo; try (intros H; inversion H; left; right; left; reflexivity); try apply Hr.
      destruct (hashable _ _); [apply Hr | intros H; inversion H; right; eexists; reflexivity].
Qed.

Lemma collect_keys_src self pol keys data orig outs o :
  collect_keys self pol keys data orig outs = inl o -> from_outs outs o.
Proof.
  revert outs; induction keys as [|[k [v req]] keys IH]; intros outs; cbn [collect_keys].
  - destruct outs; [discriminate | intros H; inversion H; right; eexists; reflexivity].
  - destruct (dict_get data k).
    + destruct outs as [|o' r]; [intros H; inversion H; right; eexists; reflexivity|].
      destruct o'; try (intros H; inversion H; left; left; reflexivity).
      * destruct (collect_keys self pol keys data orig r) as [o''|[? ?]] eqn:Hc; [|discriminate].
        intros H; inversion H; subst. destruct (IH _ Hc) as [Hin|He]; [left; right; exact Hin | right; exact He].
      * destruct (collect_keys self pol keys data orig r) as [o''|[? ?]] eqn:Hc; [|discriminate].
        intros H; inversion H; subst. destruct (IH _ Hc) as [Hin|He]; [left; right; exact Hin | right; exact He].
    + destruct (collect_keys self pol keys data orig outs) as [o''|[? ?]] eqn:Hc.
      * intros H; inversion H; subst. exact (IH _ Hc).
      * destruct req; [discriminate|]. destruct pol; discriminate.
Qed.

Lemma collect_union_src outs o : collect_union outs = inl o -> from_outs outs o.
Proof.
  induction outs as [|o' outs IH]; cbn [collect_union]; [discriminate|].
  destruct o'.
  - destruct outs; intros H; inversion H; [left; left; reflexivity | right; eexists; reflexivity].
  - destruct (collect_union outs) as [o''|?] eqn:Hc; [|discriminate].
    intros H; inversion H; subst. destruct (IH eq_refl) as [Hin|He]; [left; right; exact Hin | right; exact He].
  - intros H; inversion H; left; left; reflexivity.
  - intros H; inversion H; left; left; reflexivity.
  - intros H; inversion H; left; left; reflexivity.
Qed.

(* every element of run_calls is the result of one of the calls *)
Lemma run_calls_in s rec cs o :
  In o (run_calls s rec cs) -> exists c, In c cs /\ callr rec c = o.
Proof.
  induction cs as [|[v x] cs IH]; cbn [run_calls]; [intros []|].
  assert (Hr : In o (run_calls s rec cs) -> exists c, In c ((v, x) :: cs) /\ callr rec c = o).
  { intros H. destruct (IH H) as [c [Hin Hc]]. exists c. split; [right; exact Hin | exact Hc]. }
  destruct (rec v x) eqn:Hv.
  - destruct s.
    + intros [<-|[]]. exists (v, x). split; [left; reflexivity | exact Hv].
    + intros [<-|H]; [exists (v, x); split; [left; reflexivity | exact Hv] | exact (Hr H)].
  - intros [<-|H]; [exists (v, x); split; [left; reflexivity | exact Hv] | exact (Hr H)].
  - intros [<-|[]]. exists (v, x). split; [left; reflexivity | exact Hv].
  - intros [<-|[]]. exists (v, x). split; [left; reflexivity | exact Hv].
  - intros [<-|[]]. exists (v, x). split; [left; reflexivity | exact Hv].
Qed.

(* ---------- async_free on sub-validators ---------- *)

Lemma af_all vs :
  (fix all (vs : list validator) : bool :=
     match vs with [] => true | v :: r => async_free v && all r end) vs = true ->
  Forall (fun v => async_free v = true) vs.
Proof.
  induction vs as [|v vs IH]; intros H; [constructor|].
  apply andb_prop in H. destruct H. constructor; auto.
Qed.

Lemma af_allk (kvs : list (pyval * validator)) :
  (fix allk (kvs : list (pyval * validator)) : bool :=
     match kvs with [] => true | (_, v) :: r => async_free v && allk r end) kvs = true ->
  Forall (fun kv => async_free (snd kv) = true) kvs.
Proof.
  induction kvs as [|[k v] kvs IH]; intros H; [constructor|].
  apply andb_prop in H. destruct H. constructor; auto.
Qed.

Lemma af_allk2 (kvs : list (pyval * (validator * bool))) :
  (fix allk2 (kvs : list (pyval * (validator * bool))) : bool :=
     match kvs with [] => true | (_, (v, _)) :: r => async_free v && allk2 r end) kvs = true ->
  Forall (fun kv => async_free (fst (snd kv)) = true) kvs.
Proof.
  induction kvs as [|[k [v b]] kvs IH]; intros H; [constructor|].
  apply andb_prop in H. destruct H. constructor; auto.
Qed.

Section Returns.
  Variable E : env.
  Hypothesis Hlazy : forall r, async_free (lazy_env E r) = true.
  Hypothesis Huser : forall id flav x, uvalid E id flav Sync x <> OAssert.

  Variable rec : runner.
  Hypothesis IH : forall v x, async_free v = true -> rec v x <> OAssert.

  Lemma calls_no_assert s cs :
    Forall (fun c => async_free (fst c) = true) cs ->
    forall o, from_outs (run_calls s rec cs) o -> o <> OAssert.
  Proof.
    intros Hcs o [Hin|[e ->]]; [|discriminate].
    apply run_calls_in in Hin. destruct Hin as [[v x] [Hin <-]].
    rewrite Forall_forall in Hcs. apply IH. exact (Hcs _ Hin).
  Qed.

  Lemma obj_stage_no_assert self m vobj avobj obj : obj_stage E self m vobj avobj obj <> OAssert.
  Proof.
    unfold obj_stage. destruct (match vobj with Some id => uobj E id obj | None => None end); [discriminate|].
    destruct m; [discriminate|]. destruct avobj; [|discriminate]. destruct (uaobj E n obj); discriminate.
  Qed.

  Lemma pred_stage_no_assert self m ps aps y o : pred_stage E self m ps aps y = Some o -> o <> OAssert.
  Proof.
    unfold pred_stage. destruct (all_failing E m ps aps y) as [[|? ?]|?]; intros H; inversion H; discriminate.
  Qed.

  Lemma key_calls_free keys data :
    Forall (fun k => async_free (fst (snd k)) = true) keys ->
    Forall (fun c => async_free (fst c) = true) (key_calls keys data).
  Proof.
    induction keys as [|[k [v r]] keys IHk]; intros H; [constructor|].
    inversion H; subst. unfold key_calls. cbn [flat_map fst snd].
    destruct (dict_get data k); cbn [app]; [constructor; [assumption|]|]; apply IHk; assumption.
  Qed.

  Lemma keys_loop_no_assert self pol keys data orig o :
    Forall (fun k => async_free (fst (snd k)) = true) keys ->
    keys_loop rec self pol keys data orig = inl o -> o <> OAssert.
  Proof.
    unfold keys_loop. intros Hk H. apply collect_keys_src in H.
    eapply calls_no_assert; [apply key_calls_free; exact Hk | exact H].
  Qed.

  Theorem step_returns v x : async_free v = true -> step E Sync rec v x <> OAssert.
  Proof.
    destruct v; cbn [step]; intros Hf.
    - (* Scalar *)
      unfold scalar_body. cbn [async_free] in Hf. apply negb_true_iff in Hf. rewrite Hf. cbn [mode_eqb andb].
      destruct (gate E co (ktype k) (ktype k) x); [discriminate|].
      destruct (procs_apply E pre p); [|discriminate].
      destruct (all_failing E Sync ps aps a) as [[|? ?]|?]; discriminate.
    - unfold none_body. destruct co; [destruct (coerce_apply E c x)|destruct x]; discriminate.
    - unfold equals_body. destruct (exact_type x (type_of m)); [|discriminate].
      destruct (procs_apply E pre x); [|discriminate]. destruct (py_eq_p a m) as [[|]|]; discriminate.
    - discriminate.
    - destruct (isinstance (ckind E) x TDict); discriminate.
    - (* ListV *)
      cbn [async_free] in Hf. apply andb_prop in Hf. destruct Hf as [Ha Hi]. apply negb_true_iff in Ha.
      unfold list_body, seq_body. rewrite Ha. cbn [mode_eqb andb].
      destruct (gate E co TList TList x); [discriminate|].
      destruct (pred_stage E _ Sync ps aps p) eqn:Hp; [eapply pred_stage_no_assert; eauto|].
      destruct (py_iter p); [|discriminate].
      destruct (collect_items 0 _) as [o|[ws [|e errs]]] eqn:Hc; try discriminate.
      apply collect_items_src in Hc. eapply calls_no_assert; [|exact Hc].
      rewrite Forall_map. rewrite Forall_forall; intros; exact Hi.
    - (* SetV *)
      cbn [async_free] in Hf. apply andb_prop in Hf. destruct Hf as [Ha Hi]. apply negb_true_iff in Ha.
      unfold set_body. rewrite Ha. cbn [mode_eqb andb].
      destruct (gate E co TSet TSet x); [discriminate|].
      destruct (pred_stage E _ Sync ps aps p) eqn:Hp; [eapply pred_stage_no_assert; eauto|].
      destruct (py_iter p); [|discriminate].
      destruct (collect_set E _ [] []) as [o|[ws [|e errs]]] eqn:Hc; try discriminate.
      apply collect_set_src in Hc. eapply calls_no_assert; [|exact Hc].
      rewrite Forall_map. rewrite Forall_forall; intros; exact Hi.
    - (* UTupleV *)
      cbn [async_free] in Hf. apply andb_prop in Hf. destruct Hf as [Ha Hi]. apply negb_true_iff in Ha.
      unfold utuple_body, seq_body. rewrite Ha. cbn [mode_eqb andb].
      destruct (gate E co TTuple TList x); [discriminate|].
      destruct (pred_stage E _ Sync ps aps p) eqn:Hp; [eapply pred_stage_no_assert; eauto|].
      destruct (py_iter p); [|discriminate].
      destruct (collect_items 0 _) as [o|[ws [|e errs]]] eqn:Hc; try discriminate.
      apply collect_items_src in Hc. eapply calls_no_assert; [|exact Hc].
      rewrite Forall_map. rewrite Forall_forall; intros; exact Hi.
    - (* NTupleV *)
      cbn [async_free] in Hf. apply af_all in Hf.
      unfold ntuple_body. destruct (gate E co TTuple TList x); [discriminate|]. cbv zeta.
      destruct (pred_eval E _ p) as [[|]|]; try discriminate.
      destruct (py_iter p) as [xs|]; [|discriminate].
      destruct (collect_items 0 _) as [o|[ws [|e errs]]] eqn:Hc; try discriminate.
      + apply collect_items_src in Hc. eapply calls_no_assert; [|exact Hc].
        clear - Hf. revert xs. induction Hf as [|f fs Hf0 _ IHf]; intros [|x0 xs]; cbn [combine]; constructor; auto.
      + apply obj_stage_no_assert.
    - (* MapV *)
      cbn [async_free] in Hf. apply andb_prop in Hf. destruct Hf as [Hf Hv].
      apply andb_prop in Hf. destruct Hf as [Ha Hk]. apply negb_true_iff in Ha.
      unfold map_body. rewrite Ha. cbn [mode_eqb andb].
      destruct (gate E co TDict TDict x); [discriminate|].
      destruct (pred_stage E _ Sync ps aps p) eqn:Hp; [eapply pred_stage_no_assert; eauto|].
      destruct (as_dict p) as [kvs|]; [|discriminate].
      destruct (collect_map E _ _ [] []) as [o|[ws [|e errs]]] eqn:Hc; try discriminate.
      apply collect_map_src in Hc. eapply calls_no_assert; [|exact Hc].
      unfold map_calls. clear - Hk Hv. induction kvs as [|[k0 v0] kvs IHk]; cbn [flat_map app]; [constructor|].
      constructor; [exact Hk|]. constructor; [exact Hv | exact IHk].
    - (* RecordV *)
      cbn [async_free] in Hf. apply andb_prop in Hf. destruct Hf as [Ha Hk]. apply negb_true_iff in Ha.
      apply af_allk in Hk.
      unfold record_body. rewrite Ha. cbn [mode_eqb andb].
      destruct (negb (isinstance (ckind E) x TDict)); [discriminate|].
      destruct (as_dict x) as [data|]; [|discriminate].
      destruct (strict && has_unknown_key (map fst keys) data); [discriminate|].
      destruct (keys_loop rec _ AbsNothing (record_keys keys) data x) as [o|[ws [|e errs]]] eqn:Hc; try discriminate.
      + eapply keys_loop_no_assert; [|exact Hc]. unfold record_keys. rewrite Forall_map.
        rewrite Forall_forall in *. intros kv Hin. cbn [fst snd]. exact (Hk _ Hin).
      + apply obj_stage_no_assert.
    - (* DictAnyV *)
      cbn [async_free] in Hf. apply andb_prop in Hf. destruct Hf as [Ha Hk]. apply negb_true_iff in Ha.
      apply af_allk in Hk.
      unfold dictany_body. rewrite Ha. cbn [mode_eqb andb].
      destruct x; try discriminate.
      destruct (strict && has_unknown_key (map fst schema) kvs); [discriminate|].
      destruct (keys_loop rec _ AbsOmit (dictany_keys schema) kvs (VDict kvs)) as [o|[ws [|e errs]]] eqn:Hc; try discriminate.
      + eapply keys_loop_no_assert; [|exact Hc]. unfold dictany_keys. rewrite Forall_map.
        rewrite Forall_forall in *. intros kv Hin. cbn [fst snd]. specialize (Hk _ Hin).
        destruct (snd kv); cbn [unwrap_knr]; exact Hk.
      + apply obj_stage_no_assert.
    - (* ClassV *)
      cbn [async_free] in Hf. apply andb_prop in Hf. destruct Hf as [Ha Hk]. apply negb_true_iff in Ha.
      apply af_allk2 in Hk.
      unfold class_body. rewrite Ha. cbn [mode_eqb andb].
      destruct (class_gate E rk c co x); [discriminate|].
      destruct (as_dict p) as [data|]; [|discriminate].
      destruct (strict && has_unknown_key (map fst schema) data); [discriminate|].
      destruct (keys_loop rec _ AbsOmit schema data p) as [o|[ws [|e errs]]] eqn:Hc; try discriminate.
      + eapply keys_loop_no_assert; [|exact Hc]. exact Hk.
      + apply obj_stage_no_assert.
    - (* UnionV *)
      cbn [async_free] in Hf. apply af_all in Hf.
      unfold union_body. destruct (collect_union _) as [o|errs] eqn:Hc; [|discriminate].
      apply collect_union_src in Hc. eapply calls_no_assert; [|exact Hc].
      rewrite Forall_map. exact Hf.
    - (* OptionalV *)
      cbn [async_free] in Hf. apply andb_prop in Hf. destruct Hf as [H1 H2].
      unfold union_body. destruct (collect_union _) as [o|errs] eqn:Hc; [|discriminate].
      apply collect_union_src in Hc. eapply calls_no_assert; [|exact Hc].
      cbn [map]. repeat constructor; assumption.
    - (* MaybeV *)
      cbn [async_free] in Hf. unfold maybe_body. destruct x; try discriminate.
      pose proof (IH v x Hf) as Hn. destruct (rec v x); try discriminate. congruence.
    - (* LazyV *) apply IH. apply Hlazy.
    - (* KeyNotRequired *)
      cbn [async_free] in Hf. unfold knr_body.
      pose proof (IH v x Hf) as Hn. destruct (rec v x); try discriminate. congruence.
    - (* CacheV *) cbn [async_free] in Hf. apply IH. exact Hf.
    - apply Huser.
  Qed.
End Returns.

Theorem run_returns E :
  (forall r, async_free (lazy_env E r) = true) ->
  (forall id flav x, uvalid E id flav Sync x <> OAssert) ->
  forall fuel v x, async_free v = true -> run E Sync fuel v x <> OAssert.
Proof.
  intros Hl Hu. induction fuel as [|n IHn]; intros v x Hf; [discriminate|].
  cbn [run]. apply step_returns; auto.
Qed.
