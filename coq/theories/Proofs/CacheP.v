(* C20: caching wrappers are transparent over any history and any interleaving. *)
From Coq Require Import ZArith List Bool Lia.
From KV Require Import Base.PyVal Base.Prims Model.Validator Model.Sem Model.Cache.
Import ListNotations.
Open Scope nat_scope.

Section CacheP.
  Variable validate : mode -> pyval -> outcome.
  Variable key_eq : pyval -> pyval -> bool.

  (* a faithful store: a lookup only ever returns what was stored for that very input *)
  Hypothesis key_sound : forall a b, key_eq a b = true -> a = b.

  (* every stored pair was computed by the wrapped validator for its key *)
  Definition Inv (s : store) : Prop :=
    forall x r, In (x, r) s -> exists m, validate m x = r /\ normal r = true.

  Lemma lookup_sound s x r : Inv s -> lookup key_eq s x = Some r -> exists m, validate m x = r /\ normal r = true.
  Proof.
    intros HI. unfold lookup. destruct (find _ s) as [[k v]|] eqn:Hf; [|discriminate].
    intros H; inversion H; subst. apply find_some in Hf. destruct Hf as [Hin Hk].
    cbn [fst] in Hk. apply key_sound in Hk. subst k. cbn [snd]. exact (HI _ _ Hin).
  Qed.

  Lemma Inv_nil : Inv [].
  Proof. intros x r []. Qed.

  Lemma Inv_app s x r m : Inv s -> validate m x = r -> normal r = true -> Inv (s ++ [(x, r)]).
  Proof.
    intros HI Hv Hn y q Hin. apply in_app_or in Hin. destruct Hin as [Hin|[Heq|[]]]; [exact (HI _ _ Hin)|].
    inversion Heq; subst. exists m; auto.
  Qed.

  (* one call: the result is the wrapped validator's, the validator runs exactly on a miss,
     a miss stores exactly the pair it computed (Invalid like Valid), a hit stores nothing *)
  Theorem cache_call_spec s m x s' r ev :
    Inv s -> cache_call validate key_eq s m x = (s', r, ev) ->
    Inv s' /\
    (exists m', validate m' x = r) /\
    ((lookup key_eq s x = Some r /\ s' = s /\ ev = [EGet x true]) \/
     (lookup key_eq s x = None /\ r = validate m x /\
      ((normal r = true /\ s' = s ++ [(x, r)] /\ ev = [EGet x false; ERun m x; ESet x r]) \/
       (normal r = false /\ s' = s /\ ev = [EGet x false; ERun m x])))).
  Proof.
    intros HI. unfold cache_call. destruct (lookup key_eq s x) as [r0|] eqn:Hl.
    - intros H; inversion H; subst. destruct (lookup_sound _ _ _ HI Hl) as [m' [Hm' _]].
      split; [exact HI|]. split; [exists m'; exact Hm'|]. left; auto.
    - destruct (normal (validate m x)) eqn:Hn; intros H; inversion H; subst.
      + split; [eapply Inv_app; eauto|]. split; [exists m; reflexivity|]. right. repeat split; auto.
      + split; [exact HI|]. split; [exists m; reflexivity|]. right. repeat split; auto.
  Qed.

  (* when both entry points of the wrapped validator agree, every call of every history
     returns exactly what the wrapped validator returns for that input *)
  Hypothesis mode_indep : forall x, validate Sync x = validate Async x.

  Lemma validate_any m m' x : validate m x = validate m' x.
  Proof. destruct m, m'; auto; rewrite mode_indep; reflexivity. Qed.

  Theorem history_transparent ops : forall s s' rs evs,
    Inv s -> history validate key_eq s ops = (s', rs, evs) ->
    Inv s' /\ rs = map (fun op => validate (fst op) (snd op)) ops /\ length evs = length ops.
  Proof.
    induction ops as [|[m x] ops IH]; intros s s' rs evs HI H; cbn [history] in H.
    - inversion H; subst. repeat split; auto.
    - destruct (cache_call validate key_eq s m x) as [[s1 r] ev] eqn:Hc.
      destruct (history validate key_eq s1 ops) as [[s2 rs2] evs2] eqn:Hh.
      inversion H; subst; clear H.
      destruct (cache_call_spec _ _ _ _ _ _ HI Hc) as [HI1 [[m' Hm'] _]].
      destruct (IH _ _ _ _ HI1 Hh) as [HI2 [Hrs Hlen]].
      split; [exact HI2|]. split; [|cbn [length]; congruence].
      cbn [map fst snd]. rewrite <- Hrs. f_equal. rewrite <- Hm'. apply validate_any.
  Qed.

  (* the wrapped validator runs once per miss and never on a hit *)
  Definition runs (ev : list event) : nat :=
    length (filter (fun e => match e with ERun _ _ => true | _ => false end) ev).
  Definition is_hit (ev : list event) : bool :=
    match ev with [EGet _ true] => true | _ => false end.

  Theorem call_runs_iff_miss s m x s' r ev :
    cache_call validate key_eq s m x = (s', r, ev) ->
    (is_hit ev = true /\ runs ev = 0 /\ s' = s) \/ (is_hit ev = false /\ runs ev = 1).
  Proof.
    unfold cache_call. destruct (lookup key_eq s x).
    - intros H; inversion H; subst. left; repeat split.
    - destruct (normal (validate m x)); intros H; inversion H; subst; right; split; reflexivity.
  Qed.

  (* ---------- interleavings ---------- *)

  Definition task_ok (t : task) : Prop :=
    match tst t with
    | TStart | TMiss => True
    | TVal r => r = validate Async (tin t) /\ normal r = true
    | TDone r => exists m, validate m (tin t) = r
    | TRaised r => r = validate Async (tin t)
    end.

  Lemma tstep_preserves s t s' t' :
    Inv s -> task_ok t -> tstep validate key_eq s t = (s', t') ->
    Inv s' /\ task_ok t' /\ tin t' = tin t.
  Proof.
    intros HI Ht. unfold tstep. destruct (tst t) eqn:Hs.
    - destruct (lookup key_eq s (tin t)) as [r|] eqn:Hl; intros H; inversion H; subst; cbn.
      + destruct (lookup_sound _ _ _ HI Hl) as [m [Hm _]].
        split; [exact HI|]. split; [|reflexivity]. unfold task_ok; cbn. exists m; exact Hm.
      + split; [exact HI|]. split; [|reflexivity]. unfold task_ok; cbn. exact I.
    - intros H; inversion H; subst; cbn. split; [exact HI|]. split; [|reflexivity].
      unfold task_ok; cbn. destruct (normal (validate Async (tin t))) eqn:Hn; cbn; auto.
    - intros H; inversion H; subst; cbn. unfold task_ok in Ht. rewrite Hs in Ht. destruct Ht as [Hr Hn].
      split; [eapply Inv_app; eauto|]. split; [|reflexivity].
      unfold task_ok; cbn. exists Async. auto.
    - intros H; inversion H; subst. repeat split; auto.
    - intros H; inversion H; subst. repeat split; auto.
  Qed.

  Lemma Forall_update_nth {A} (P : A -> Prop) n a l :
    Forall P l -> P a -> Forall P (update_nth n a l).
  Proof.
    revert n; induction l as [|x l IH]; intros n Hl Ha; [destruct n; constructor|].
    inversion Hl; subst. destruct n; cbn [update_nth]; constructor; auto.
  Qed.

  Lemma map_tin_update_nth n t' ts t :
    nth_error ts n = Some t -> tin t' = tin t ->
    map tin (update_nth n t' ts) = map tin ts.
  Proof.
    revert n; induction ts as [|x ts IH]; intros n Hn He; [destruct n; discriminate|].
    destruct n; cbn in *.
    - inversion Hn; subst. rewrite He. reflexivity.
    - f_equal. apply IH; auto.
  Qed.

  (* for every schedule - any interleaving of any number of tasks at their suspension
     points - the store invariant holds and every task keeps its own input and result *)
  Theorem schedule_safe sc : forall s ts s' ts',
    Inv s -> Forall task_ok ts -> schedule validate key_eq s ts sc = (s', ts') ->
    Inv s' /\ Forall task_ok ts' /\ map tin ts' = map tin ts.
  Proof.
    induction sc as [|i sc IH]; intros s ts s' ts' HI Hts H; cbn [schedule] in H.
    - inversion H; subst. auto.
    - destruct (nth_error ts i) as [t|] eqn:Hn; [|eapply IH; eauto].
      destruct (tstep validate key_eq s t) as [s1 t1] eqn:Hst.
      assert (Ht : task_ok t) by (rewrite Forall_forall in Hts; apply Hts; eapply nth_error_In; eauto).
      destruct (tstep_preserves _ _ _ _ HI Ht Hst) as [HI1 [Ht1 Hin]].
      destruct (IH _ _ _ _ HI1 (Forall_update_nth _ _ _ _ Hts Ht1) H) as [HI2 [Hts2 Hm]].
      repeat split; auto. rewrite Hm. eapply map_tin_update_nth; eauto.
  Qed.

  (* every call that returned, returned what the wrapped validator returns for its own input *)
  Corollary interleaved_transparent sc xs s' ts' :
    schedule validate key_eq [] (map (fun x => {| tin := x; tst := TStart |}) xs) sc = (s', ts') ->
    map tin ts' = xs /\
    forall t r, In t ts' -> tst t = TDone r -> r = validate Async (tin t).
  Proof.
    intros H.
    assert (Hts : Forall task_ok (map (fun x => {| tin := x; tst := TStart |}) xs)).
    { rewrite Forall_map. rewrite Forall_forall. intros; exact I. }
    destruct (schedule_safe _ _ _ _ _ Inv_nil Hts H) as [_ [Hok Hm]].
    split; [rewrite Hm, map_map; cbn; apply map_id|].
    intros t r Hin Hd. rewrite Forall_forall in Hok. specialize (Hok _ Hin). unfold task_ok in Hok.
    rewrite Hd in Hok. destruct Hok as [m Hm']. rewrite <- Hm'. apply validate_any.
  Qed.
End CacheP.
