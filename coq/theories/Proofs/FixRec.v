(* C17, record-shaped validators: validating the payload of a key loop again finds every
   declared key it produced, accepts it, and rebuilds the same payload. *)
From Coq Require Import ZArith List Bool Lia.
From KV Require Import Base.PyVal Base.Prims Model.Validator Model.Sem
     Proofs.Scalar Proofs.Calls Proofs.Records Proofs.EqP Proofs.EqbSound Proofs.DeriveR.
Import ListNotations.
Open Scope nat_scope.

Definition str_keys {A} (l : list (pyval * A)) : bool :=
  forallb (fun e => is_vstr (fst e)) l && names_nodup (map fst l).

Lemma forallb_map' {A B} (f : A -> B) (p : B -> bool) l : forallb p (map f l) = forallb (fun x => p (f x)) l.
Proof. induction l as [|x l IH]; cbn; [reflexivity|]. rewrite IH. reflexivity. Qed.

Lemma names_nodup_notin k r : negb (existsb (pyval_eqb k) r) = true -> ~ In k r.
Proof.
  intros H Hin. apply negb_true_iff in H.
  assert (Ht : existsb (pyval_eqb k) r = true) by (apply existsb_exists; exists k; split; [exact Hin | apply pyval_eqb_refl]).
  congruence.
Qed.

Lemma dict_get_notin (l : list (pyval * pyval)) k :
  forallb (fun e => is_vstr (fst e)) l = true -> ~ In k (map fst l) -> dict_get l k = None.
Proof.
  induction l as [|[k0 v0] l IH]; intros Hs Hn; [reflexivity|].
  cbn [forallb fst] in Hs. apply andb_prop in Hs. destruct Hs as [Hk0 Hs]. cbn [dict_get].
  rewrite (py_eq_str_neq k0 k Hk0) by (intros ->; apply Hn; left; reflexivity).
  apply IH; [exact Hs | intros Hin; apply Hn; right; exact Hin].
Qed.

Lemma dict_get_map_str {A} (f : pyval * A -> pyval) (l : list (pyval * A)) e :
  str_keys l = true -> In e l -> dict_get (map (fun x => (fst x, f x)) l) (fst e) = Some (f e).
Proof.
  unfold str_keys. intros H Hin. apply andb_prop in H. destruct H as [Hs Hn].
  induction l as [|e0 l IH]; [destruct Hin|].
  cbn [forallb] in Hs. apply andb_prop in Hs. destruct Hs as [Hk0 Hs].
  cbn [map names_nodup] in Hn. apply andb_prop in Hn. destruct Hn as [Hh Hn].
  cbn [map dict_get fst]. destruct Hin as [->|Hin].
  - rewrite (py_eq_str_refl _ Hk0). reflexivity.
  - rewrite (py_eq_str_neq (fst e0) (fst e) Hk0).
    + apply IH; assumption.
    + intros Heq. apply (names_nodup_notin _ _ Hh). rewrite Heq. apply in_map. exact Hin.
Qed.

Lemma py_in_str k l : is_vstr k = true -> In k l -> py_in k l = true.
Proof.
  intros Hk Hin. unfold py_in. apply existsb_exists. exists k. split; [exact Hin | apply py_eq_str_refl; exact Hk].
Qed.

Section KeysFix.
  Variables rec rec' : runner.
  Variable keys : list (pyval * (validator * bool)).
  Hypothesis Hstr : forallb (fun e => is_vstr (fst e)) keys = true.
  Hypothesis Hnd : names_nodup (map fst keys) = true.
  Variable data : list (pyval * pyval).
  Variable self : validator.
  Variable orig : pyval.
  Hypothesis Hn : present_normal rec keys data.
  Hypothesis He : key_errs_of rec self keys data orig = [].
  Hypothesis Hfix : forall k v req xv w, In (k, (v, req)) keys -> rec v xv = OValid w -> rec' v w = OValid w.

  Let P := key_payload_of rec AbsOmit keys data.

  Lemma payload_keys_str ks : forallb (fun e => is_vstr (fst e)) ks = true ->
    forallb (fun e => is_vstr (fst e)) (key_payload_of rec AbsOmit ks data) = true.
  Proof.
    induction ks as [|[k [v req]] ks IH]; intros Hs; [reflexivity|].
    cbn [forallb fst] in Hs. apply andb_prop in Hs. destruct Hs as [Hk Hs]. cbn [key_payload_of]. cbv zeta.
    destruct (dict_get data k) as [xv|].
    - destruct (rec v xv); try (apply IH; exact Hs). cbn [forallb fst]. rewrite Hk. apply IH; exact Hs.
    - destruct req; apply IH; exact Hs.
  Qed.

  Lemma payload_get : forall ks,
      forallb (fun e => is_vstr (fst e)) ks = true -> names_nodup (map fst ks) = true ->
      forall k v req, In (k, (v, req)) ks ->
        dict_get (key_payload_of rec AbsOmit ks data) k =
        match dict_get data k with
        | Some xv => match rec v xv with OValid w => Some w | _ => None end
        | None => None
        end.
  Proof.
    induction ks as [|[k0 [v0 r0]] ks IH]; intros Hs Hnn k v req Hin; [destruct Hin|].
    cbn [forallb fst] in Hs. apply andb_prop in Hs. destruct Hs as [Hk0 Hs].
    cbn [map fst names_nodup] in Hnn. apply andb_prop in Hnn. destruct Hnn as [Hh Hnn].
    pose proof (names_nodup_notin _ _ Hh) as Hnot.
    assert (Hrest0 : dict_get (key_payload_of rec AbsOmit ks data) k0 = None).
    { apply dict_get_notin; [apply payload_keys_str; exact Hs|].
      intros Hin0. apply in_map_iff in Hin0. destruct Hin0 as [[k1 w1] [Hk1 Hin1]]. cbn [fst] in Hk1. subst k1.
      apply Hnot. eapply key_payload_declared; exact Hin1. }
    cbn [key_payload_of]. cbv zeta.
    destruct Hin as [Hin|Hin].
    - inversion Hin; subst k0 v0 r0. destruct (dict_get data k) as [xv|].
      + destruct (rec v xv); try exact Hrest0. cbn [dict_get]. rewrite (py_eq_str_refl _ Hk0). reflexivity.
      + destruct req; exact Hrest0.
    - assert (Hne : py_eq k0 k = false).
      { apply py_eq_str_neq; [exact Hk0|]. intros ->. apply Hnot. apply (in_map fst _ _ Hin). }
      pose proof (IH Hs Hnn k v req Hin) as Hi.
      destruct (dict_get data k0) as [xv0|].
      + destruct (rec v0 xv0); try exact Hi. cbn [dict_get]. rewrite Hne. exact Hi.
      + destruct r0; exact Hi.
  Qed.

  (* what no key error and no abnormal child say about one declared key *)
  Lemma entry_ok k v req : In (k, (v, req)) keys ->
    match dict_get data k with
    | Some xv => exists w, rec v xv = OValid w
    | None => req = false
    end.
  Proof.
    intros Hin. pose proof (proj1 (key_errs_nil rec self keys data orig) He) as Hf.
    rewrite Forall_forall in Hf. specialize (Hf _ Hin). cbn [fst snd] in Hf.
    unfold present_normal in Hn. rewrite Forall_forall in Hn. specialize (Hn _ Hin). cbn [fst snd] in Hn.
    destruct (dict_get data k) as [xv|]; [|exact Hf].
    destruct (rec v xv) as [w|i| | |] eqn:Er; try discriminate; [exists w; reflexivity|].
    exfalso. apply (Hf i). reflexivity.
  Qed.

  Lemma keys_fix self' orig' : forall ks, (forall e, In e ks -> In e keys) ->
    key_payload_of rec' AbsOmit ks P = key_payload_of rec AbsOmit ks data /\
    key_errs_of rec' self' ks P orig' = [] /\
    present_normal rec' ks P.
  Proof.
    induction ks as [|[k [v req]] ks IH]; intros Hsub; [repeat split; constructor|].
    destruct (IH (fun e He0 => Hsub e (or_intror He0))) as [IH1 [IH2 IH3]].
    assert (Hin : In (k, (v, req)) keys) by (apply Hsub; left; reflexivity).
    pose proof (payload_get keys Hstr Hnd k v req Hin) as Hg. fold P in Hg.
    pose proof (entry_ok k v req Hin) as Hok.
    cbn [key_payload_of key_errs_of]. cbv zeta. unfold present_normal.
    destruct (dict_get data k) as [xv|].
    - destruct Hok as [w Hw]. rewrite Hw in Hg |- *. rewrite Hg.
      rewrite (Hfix k v req xv w Hin Hw). rewrite IH1. repeat split; auto.
      constructor; [cbn [fst snd]; rewrite Hg, (Hfix k v req xv w Hin Hw); reflexivity | exact IH3].
    - subst req. rewrite Hg. repeat split; auto.
      constructor; [cbn [fst snd]; rewrite Hg; exact I | exact IH3].
  Qed.

  Lemma payload_no_unknown : has_unknown_key (map fst keys) P = false.
  Proof.
    unfold has_unknown_key. apply not_true_is_false. intros H. apply existsb_exists in H.
    destruct H as [[k w] [Hin Hneg]]. cbn [fst] in Hneg. apply negb_true_iff in Hneg.
    assert (Hk : In k (map fst keys)) by (eapply key_payload_declared; exact Hin).
    rewrite py_in_str in Hneg; [discriminate | | exact Hk].
    apply in_map_iff in Hk. destruct Hk as [e [<- He0]]. rewrite forallb_forall in Hstr. apply (Hstr _ He0).
  Qed.

  (* a required key is in the payload *)
  Lemma payload_required k v : In (k, (v, true)) keys -> exists w, dict_get P k = Some w.
  Proof.
    intros Hin. pose proof (payload_get keys Hstr Hnd k v true Hin) as Hg. fold P in Hg.
    pose proof (entry_ok k v true Hin) as Hok.
    destruct (dict_get data k) as [xv|]; [|discriminate].
    destruct Hok as [w Hw]. rewrite Hw in Hg. exists w. exact Hg.
  Qed.

  (* every payload value is accepted unchanged by its own validator *)
  Lemma payload_value_fix k v req w : In (k, (v, req)) keys -> dict_get P k = Some w -> rec' v w = OValid w.
  Proof.
    intros Hin Hg. unfold P in Hg. rewrite (payload_get keys Hstr Hnd k v req Hin) in Hg.
    destruct (dict_get data k) as [xv|]; [|discriminate].
    destruct (rec v xv) eqn:Er; try discriminate. injection Hg as ->. eapply Hfix; eauto.
  Qed.
End KeysFix.
