(* C07, completeness in default mode (coercing validators): on the fragment where no coerced value
   is hashed (set members and dict keys are annotated with types nothing is coerced into), the
   derived validator answers every well-formed value normally, accepts every value of the annotated
   type, and returns it unchanged wherever no earlier union variant can coerce it ([dident]). *)
From Coq Require Import ZArith List Bool Lia.
From KV Require Import Base.PyVal Base.Prims Model.Validator Model.Sem Model.Derive
     Proofs.Scalar Proofs.Calls Proofs.Collections Proofs.Records Proofs.Wrappers Proofs.EqP Proofs.EqbSound
     Proofs.DeriveP Proofs.DeriveR Proofs.FixRec Proofs.DeriveC.
Import ListNotations.
Open Scope nat_scope.

(* nothing is coerced anywhere below: the default-mode validator is the signature-mode one *)
Fixpoint rigid (a : ann) : bool :=
  match a with
  | AScalar k => match default_co false k with None => true | Some _ => false end
  | ANakedTuple | ATupleU _ | ATupleN _ | ARecord _ _ _ => false
  | AList x | ASet x | AMaybe x | AQual x => rigid x
  | ADict k v => rigid k && rigid v
  | AUnion l => forallb rigid l
  | _ => true
  end.

Lemma many_of_ext (f g : ann -> pres validator) l :
  Forall (fun a => f a = g a) l -> many_of f l = many_of g l.
Proof.
  induction 1 as [|a l Ha _ IH]; [reflexivity|]. cbn [many_of]. fold (many_of f). fold (many_of g). rewrite Ha, IH. reflexivity.
Qed.

Lemma rigid_derive : forall a, rigid a = true -> derive false a = derive true a.
Proof.
  induction a using ann_ind'; cbn [rigid]; intros R; try reflexivity; try discriminate.
  - destruct k; cbn in R; try discriminate; reflexivity.
  - cbn [derive]. rewrite (IHa R). reflexivity.
  - cbn [derive]. rewrite (IHa R). reflexivity.
  - apply andb_prop in R. destruct R as [R1 R2]. cbn [derive]. rewrite (IHa1 R1), (IHa2 R2). reflexivity.
  - destruct l as [|a0 l0]; [reflexivity|].
    change (pbind (many_of (derive false) (a0 :: l0)) (fun vs => Ok (UnionV vs))
            = pbind (many_of (derive true) (a0 :: l0)) (fun vs => Ok (UnionV vs))).
    rewrite (many_of_ext (derive false) (derive true) (a0 :: l0)); [reflexivity|].
    rewrite Forall_forall in H |- *. intros a Hin. apply H; [exact Hin|]. rewrite forallb_forall in R. apply R; exact Hin.
  - cbn [derive]. rewrite (IHa R). reflexivity.
  - cbn [derive]. apply IHa; exact R.
Qed.

(* the fragment: [cplain], and what gets hashed is never a coerced value *)
Fixpoint dplain (E : env) (a : ann) : bool :=
  match a with
  | AList x | ATupleU x | AMaybe x | AQual x => dplain E x
  | ASet x => rigid x && dplain E x
  | ADict k v => rigid k && dplain E k && dplain E v
  | ATupleN l | AUnion l => forallb (dplain E) l
  | AAnnotated x None => dplain E x
  | AAnnotated _ (Some _) => false
  | ARecord rk c fields =>
      match rk with RkTyped => false | _ => true end &&
      node_ok E rk c fields && forallb (fun f => dplain E (fst (snd f))) fields
  | ALiteral vs => forallb lit_member vs
  | _ => true
  end.

Lemma dplain_cplain E : forall a, dplain E a = true -> cplain E a = true.
Proof.
  induction a using ann_ind'; cbn [dplain cplain]; intros Hc; try reflexivity; try discriminate; auto.
  - apply andb_prop in Hc. destruct Hc as [_ Hc]. auto.
  - apply andb_prop in Hc. destruct Hc as [Hc H2]. apply andb_prop in Hc. destruct Hc as [_ H1]. rewrite IHa1, IHa2; auto.
  - apply forallb_forall. intros a Hin. rewrite forallb_forall in Hc. rewrite Forall_forall in H. apply H; auto.
  - apply forallb_forall. intros a Hin. rewrite forallb_forall in Hc. rewrite Forall_forall in H. apply H; auto.
  - destruct v; [discriminate|]. auto.
  - apply andb_prop in Hc. destruct Hc as [Hc Hf]. rewrite Hc. cbn [andb].
    apply forallb_forall. intros f Hin. rewrite forallb_forall in Hf. rewrite Forall_forall in H. apply H; auto.
Qed.

Lemma dplain_okann E : forall a, dplain E a = true -> okann E a = true.
Proof.
  induction a using ann_ind'; cbn [dplain okann]; intros Hc; try reflexivity; try discriminate; auto.
  - apply andb_prop in Hc. destruct Hc as [_ Hc]. auto.
  - apply andb_prop in Hc. destruct Hc as [Hc H2]. apply andb_prop in Hc. destruct Hc as [_ H1]. rewrite IHa1, IHa2; auto.
  - apply forallb_forall. intros a Hin. rewrite forallb_forall in Hc. rewrite Forall_forall in H. apply H; auto.
  - apply forallb_forall. intros a Hin. rewrite forallb_forall in Hc. rewrite Forall_forall in H. apply H; auto.
  - destruct v; [discriminate|]. auto.
  - apply andb_prop in Hc. destruct Hc as [Hc Hf]. apply andb_prop in Hc. destruct Hc as [_ Hok]. rewrite Hok. cbn [andb].
    apply forallb_forall. intros f Hin. rewrite forallb_forall in Hf. rewrite Forall_forall in H. apply H; auto.
Qed.

(* where the payload is the value itself: a union keeps it when nothing below it coerces, or when
   it is an Optional (the other variant's validator never turns None into something else) *)
Fixpoint dident (a : ann) : bool :=
  match a with
  | AList x | ASet x | ATupleU x | AMaybe x | AQual x | AAnnotated x _ => dident x
  | ADict k v => dident k && dident v
  | ATupleN l => forallb dident l
  | AUnion l =>
      forallb dident l &&
      (forallb rigid l || match l with [_; ANone] => true | [ANone; _] => true | _ => false end)
  | ARecord _ _ fields => forallb (fun f => dident (fst (snd f))) fields
  | _ => true
  end.

Lemma Forall_ex_Forall2 {A B} (P : A -> B -> Prop) xs :
  Forall (fun x => exists w, P x w) xs -> exists ws, Forall2 P xs ws.
Proof.
  induction 1 as [|x xs [w Hw] _ [ws IH]]; [exists []; constructor|]. exists (w :: ws). constructor; assumption.
Qed.

Lemma opt_shape (l : list ann) :
  match l with [_; ANone] => true | [ANone; _] => true | _ => false end = true ->
  (exists b, l = [b; ANone]) \/ (exists b, l = [ANone; b]).
Proof.
  intros H. destruct l as [|b1 l]; [discriminate|]. destruct l as [|b2 l]; [destruct b1; discriminate|].
  destruct l as [|b3 l]; [|destruct b1; destruct b2; discriminate].
  destruct b2; try (left; eexists; reflexivity); destruct b1; try discriminate; right; eexists; reflexivity.
Qed.

Section CompleteD.
  Variable E : env.
  Let hb := chashable E.

  Definition complete_d (a : ann) : Prop :=
    dplain E a = true -> forall v, derive false a = Ok v ->
    forall n x, aheight a < n -> hproper E x = true ->
      normal (run E Sync n v x) = true /\
      (has_type a x = true -> exists w, run E Sync n v x = OValid w /\ (dident a = true -> w = x)).

  Lemma rigid_case a : rigid a = true -> complete_d a.
  Proof.
    intros R Hc v Hd n x Hn Hp. rewrite (rigid_derive a R) in Hd.
    destruct (derive_complete E a (dplain_cplain E a Hc) v Hd n x Hn Hp) as [N C]. split; [exact N|].
    intros Ht. exists x. split; [apply C; exact Ht | reflexivity].
  Qed.

  Lemma rigid_valid_is_input a v n x w :
    rigid a = true -> dplain E a = true -> derive false a = Ok v -> hproper E x = true ->
    run E Sync n v x = OValid w -> w = x.
  Proof.
    intros R Hc Hd Hp Hr. rewrite (rigid_derive a R) in Hd.
    exact (valid_is_input E a v n x w (dplain_cplain E a Hc) Hd Hp Hr).
  Qed.

  (* ---------- the tuple coercer: a list is read as the tuple of its items ---------- *)

  Lemma seq_co_list rec self item xs :
    seq_body E TTuple TList VTuple rec self item [] [] (Some CoTupleOrList) Sync (VList xs)
    = seq_body E TTuple TList VTuple rec self item [] [] None Sync (VTuple xs).
  Proof. reflexivity. Qed.

  Lemma seq_co_tuple rec self item xs :
    seq_body E TTuple TList VTuple rec self item [] [] (Some CoTupleOrList) Sync (VTuple xs)
    = seq_body E TTuple TList VTuple rec self item [] [] None Sync (VTuple xs).
  Proof. reflexivity. Qed.

  Lemma seq_co_other rec self item x :
    match x with VList _ | VTuple _ => False | _ => True end ->
    seq_body E TTuple TList VTuple rec self item [] [] (Some CoTupleOrList) Sync x
    = OInvalid (Invalid (CoercionErr [TList; TTuple] TList) x self).
  Proof. destruct x; intros H; try contradiction; reflexivity. Qed.

  Lemma ntuple_co_list rec self fields xs :
    ntuple_body E rec self fields None (Some CoTupleOrList) Sync (VList xs)
    = ntuple_body E rec self fields None None Sync (VTuple xs).
  Proof. reflexivity. Qed.

  Lemma ntuple_co_tuple rec self fields xs :
    ntuple_body E rec self fields None (Some CoTupleOrList) Sync (VTuple xs)
    = ntuple_body E rec self fields None None Sync (VTuple xs).
  Proof. reflexivity. Qed.

  Lemma ntuple_co_other rec self fields x :
    match x with VList _ | VTuple _ => False | _ => True end ->
    ntuple_body E rec self fields None (Some CoTupleOrList) Sync x
    = OInvalid (Invalid (CoercionErr [TList; TTuple] TList) x self).
  Proof. destruct x; intros H; try contradiction; reflexivity. Qed.

  Lemma Forall2_in_r {A B} (P : A -> B -> Prop) l vs v :
    Forall2 P l vs -> In v vs -> exists a, In a l /\ P a v.
  Proof.
    induction 1 as [|a v0 l vs Hp _ IH]; intros Hin; [destruct Hin|].
    destruct Hin as [<-|Hin]; [exists a; split; [left; reflexivity | exact Hp]|].
    destruct (IH Hin) as [a' [H1 H2]]. exists a'. split; [right; exact H1 | exact H2].
  Qed.

  (* no derived validator turns None into anything else *)
  Lemma none_through : forall a, dplain E a = true -> forall v, derive false a = Ok v ->
    forall n w, run E Sync n v VNone = OValid w -> w = VNone.
  Proof.
    induction a using ann_ind'; intros Hc vd Hd n w Hr; (destruct n as [|n]; [discriminate|]); cbn [derive] in Hd.
    - destruct k; try discriminate; injection Hd as <-; cbn in Hr; discriminate.
    - injection Hd as <-. cbn in Hr. injection Hr as <-. reflexivity.
    - injection Hd as <-. cbn in Hr. injection Hr as <-. reflexivity.
    - injection Hd as <-. cbn in Hr. discriminate.
    - injection Hd as <-. cbn in Hr. discriminate.
    - injection Hd as <-. cbn in Hr. discriminate.
    - injection Hd as <-. cbn in Hr. discriminate.
    - destruct (derive false a) as [v'|e]; cbn [pbind] in Hd; [|discriminate]. injection Hd as <-. cbn in Hr. discriminate.
    - destruct (derive false a) as [v'|e]; cbn [pbind] in Hd; [|discriminate]. injection Hd as <-. cbn in Hr. discriminate.
    - destruct (derive false a1) as [kv|e]; cbn [pbind] in Hd; [|discriminate].
      destruct (derive false a2) as [vv|e]; cbn [pbind] in Hd; [|discriminate]. injection Hd as <-. cbn in Hr. discriminate.
    - destruct (derive false a) as [v'|e]; cbn [pbind] in Hd; [|discriminate]. injection Hd as <-. cbn in Hr. discriminate.
    - change (pbind (many_of (derive false) l) (fun vs => Ok (NTupleV vs None (tuple_co false))) = Ok vd) in Hd.
      destruct (many_of (derive false) l) as [vs|e]; cbn [pbind] in Hd; [|discriminate]. injection Hd as <-. cbn in Hr. discriminate.
    - destruct l as [|a0 l0]; [discriminate|].
      change (pbind (many_of (derive false) (a0 :: l0)) (fun vs => Ok (UnionV vs)) = Ok vd) in Hd.
      destruct (many_of (derive false) (a0 :: l0)) as [vs|e] eqn:El; cbn [pbind] in Hd; [|discriminate].
      injection Hd as <-. apply many_of_Forall2 in El. rewrite run_S in Hr. cbn [step] in Hr.
      apply union_accept in Hr. destruct Hr as [pre [v [post [Hvs [Hv _]]]]].
      assert (Hin : In v vs) by (rewrite Hvs; apply in_or_app; right; left; reflexivity).
      destruct (Forall2_in_r _ _ _ _ El Hin) as [a [Ha Hda]]. cbn [dplain] in Hc.
      rewrite Forall_forall in H. rewrite forallb_forall in Hc. exact (H a Ha (Hc a Ha) v Hda n w Hv).
    - destruct (derive false a) as [v'|e]; cbn [pbind] in Hd; [|discriminate]. injection Hd as <-. cbn in Hr. discriminate.
    - refine (rigid_valid_is_input (ALiteral vs) vd (S n) VNone w eq_refl Hc _ eq_refl Hr). exact Hd.
    - destruct v; discriminate.
    - cbn [dplain] in Hc. exact (IHa Hc vd Hd (S n) w Hr).
    - destruct (derive_record false rk c fields vd Hd) as [schema [-> _]]. cbn [dplain] in Hc.
      destruct rk; try discriminate; cbn in Hr; discriminate.
    - injection Hd as <-. cbn in Hr. discriminate.
  Qed.

  (* children of one annotation *)
  Lemma children_d a v n xs :
    complete_d a -> dplain E a = true -> derive false a = Ok v -> aheight a < n ->
    forallb (hproper E) xs = true ->
    Forall (fun xi => normal (run E Sync n v xi) = true) xs /\
    (forallb (has_type a) xs = true ->
     exists ws, Forall2 (fun xi w => run E Sync n v xi = OValid w) xs ws /\ (dident a = true -> ws = xs)).
  Proof.
    intros IH Hc Hd Hn Hp. split.
    - rewrite Forall_forall. intros xi Hin. rewrite forallb_forall in Hp. apply (IH Hc v Hd n xi Hn (Hp xi Hin)).
    - induction xs as [|x0 xs IHx]; intros Ht; [exists []; split; [constructor | reflexivity]|].
      cbn [forallb] in Hp, Ht. apply andb_prop in Hp. destruct Hp as [Hp0 Hps]. apply andb_prop in Ht. destruct Ht as [Ht0 Hts].
      destruct (IHx Hps Hts) as [ws [F I]].
      destruct (IH Hc v Hd n x0 Hn Hp0) as [_ C]. destruct (C Ht0) as [w0 [R0 I0]].
      exists (w0 :: ws). split; [constructor; assumption|]. intros Hi. rewrite (I0 Hi), (I Hi). reflexivity.
  Qed.

  Lemma all_failing_nil y : all_failing E Sync [] [] y = Ok [].
  Proof. reflexivity. Qed.

  (* ---------- dataclasses / NamedTuples in default mode: a mapping or an instance ---------- *)

  Lemma record_complete_d rk c fields :
    Forall (fun f => complete_d (fst (snd f))) fields -> complete_d (ARecord rk c fields).
  Proof.
    intros HI. unfold complete_d. intros Hc vd Hd fuel x Hfuel Hp.
    destruct fuel as [|n]; [exfalso; exact (Nat.nlt_0_r _ Hfuel)|]. rewrite run_S.
    cbn [dplain] in Hc. apply andb_prop in Hc. destruct Hc as [Hc Hcf]. apply andb_prop in Hc. destruct Hc as [Hrk Hok].
    destruct (derive_record false rk c fields vd Hd) as [schema [-> [Hnames [Hreqs HF]]]]. cbn [step].
    assert (Hrk' : rk <> RkTyped) by (destruct rk; try discriminate; congruence).
    unfold node_ok in Hok. apply andb_prop in Hok. destruct Hok as [Hok Hcls]. apply andb_prop in Hok. destruct Hok as [Hstr Hnd].
    assert (Hcn : map fst (cfields E c) = map fst fields).
    { destruct rk; try congruence; apply andb_prop in Hcls; destruct Hcls as [Hn _];
        apply (list_eqb_sound pyval_eqb) in Hn; auto; intros; apply pyval_eqb_sound; assumption. }
    clear Hcls.
    assert (Hh : forall f, In f fields -> aheight (fst (snd f)) < n).
    { intros f Hin. cbn [aheight] in Hfuel.
      assert (aheight (fst (snd f)) <= fold_right (fun f0 acc => Nat.max (aheight (fst (snd f0))) acc) 0 fields).
      { clear - Hin. induction fields as [|g fields IH]; [destruct Hin|]. cbn [fold_right]. destruct Hin as [->|Hin]; [lia|]. specialize (IH Hin). lia. }
      lia. }
    unfold class_body. cbn [mode_eqb has_some andb record_co].
    (* the gate: a mapping as it is, or the fields of an instance of exactly this class *)
    assert (Hgate : forall y, class_gate E rk c None x = inr y ->
                              exists fs, y = VDict fs /\ (x = VDict fs \/ x = VObj c fs)).
    { intros y. unfold class_gate. destruct x; try (destruct rk; discriminate).
      - intros Hy. injection Hy as <-. eexists. split; [reflexivity | left; reflexivity].
      - destruct rk; try congruence; (destruct (Nat.eqb c c0) eqn:Ec; try discriminate; apply Nat.eqb_eq in Ec; subst c0;
          intros Hy; injection Hy as <-; eexists; split; [reflexivity | right; reflexivity]). }
    destruct (class_gate E rk c None x) as [e|y] eqn:Eg.
    { split; [reflexivity|]. cbn [has_type]. intros Ht. exfalso.
      destruct rk; try congruence; (destruct x; try discriminate; apply andb_prop in Ht; destruct Ht as [Hcc _]; apply Nat.eqb_eq in Hcc; subst c0;
        unfold class_gate in Eg; rewrite Nat.eqb_refl in Eg; discriminate). }
    destruct (Hgate y eq_refl) as [fs [-> Hx]]. cbn [as_dict unsub andb]. rewrite keys_loop_ref.
    assert (Hpv : forallb (fun kv => hproper E (snd kv)) fs = true).
    { destruct Hx as [->| ->]; cbn [hproper] in Hp.
      - apply andb_prop in Hp. destruct Hp as [Hp _]. apply andb_prop in Hp. destruct Hp as [Hp _].
        apply forallb_forall. intros kv Hin. rewrite forallb_forall in Hp. specialize (Hp kv Hin). apply andb_prop in Hp. apply Hp.
      - apply andb_prop in Hp. apply Hp. }
    assert (Hpn : present_normal (run E Sync n) schema fs).
    { unfold present_normal. clear - HF HI Hcf Hh Hpv.
      induction HF as [|e s fields schema Hes HF IH]; [constructor|].
      inversion HI as [|? ? HIe HIr]; subst. cbn [forallb] in Hcf. apply andb_prop in Hcf. destruct Hcf as [Hce Hcr].
      constructor; [|apply IH; auto; intros f Hin; apply Hh; right; exact Hin].
      destruct (dict_get fs (fst s)) as [xv|] eqn:Egx; [|exact I].
      destruct (dict_get_in _ _ _ Egx) as [k' [Hin _]].
      assert (Hpx : hproper E xv = true) by (rewrite forallb_forall in Hpv; apply (Hpv (k', xv) Hin)).
      apply (HIe Hce (fst (snd s)) Hes n xv (Hh e (or_introl eq_refl)) Hpx). }
    rewrite (keys_ref_complete _ _ _ _ _ _ Hpn).
    split.
    { destruct (key_errs_of _ _ _ _ _); [|reflexivity]. unfold obj_stage. destruct rk; reflexivity. }
    (* typed instance: every declared key is present with a typed value *)
    cbn [has_type]. intros Ht.
    assert (Hxo : x = VObj c fs).
    { destruct Hx as [->| ->]; [destruct rk; discriminate | reflexivity]. }
    subst x. clear Hx.
    assert (Ht' : (fix go (fields : list (pyval * (ann * bool))) (fs : list (pyval * pyval)) : bool :=
                     match fields, fs with
                     | [], [] => true
                     | (k, (a1, _)) :: fr, (k', v) :: kr => pyval_eqb k k' && has_type a1 v && go fr kr
                     | _, _ => false
                     end) fields fs = true).
    { destruct rk; try congruence; apply andb_prop in Ht; destruct Ht as [_ Ht]; exact Ht. }
    clear Ht.
    cbn [hproper] in Hp. apply andb_prop in Hp. destruct Hp as [Hfn _].
    apply (list_eqb_sound pyval_eqb) in Hfn; [|intros; apply pyval_eqb_sound; assumption].
    assert (Hfs_str : forallb (fun kv : pyval * pyval => is_vstr (fst kv)) fs = true).
    { rewrite <- (forallb_map' fst is_vstr fs). rewrite Hfn, Hcn, forallb_map'. exact Hstr. }
    assert (Hfs_nd : names_nodup (map fst fs) = true) by (rewrite Hfn, Hcn; exact Hnd).
    assert (Hget : forall k v, In (k, v) fs -> dict_get fs k = Some v).
    { intros k v Hin. apply dict_get_unique; assumption. }
    assert (Hall : forall fl sl gl,
               Forall2 (fun e s => derive false (fst (snd e)) = Ok (fst (snd s))) fl sl ->
               map fst sl = map fst fl ->
               (forall f, In f fl -> In f fields) -> (forall g, In g gl -> In g fs) ->
               (fix go (fields : list (pyval * (ann * bool))) (fs : list (pyval * pyval)) : bool :=
                  match fields, fs with
                  | [], [] => true
                  | (k, (a1, _)) :: fr, (k', v) :: kr => pyval_eqb k k' && has_type a1 v && go fr kr
                  | _, _ => false
                  end) fl gl = true ->
               key_errs_of (run E Sync n) (ClassV rk c schema None None false None) sl fs (VDict fs) = [] /\
               map fst (key_payload_of (run E Sync n) AbsOmit sl fs) = map fst gl /\
               (forallb (fun f => dident (fst (snd f))) fl = true -> key_payload_of (run E Sync n) AbsOmit sl fs = gl)).
    { intros fl sl gl HF2. revert gl. induction HF2 as [|e s fl sl Hes HF2 IH]; intros gl Hn Hsub Hgs Hgo.
      - destruct gl; [repeat split; reflexivity | discriminate].
      - destruct e as [k [a r]]. destruct gl as [|[k' v] gl]; [discriminate|].
        apply andb_prop in Hgo. destruct Hgo as [Hgo Hgr]. apply andb_prop in Hgo. destruct Hgo as [Hk Hta].
        apply pyval_eqb_sound in Hk. subst k'. destruct s as [ks [vs rs]]. cbn [map fst] in Hn. injection Hn as Hks Hnr. subst ks.
        cbn [fst snd] in Hes.
        destruct (IH gl Hnr (fun f Hin => Hsub f (or_intror Hin)) (fun g Hin => Hgs g (or_intror Hin)) Hgr) as [I2 [I3 I1]].
        cbn [key_payload_of key_errs_of]. cbv zeta. rewrite (Hget k v (Hgs _ (or_introl eq_refl))).
        assert (Hin_f : In (k, (a, r)) fields) by (apply Hsub; left; reflexivity).
        assert (Hpx : hproper E v = true) by (rewrite forallb_forall in Hpv; apply (Hpv (k, v) (Hgs _ (or_introl eq_refl)))).
        rewrite Forall_forall in HI. rewrite forallb_forall in Hcf.
        destruct (HI _ Hin_f (Hcf _ Hin_f) vs Hes n v (Hh _ Hin_f) Hpx) as [_ Cv]. cbn [fst snd] in Cv.
        destruct (Cv Hta) as [w [Rw Iw]]. rewrite Rw, I2. split; [reflexivity|]. split.
        + cbn [map fst]. rewrite I3. reflexivity.
        + cbn [forallb fst snd]. intros Hi. apply andb_prop in Hi. destruct Hi as [Hi0 His]. rewrite (Iw Hi0), (I1 His). reflexivity. }
    destruct (Hall fields schema fs HF Hnames (fun f H => H) (fun g H => H) Ht') as [Herr [Hkeys Hpay]].
    rewrite Herr. unfold obj_stage.
    exists (construct E c (key_payload_of (run E Sync n) AbsOmit schema fs)). split; [destruct rk; try congruence; reflexivity|].
    cbn [dident]. intros Hi. rewrite (Hpay Hi). apply construct_same; [rewrite Hfn; reflexivity | exact Hget].
  Qed.

  Theorem derive_complete_default : forall a, complete_d a.
  Proof.
    induction a using ann_ind';
      match goal with |- complete_d ?A => destruct (rigid A) eqn:Rg; [exact (rigid_case A Rg)|] end;
      unfold complete_d; intros Hc vd Hd fuel x Hfuel Hp;
      (destruct fuel as [|n]; [exfalso; exact (Nat.nlt_0_r _ Hfuel)|]); rewrite run_S; cbn [derive] in Hd.
    - (* AScalar, a coercing kind *)
      destruct k; try discriminate; injection Hd as <-; cbn [step default_co]; unfold scalar_body, gate; cbn [mode_eqb nonempty andb];
        match goal with |- context [coerce_apply E ?c x] => destruct (coerce_apply E c x) as [y|] eqn:Ec end;
        (split; [reflexivity|]); intros Ht; destruct x; try discriminate; cbn in Ec; injection Ec as <-;
        (eexists; split; [reflexivity | reflexivity]).
    - discriminate. - discriminate. - discriminate. - discriminate.
    - (* ANakedTuple *) injection Hd as <-. cbn [step tuple_co]. unfold utuple_body. cbn [aheight] in Hfuel.
      assert (Hn : forall xs, Forall (fun xi => normal (run E Sync n AlwaysValid xi) = true) xs).
      { intros xs. rewrite Forall_forall. intros xi _. rewrite always_normal by lia. reflexivity. }
      destruct x; try (rewrite seq_co_other by exact I; split; [reflexivity | intros Ht; discriminate]).
      + rewrite seq_co_list. split; [|intros Ht; discriminate].
        apply (seq_complete E TTuple TList VTuple (run E Sync n) _ AlwaysValid (VTuple xs) xs eq_refl eq_refl (Hn xs)).
      + rewrite seq_co_tuple.
        destruct (seq_complete E TTuple TList VTuple (run E Sync n) (UTupleV AlwaysValid [] [] (Some CoTupleOrList)) AlwaysValid (VTuple xs) xs eq_refl eq_refl (Hn xs)) as [H1 H2].
        split; [exact H1|]. intros _. exists (VTuple xs). split; [|reflexivity]. apply H2. rewrite Forall_forall. intros xi _. apply always_normal; lia.
    - discriminate.
    - (* AList *) cbn [dplain] in Hc. cbn [aheight] in Hfuel. cbn [rigid] in Rg.
      destruct (derive false a) as [v'|e] eqn:Ea; cbn [pbind] in Hd; [|discriminate]. injection Hd as <-. cbn [step]. unfold list_body.
      destruct x; try (rewrite not_exact_seq by reflexivity; split; [reflexivity | intros Ht; discriminate]).
      cbn [hproper] in Hp.
      destruct (children_d a v' n xs IHa Hc Ea ltac:(lia) Hp) as [Hn Hv].
      split; [apply (seq_complete E TList TList VList (run E Sync n) (ListV v' [] [] None) v' (VList xs) xs eq_refl eq_refl Hn)|].
      cbn [has_type dident]. intros Ht. destruct (Hv Ht) as [ws [F I]]. exists (VList ws). split.
      + apply (seq_accept E TList TList VList (run E Sync n) (ListV v' [] [] None) v' [] [] None Sync (VList xs) (VList ws) VList_inj').
        split; [reflexivity|]. exists (VList xs), xs, ws. repeat split. exact F.
      + intros Hi. rewrite (I Hi). reflexivity.
    - (* ASet: its element type is rigid in the fragment, so the set annotation is *)
      cbn [dplain] in Hc. apply andb_prop in Hc. destruct Hc as [R _]. cbn [rigid] in Rg. congruence.
    - (* ADict *) cbn [dplain] in Hc. apply andb_prop in Hc. destruct Hc as [Hc Hcv]. apply andb_prop in Hc. destruct Hc as [Rk Hck].
      cbn [aheight] in Hfuel.
      destruct (derive false a1) as [kv|e] eqn:Ek; cbn [pbind] in Hd; [|discriminate].
      destruct (derive false a2) as [vv|e] eqn:Ev; cbn [pbind] in Hd; [|discriminate]. injection Hd as <-. cbn [step].
      destruct x; try (rewrite not_exact_map by reflexivity; split; [reflexivity | intros Ht; discriminate]).
      cbn [hproper] in Hp. apply andb_prop in Hp. destruct Hp as [Hp Hdist]. apply andb_prop in Hp. destruct Hp as [Hp Hh].
      assert (Hn : Forall (fun p => normal (run E Sync n kv (fst p)) = true /\ normal (run E Sync n vv (snd p)) = true /\
                                     (forall w, run E Sync n kv (fst p) = OValid w -> hashable hb w = true)) kvs).
      { rewrite Forall_forall. intros p Hin. rewrite forallb_forall in Hp, Hh. specialize (Hp p Hin). apply andb_prop in Hp. destruct Hp as [Hpk Hpv].
        split; [apply (IHa1 Hck kv Ek n (fst p) ltac:(lia) Hpk)|]. split; [apply (IHa2 Hcv vv Ev n (snd p) ltac:(lia) Hpv)|].
        intros w Hr. rewrite (rigid_valid_is_input a1 kv n (fst p) w Rk Hck Ek Hpk Hr). apply (Hh p Hin). }
      split; [apply (map_complete E (run E Sync n) (MapV kv vv [] [] None) kv vv kvs Hn)|].
      cbn [has_type dident]. intros Ht.
      assert (Hpairs : exists pairs,
                 Forall2 (fun p q => run E Sync n kv (fst p) = OValid (fst q) /\ run E Sync n vv (snd p) = OValid (snd q)) kvs pairs /\
                 map fst pairs = map fst kvs /\ (dident a2 = true -> pairs = kvs)).
      { clear Hn Hdist Hh. induction kvs as [|[k0 x0] kvs IHk]; [exists []; repeat split; constructor|].
        cbn [forallb fst snd] in Hp, Ht. apply andb_prop in Hp. destruct Hp as [Hp0 Hps]. apply andb_prop in Ht. destruct Ht as [Ht0 Hts].
        apply andb_prop in Hp0. destruct Hp0 as [Hpk Hpv]. apply andb_prop in Ht0. destruct Ht0 as [Htk Htv].
        destruct (IHk Hps Hts) as [pairs [F [M I]]].
        destruct (IHa1 Hck kv Ek n k0 ltac:(lia) Hpk) as [_ Ck]. destruct (Ck Htk) as [wk [Rk0 _]].
        assert (wk = k0) by (exact (rigid_valid_is_input a1 kv n k0 wk Rk Hck Ek Hpk Rk0)). subst wk.
        destruct (IHa2 Hcv vv Ev n x0 ltac:(lia) Hpv) as [_ Cv]. destruct (Cv Htv) as [wv [Rv Iv]].
        exists ((k0, wv) :: pairs). split; [constructor; [split; assumption | exact F]|].
        split; [cbn [map fst]; rewrite M; reflexivity|]. intros Hi. rewrite (Iv Hi), (I Hi). reflexivity. }
      destruct Hpairs as [pairs [F [M I]]].
      exists (VDict (map_payload [] pairs)). split.
      + apply map_accept. split; [reflexivity|]. exists (VDict kvs), kvs, pairs. repeat split; [exact F|].
        rewrite Forall_forall. intros q Hq. assert (Hin : In (fst q) (map fst kvs)) by (rewrite <- M; apply in_map; exact Hq).
        apply in_map_iff in Hin. destruct Hin as [p [Hpq Hp']]. rewrite <- Hpq. rewrite forallb_forall in Hh. apply (Hh p Hp').
      + intros Hi. apply andb_prop in Hi. destruct Hi as [_ Hi]. rewrite (I Hi). unfold map_payload. rewrite (map_payload_distinct kvs [] Hdist). reflexivity.
    - (* ATupleU *) cbn [dplain] in Hc. cbn [aheight] in Hfuel.
      destruct (derive false a) as [v'|e] eqn:Ea; cbn [pbind] in Hd; [|discriminate]. injection Hd as <-. cbn [step tuple_co]. unfold utuple_body.
      destruct x; try (rewrite seq_co_other by exact I; split; [reflexivity | intros Ht; discriminate]).
      + rewrite seq_co_list. split; [|intros Ht; discriminate]. cbn [hproper] in Hp.
        destruct (children_d a v' n xs IHa Hc Ea ltac:(lia) Hp) as [Hn _].
        apply (seq_complete E TTuple TList VTuple (run E Sync n) _ v' (VTuple xs) xs eq_refl eq_refl Hn).
      + rewrite seq_co_tuple. cbn [hproper] in Hp.
        destruct (children_d a v' n xs IHa Hc Ea ltac:(lia) Hp) as [Hn Hv].
        split; [apply (seq_complete E TTuple TList VTuple (run E Sync n) _ v' (VTuple xs) xs eq_refl eq_refl Hn)|].
        cbn [has_type dident]. intros Ht. destruct (Hv Ht) as [ws [F I]]. exists (VTuple ws). split.
        * apply (seq_accept E TTuple TList VTuple (run E Sync n) (UTupleV v' [] [] (Some CoTupleOrList)) v' [] [] None Sync (VTuple xs) (VTuple ws) VTuple_inj').
          split; [reflexivity|]. exists (VTuple xs), xs, ws. repeat split. exact F.
        * intros Hi. rewrite (I Hi). reflexivity.
    - (* ATupleN *)
      change (pbind (many_of (derive false) l) (fun vs => Ok (NTupleV vs None (tuple_co false))) = Ok vd) in Hd.
      destruct (many_of (derive false) l) as [vs|e] eqn:El; cbn [pbind] in Hd; [|discriminate].
      injection Hd as <-. cbn [step tuple_co]. apply many_of_Forall2 in El. cbn [dplain aheight] in Hc, Hfuel.
      assert (Hh : forall a, In a l -> aheight a < n) by (intros a0 Hin; pose proof (lmax_in l a0 Hin); lia).
      assert (Hall : forall xs, forallb (hproper E) xs = true ->
                     Forall (fun c => normal (callr (run E Sync n) c) = true) (combine vs xs) /\
                     ((fix go (l : list ann) (xs : list pyval) : bool :=
                         match l, xs with
                         | [], [] => true
                         | a1 :: lr, x1 :: xr => has_type a1 x1 && go lr xr
                         | _, _ => false
                         end) l xs = true ->
                      length xs = length vs /\
                      exists ws, Forall2 (fun c w => callr (run E Sync n) c = OValid w) (combine vs xs) ws /\
                                 (forallb dident l = true -> ws = xs))).
      { clear Hfuel Rg. induction El as [|a v0 l vs0 Ha El' IHl]; intros xs Hpx.
        - split; [constructor|]. destruct xs; [|discriminate]. intros _. split; [reflexivity|]. exists []. split; [constructor | reflexivity].
        - destruct xs as [|x0 xs]; [split; [constructor | discriminate]|].
          cbn [forallb] in Hpx, Hc. apply andb_prop in Hpx. destruct Hpx as [Hp0 Hps]. apply andb_prop in Hc. destruct Hc as [Hc0 Hcs].
          inversion H as [|? ? HIa HIl]; subst.
          destruct (IHl HIl Hcs (fun a0 Hin => Hh a0 (or_intror Hin)) xs Hps) as [I1 I2].
          destruct (HIa Hc0 v0 Ha n x0 (Hh a (or_introl eq_refl)) Hp0) as [N0 C0].
          cbn [combine]. split; [constructor; [exact N0 | exact I1]|].
          intros Hgo. apply andb_prop in Hgo. destruct Hgo as [T0 Tr]. destruct (I2 Tr) as [L1 [ws [F Iw]]].
          split; [cbn [length]; rewrite L1; reflexivity|]. destruct (C0 T0) as [w0 [R0 I0]].
          exists (w0 :: ws). split; [constructor; [unfold callr; cbn [fst snd]; exact R0 | exact F]|].
          cbn [forallb]. intros Hi. apply andb_prop in Hi. destruct Hi as [Hi0 His]. rewrite (I0 Hi0), (Iw His). reflexivity. }
      destruct x; try (rewrite ntuple_co_other by exact I; split; [reflexivity | intros Ht; discriminate]).
      + rewrite ntuple_co_list. split; [|intros Ht; discriminate]. cbn [hproper] in Hp. destruct (Hall xs Hp) as [Hn _].
        apply (ntuple_complete E (run E Sync n) _ vs xs Hn).
      + rewrite ntuple_co_tuple. cbn [hproper] in Hp. destruct (Hall xs Hp) as [Hn Hv].
        split; [apply (ntuple_complete E (run E Sync n) _ vs xs Hn)|].
        cbn [has_type dident]. intros Ht. destruct (Hv Ht) as [L1 [ws [F Iw]]]. exists (VTuple ws). split.
        * apply ntuple_accept. exists (VTuple xs), xs, ws. repeat split; [|exact F].
          cbn [pred_eval py_len unsub pbind]. f_equal. apply Z.eqb_eq. unfold zlen. rewrite L1. reflexivity.
        * intros Hi. rewrite (Iw Hi). reflexivity.
    - (* AUnion *)
      destruct l as [|a0 l0]; [discriminate|].
      change (pbind (many_of (derive false) (a0 :: l0)) (fun vs => Ok (UnionV vs)) = Ok vd) in Hd.
      destruct (many_of (derive false) (a0 :: l0)) as [vs|e] eqn:El; cbn [pbind] in Hd; [|discriminate].
      injection Hd as <-. cbn [step]. apply many_of_Forall2 in El. cbn [dplain] in Hc.
      assert (Hh : forall a, In a (a0 :: l0) -> aheight a < n).
      { intros a1 Hin. pose proof (lmax_in (a0 :: l0) a1 Hin). cbn [aheight] in Hfuel. lia. }
      clear Hfuel. revert Rg Hh Hc H El. generalize (a0 :: l0). intros l Rg Hh Hc HI El.
      assert (Hn : Forall (fun v => normal (run E Sync n v x) = true) vs).
      { clear - El HI Hh Hc Hp. induction El as [|a v0 l vs0 Ha El' IHl]; [constructor|].
        cbn [forallb] in Hc. apply andb_prop in Hc. destruct Hc as [Hc0 Hcs]. inversion HI as [|? ? HIa HIl]; subst.
        constructor; [apply (HIa Hc0 v0 Ha n x (Hh a (or_introl eq_refl)) Hp) | apply IHl; auto; intros a1 Hin; apply Hh; right; exact Hin]. }
      destruct (union_complete (run E Sync n) (UnionV vs) vs x Hn) as [H1 H2].
      split; [exact H1|]. cbn [has_type]. intros Ht. apply existsb_exists in Ht. destruct Ht as [a1 [Hin1 Ht1]].
      assert (Hv1 : exists v1 w1, In v1 vs /\ run E Sync n v1 x = OValid w1).
      { clear - El HI Hh Hc Hp Hin1 Ht1. induction El as [|a v0 l vs0 Ha El' IHl]; [destruct Hin1|].
        cbn [forallb] in Hc. apply andb_prop in Hc. destruct Hc as [Hc0 Hcs]. inversion HI as [|? ? HIa HIl]; subst.
        destruct Hin1 as [->|Hin1].
        - destruct (HIa Hc0 v0 Ha n x (Hh a1 (or_introl eq_refl)) Hp) as [_ C]. destruct (C Ht1) as [w1 [R1 _]].
          exists v0, w1. split; [left; reflexivity | exact R1].
        - destruct (IHl (fun a2 Hin => Hh a2 (or_intror Hin)) Hcs HIl Hin1) as [v1 [w1 [Hv1 Hr1]]]. exists v1, w1. split; [right; exact Hv1 | exact Hr1]. }
      destruct Hv1 as [v1 [w1 [Hv1 Hr1]]].
      destruct (H2 v1 Hv1 w1 Hr1) as [v' [w' [Hin' [Hr' Hu]]]]. exists w'. split; [exact Hu|].
      (* identity: an Optional (every other identity-keeping union is rigid) *)
      cbn [dident]. intros Hi. apply andb_prop in Hi. destruct Hi as [Hid Hshape]. cbn [rigid] in Rg. rewrite Rg in Hshape. cbn [orb] in Hshape.
      assert (Hnone : forall fuel y, run E Sync (S fuel) (NoneV None) y = match y with VNone => OValid VNone | _ => OInvalid (Invalid (TypeErr TNone) y (NoneV None)) end).
      { intros fuel y. destruct y; reflexivity. }
      destruct n as [|n']; [pose proof (Hh a1 Hin1); lia|].
      destruct (opt_shape l Hshape) as [[b ->]|[b ->]]; clear Hshape.
      + (* [b; None] *)
        inversion El as [|? u1 ? ? D1 El1]; subst. inversion El1 as [|? u2 ? ? D2 El2]; subst. inversion El2; subst.
        inversion HI as [|? ? I1 _]; subst.
        cbn [forallb] in Hc, Hid. apply andb_prop in Hc. destruct Hc as [C1 _]. apply andb_prop in Hid. destruct Hid as [Hid1 _].
        unfold union_body in Hu. cbn [map run_calls] in Hu.
        cbn [derive] in D2. injection D2 as <-.
        destruct (I1 C1 u1 D1 (S n') x (Hh b (or_introl eq_refl)) Hp) as [N1 Cm1].
        destruct (run E Sync (S n') u1 x) as [wa|ia| | |] eqn:Ra; try discriminate.
        * cbn [collect_union] in Hu. injection Hu as <-.
          destruct (has_type b x) eqn:T1.
          -- destruct (Cm1 eq_refl) as [w0 [R0 I0]]. injection R0 as <-. apply I0; exact Hid1.
          -- destruct Hin1 as [<-|[<-|[]]]; [congruence|]. destruct x; try discriminate.
             apply (none_through b C1 u1 D1 (S n') wa Ra).
        * rewrite Hnone in Hu. destruct x; cbn [collect_union] in Hu; try discriminate. injection Hu as <-. reflexivity.
      + (* [None; b] *)
        inversion El as [|? u1 ? ? D1 El1]; subst. inversion El1 as [|? u2 ? ? D2 El2]; subst. inversion El2; subst.
        inversion HI as [|? ? _ HI1]; subst. inversion HI1 as [|? ? I2 _]; subst.
        cbn [forallb] in Hc, Hid. apply andb_prop in Hc. destruct Hc as [_ Hc]. apply andb_prop in Hc. destruct Hc as [C2 _].
        apply andb_prop in Hid. destruct Hid as [_ Hid]. apply andb_prop in Hid. destruct Hid as [Hid2 _].
        unfold union_body in Hu. cbn [map run_calls] in Hu.
        cbn [derive] in D1. injection D1 as <-. rewrite Hnone in Hu.
        destruct (I2 C2 u2 D2 (S n') x (Hh _ (or_intror (or_introl eq_refl))) Hp) as [N2 Cm2].
        destruct x; try (cbn [collect_union] in Hu; injection Hu as <-; reflexivity);
          (destruct Hin1 as [<-|[<-|[]]]; [discriminate|]);
          destruct (Cm2 Ht1) as [w0 [R0 I0]]; rewrite R0 in Hu; cbn [collect_union] in Hu; injection Hu as <-; apply I0; exact Hid2.
    - (* AMaybe *) cbn [dplain] in Hc. cbn [aheight] in Hfuel.
      destruct (derive false a) as [v'|e] eqn:Ea; cbn [pbind] in Hd; [|discriminate]. injection Hd as <-. cbn [step]. rewrite maybe_spec.
      destruct x; cbn [has_type]; try (split; [reflexivity | intros Ht; try discriminate; eexists; split; reflexivity]).
      cbn [hproper] in Hp. destruct (IHa Hc v' Ea n x ltac:(lia) Hp) as [N C].
      split.
      + destruct (run E Sync n v' x); try discriminate; reflexivity.
      + intros Ht. destruct (C Ht) as [w [R I]]. rewrite R. exists (VJust w). split; [reflexivity|].
        cbn [dident]. intros Hi. rewrite (I Hi). reflexivity.
    - discriminate.
    - destruct v as [v0|]; discriminate.
    - (* AQual *) cbn [dplain aheight has_type dident] in *. rewrite <- run_S. apply (IHa Hc vd Hd (S n) x Hfuel Hp).
    - (* ARecord *) rewrite <- run_S. apply (record_complete_d rk c fields H Hc vd Hd (S n) x Hfuel Hp).
    - discriminate.
  Qed.
End CompleteD.

(* re-validating what a derived validator returned (with C07's soundness: the payload has the type) *)
Theorem derived_fixpoint (E : env) :
  (forall k x y, oracle E k x = Some y -> exact_type y (okind_type k) = true) ->
  forall a, dplain E a = true -> dident a = true ->
  forall v, derive false a = Ok v ->
  forall n n' x w, run E Sync n v x = OValid w -> aheight a < n' -> hproper E w = true ->
    run E Sync n' v w = OValid w.
Proof.
  intros Hor a Hc Hi v Hd n n' x w Hr Hn Hp.
  pose proof (derive_sound_all E Hor a (dplain_okann E a Hc) false v Hd n x w Hr) as Ht.
  destruct (derive_complete_default E a Hc v Hd n' w Hn Hp) as [_ C]. destruct (C Ht) as [w' [R I]].
  rewrite R. f_equal. apply I. exact Hi.
Qed.

