(* Proofs about the scalar pipeline (C02) and its building blocks. *)
From Coq Require Import ZArith List Bool Lia.
From KV Require Import Base.PyVal Base.Prims Model.Validator Model.Sem.
Import ListNotations.
Open Scope Z_scope.

Section Scalar.
  Variable E : env.

  (* ---------- predicates: the failing list is a filter ---------- *)

  (* every predicate of [ps] returns normally on [w] *)
  Definition preds_defined (ps : list predicate) (w : pyval) : Prop :=
    Forall (fun p => exists b, pred_eval E p w = Ok b) ps.

  Definition holds (p : predicate) (w : pyval) : bool :=
    match pred_eval E p w with Ok b => b | Exn _ => false end.

  Lemma failing_preds_spec ps w fs :
    failing_preds E ps w = Ok fs ->
    preds_defined ps w /\ fs = map PRSync (filter (fun p => negb (holds p w)) ps).
  Proof.
    revert fs; induction ps as [|p ps IH]; cbn [failing_preds]; intros fs H.
    - inversion H; subst; split; [constructor | reflexivity].
    - unfold pbind in H at 1.
      destruct (pred_eval E p w) as [b|e] eqn:Hp; [|discriminate].
      unfold pbind in H.
      destruct (failing_preds E ps w) as [rest|e] eqn:Hr; [|discriminate].
      destruct (IH rest eq_refl) as [Hd Hrest].
      inversion H; subst; clear H.
      split.
      + constructor; [exists b; exact Hp | exact Hd].
      + cbn [filter].
        assert (Hh : holds p w = b) by (unfold holds; rewrite Hp; reflexivity).
        rewrite Hh. destruct b; cbn [negb map]; reflexivity.
  Qed.

  Lemma failing_preds_defined ps w :
    preds_defined ps w -> exists fs, failing_preds E ps w = Ok fs.
  Proof.
    induction ps as [|p ps IH]; intros H.
    - exists []; reflexivity.
    - inversion H as [|? ? [b Hb] Hrest]; subst.
      destruct (IH Hrest) as [rest Hr].
      cbn [failing_preds]. rewrite Hb. cbn [pbind]. rewrite Hr. cbn [pbind].
      eexists; reflexivity.
  Qed.

  Lemma failing_preds_raises ps w e :
    failing_preds E ps w = Exn e -> ~ preds_defined ps w.
  Proof.
    intros H Hd. destruct (failing_preds_defined ps w Hd) as [fs Hfs]. congruence.
  Qed.

  Lemma all_failing_spec m ps aps w fs :
    all_failing E m ps aps w = Ok fs ->
    preds_defined ps w /\
    fs = map PRSync (filter (fun p => negb (holds p w)) ps)
         ++ match m with
            | Sync => []
            | Async => map PRAsync (filter (fun a => negb (apred_eval E a w)) aps)
            end.
  Proof.
    unfold all_failing, pbind. destruct (failing_preds E ps w) as [fs0|e] eqn:H0; [|discriminate].
    intros H; inversion H; subst; clear H.
    destruct (failing_preds_spec _ _ _ H0) as [Hd Hfs]. split; [exact Hd|].
    subst fs0. destruct m; [rewrite app_nil_r|]; reflexivity.
  Qed.

  Lemma filter_nil_forall {A} (f : A -> bool) l :
    filter f l = [] <-> Forall (fun a => f a = false) l.
  Proof.
    induction l as [|a l IH]; cbn [filter]; split; intros H.
    - constructor.
    - reflexivity.
    - destruct (f a) eqn:Hf; [discriminate|]. constructor; [exact Hf | apply IH; exact H].
    - inversion H; subst. rewrite H2. apply IH; assumption.
  Qed.

  Lemma all_failing_nil m ps aps w :
    all_failing E m ps aps w = Ok [] <->
    Forall (fun p => pred_eval E p w = Ok true) ps /\
    (m = Async -> Forall (fun a => apred_eval E a w = true) aps).
  Proof.
    split.
    - intros H. destruct (all_failing_spec _ _ _ _ _ H) as [Hd Hfs].
      symmetry in Hfs. apply app_eq_nil in Hfs. destruct Hfs as [H1 H2].
      apply map_eq_nil in H1. apply filter_nil_forall in H1.
      split.
      + unfold preds_defined in Hd. rewrite Forall_forall in *. intros p Hp.
        specialize (H1 p Hp). specialize (Hd p Hp). destruct Hd as [b Hb].
        unfold holds in H1. rewrite Hb in H1. destruct b; [exact Hb | discriminate].
      + intros ->. apply map_eq_nil in H2. apply filter_nil_forall in H2.
        rewrite Forall_forall in *. intros a Ha. specialize (H2 a Ha).
        destruct (apred_eval E a w); [reflexivity | discriminate].
    - intros [Hp Ha].
      assert (Hf : failing_preds E ps w = Ok []).
      { clear Ha. induction ps as [|p ps IH]; [reflexivity|].
        inversion Hp; subst. cbn [failing_preds]. rewrite H1. cbn [pbind].
        rewrite (IH H2). reflexivity. }
      unfold all_failing. rewrite Hf. cbn [pbind]. destruct m; [reflexivity|].
      unfold failing_apreds.
      replace (filter (fun a => negb (apred_eval E a w)) aps) with (@nil apredicate); [reflexivity|].
      symmetry. apply filter_nil_forall. specialize (Ha eq_refl).
      rewrite Forall_forall in *. intros a Hin. rewrite (Ha a Hin). reflexivity.
  Qed.

  (* ---------- the gate ---------- *)

  Lemma gate_exact t d x y :
    gate E None t d x = inr y <-> exact_type x t = true /\ y = x.
  Proof.
    unfold gate. destruct (exact_type x t); split; intros H.
    - inversion H; auto.
    - destruct H as [_ ->]; reflexivity.
    - discriminate.
    - destruct H; discriminate.
  Qed.

  Lemma gate_coerced c t d x y :
    gate E (Some c) t d x = inr y <-> coerce_apply E c x = Some y.
  Proof.
    unfold gate. destruct (coerce_apply E c x); split; intros H; inversion H; reflexivity.
  Qed.

  Lemma gate_rejects co t d x e :
    gate E co t d x = inl e ->
    match co with
    | None => exact_type x t = false /\ e = TypeErr t
    | Some c => coerce_apply E c x = None /\ e = CoercionErr (coerce_compat E c) d
    end.
  Proof.
    unfold gate. destruct co as [c|].
    - destruct (coerce_apply E c x); intros H; inversion H; auto.
    - destruct (exact_type x t); intros H; inversion H; auto.
  Qed.

  (* exact-type facts: subclasses, bool-for-int, int-for-float are not the target *)
  Lemma exact_bool_not_int b : exact_type (VBool b) TInt = false.
  Proof. reflexivity. Qed.
  Lemma exact_int_not_float z : exact_type (VInt z) TFloat = false.
  Proof. reflexivity. Qed.
  Lemma exact_datetime_not_date u t : exact_type (VDatetime u t) TDate = false.
  Proof. reflexivity. Qed.
  Lemma pytype_eqb_eq a b : pytype_eqb a b = true <-> a = b.
  Proof.
    split.
    - destruct a, b; cbn; try discriminate; try reflexivity.
      intros H. apply Nat.eqb_eq in H. subst; reflexivity.
    - intros ->. destruct b; cbn; try reflexivity. apply Nat.eqb_refl.
  Qed.
  Lemma exact_sub_only_own_class c b t : exact_type (VSub c b) t = true -> t = TClass c.
  Proof.
    unfold exact_type. cbn [type_of]. intros H. apply pytype_eqb_eq in H. auto.
  Qed.

  (* ---------- the scalar body ---------- *)

  Lemma nonempty_false {A} (l : list A) : nonempty l = false <-> l = [].
  Proof. destruct l; cbn; split; congruence. Qed.

  Theorem scalar_accept self k co pre ps aps m x w :
    scalar_body E self k co pre ps aps m x = OValid w <->
    (m = Sync -> aps = []) /\
    exists y, gate E co (ktype k) (ktype k) x = inr y /\
              procs_apply E pre y = Ok w /\
              Forall (fun p => pred_eval E p w = Ok true) ps /\
              (m = Async -> Forall (fun a => apred_eval E a w = true) aps).
  Proof.
    unfold scalar_body. split.
    - destruct (mode_eqb m Sync && nonempty aps) eqn:Hg; [discriminate|].
      destruct (gate E co (ktype k) (ktype k) x) as [e|y] eqn:Hgate; [discriminate|].
      destruct (procs_apply E pre y) as [y'|e] eqn:Hp; [|discriminate].
      destruct (all_failing E m ps aps y') as [fs|e] eqn:Hf; [|discriminate].
      destruct fs; [|discriminate]. intros H; inversion H; subst.
      split.
      + intros ->. cbn in Hg. apply nonempty_false; exact Hg.
      + exists y. apply all_failing_nil in Hf. tauto.
    - intros [Hs [y [Hgate [Hp [Hps Haps]]]]].
      assert (Hg : mode_eqb m Sync && nonempty aps = false).
      { destruct m; cbn; [|reflexivity]. rewrite (Hs eq_refl); reflexivity. }
      rewrite Hg, Hgate, Hp.
      assert (Hf : all_failing E m ps aps w = Ok []) by (apply all_failing_nil; tauto).
      rewrite Hf. reflexivity.
  Qed.

  Theorem scalar_reject self k co pre ps aps m x i :
    scalar_body E self k co pre ps aps m x = OInvalid i ->
    (exists e, gate E co (ktype k) (ktype k) x = inl e /\ i = Invalid e x self) \/
    (exists y w, gate E co (ktype k) (ktype k) x = inr y /\
                 procs_apply E pre y = Ok w /\
                 preds_defined ps w /\
                 let fs := map PRSync (filter (fun p => negb (holds p w)) ps)
                           ++ match m with
                              | Sync => []
                              | Async => map PRAsync (filter (fun a => negb (apred_eval E a w)) aps)
                              end in
                 fs <> [] /\ i = Invalid (PredicateErrs fs) w self).
  Proof.
    unfold scalar_body.
    destruct (mode_eqb m Sync && nonempty aps); [discriminate|].
    destruct (gate E co (ktype k) (ktype k) x) as [e|y] eqn:Hgate.
    - intros H; inversion H; subst. left; exists e; auto.
    - destruct (procs_apply E pre y) as [y'|e] eqn:Hp; [|discriminate].
      destruct (all_failing E m ps aps y') as [fs|e] eqn:Hf; [|discriminate].
      destruct fs as [|f fs]; [discriminate|].
      intros H; inversion H; subst; clear H.
      right. exists y, y'. destruct (all_failing_spec _ _ _ _ _ Hf) as [Hd Hfs].
      repeat split; auto.
      + cbv zeta. rewrite <- Hfs. discriminate.
      + cbv zeta. rewrite <- Hfs. reflexivity.
  Qed.

  (* the rejected value of a type / coercion failure is the caller's own value *)
  Corollary scalar_gate_error_holds_original self k co pre ps aps m x e v who :
    scalar_body E self k co pre ps aps m x = OInvalid (Invalid e v who) ->
    (forall fs, e <> PredicateErrs fs) -> v = x /\ who = self.
  Proof.
    intros H Hne. apply scalar_reject in H. destruct H as [[e' [_ Hi]] | [y [w [_ [_ [_ Hi]]]]]].
    - inversion Hi; auto.
    - cbv zeta in Hi. destruct Hi as [_ Hi]. inversion Hi; subst. exfalso. eapply Hne; reflexivity.
  Qed.

  (* sync raises the documented assertion exactly when async predicates are configured *)
  Theorem scalar_assert self k co pre ps aps m x :
    scalar_body E self k co pre ps aps m x = OAssert <-> m = Sync /\ aps <> [].
  Proof.
    unfold scalar_body. split.
    - destruct m; cbn [mode_eqb andb].
      + destruct aps; cbn [nonempty]; [|intros _; split; [reflexivity|discriminate]].
        destruct (gate E co (ktype k) (ktype k) x); [discriminate|].
        destruct (procs_apply E pre p); [|discriminate].
        destruct (all_failing E Sync ps [] a) as [[|? ?]|]; discriminate.
      + destruct (gate E co (ktype k) (ktype k) x); [discriminate|].
        destruct (procs_apply E pre p); [|discriminate].
        destruct (all_failing E Async ps aps a) as [[|? ?]|]; discriminate.
    - intros [-> Hne]. destruct aps; [congruence|]. reflexivity.
  Qed.

  (* EqualsValidator: exact type first, then equality *)
  Theorem equals_accept self mt pre x w :
    equals_body E self mt pre x = OValid w <->
    exact_type x (type_of mt) = true /\ procs_apply E pre x = Ok w /\ py_eq_p w mt = Ok true.
  Proof.
    unfold equals_body. destruct (exact_type x (type_of mt)); split.
    - destruct (procs_apply E pre x) as [y|e]; [|discriminate].
      destruct (py_eq_p y mt) as [[|]|] eqn:He; try discriminate.
      intros H; inversion H; subst. auto.
    - intros [_ [Hp He]]. rewrite Hp, He. reflexivity.
    - discriminate.
    - intros [H _]; discriminate.
  Qed.

  Theorem equals_type_reject self mt pre x :
    exact_type x (type_of mt) = false ->
    equals_body E self mt pre x = OInvalid (Invalid (TypeErr (type_of mt)) x self).
  Proof. unfold equals_body. intros ->. reflexivity. Qed.

  (* NoneValidator without a coercer is an identity check *)
  Theorem none_plain self x :
    none_body E self None x = OValid VNone <-> x = VNone.
  Proof. unfold none_body. destruct x; split; intros H; try discriminate; reflexivity. Qed.

  Theorem none_plain_reject self x :
    x <> VNone -> none_body E self None x = OInvalid (Invalid (TypeErr TNone) x self).
  Proof. unfold none_body. destruct x; intros H; try reflexivity. congruence. Qed.

  Theorem none_coerced self c x :
    none_body E self (Some c) x =
    match coerce_apply E c x with
    | Some _ => OValid VNone
    | None => OInvalid (Invalid (CoercionErr (coerce_compat E c) TNone) x self)
    end.
  Proof. reflexivity. Qed.
End Scalar.
