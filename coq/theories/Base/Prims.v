(* Prims: partial Python primitives used by predicates and processors.
   Each returns [Exn e] exactly where CPython raises.  Modelled, not verified. *)
From Coq Require Import ZArith List Bool QArith.
From KV Require Import Base.PyVal.
Import ListNotations.
Open Scope Z_scope.

Inductive exn := ExType | ExAttribute | ExInvalidOp | ExZeroDiv | ExValue | ExOther.

Definition exn_eqb (a b : exn) : bool :=
  match a, b with
  | ExType, ExType | ExAttribute, ExAttribute | ExInvalidOp, ExInvalidOp
  | ExZeroDiv, ExZeroDiv | ExValue, ExValue | ExOther, ExOther => true
  | _, _ => false
  end.

Inductive pres (A : Type) := Ok (a : A) | Exn (e : exn).
Arguments Ok {A} a.
Arguments Exn {A} e.

Definition pbind {A B} (x : pres A) (f : A -> pres B) : pres B :=
  match x with Ok a => f a | Exn e => Exn e end.

(* strip user subclasses of builtins: methods/len/comparison are inherited *)
Fixpoint unsub (v : pyval) : pyval :=
  match v with VSub _ b => unsub b | _ => v end.

(* ---------- len ---------- *)

Definition zlen {A} (l : list A) : Z := Z.of_nat (length l).

Definition py_len (v : pyval) : pres Z :=
  match unsub v with
  | VStr s | VBytes s => Ok (zlen s)
  | VList xs | VTuple xs | VSet xs => Ok (zlen xs)
  | VDict kvs => Ok (zlen kvs)
  | _ => Exn ExType
  end.

(* iteration, as [for item in val] sees it *)
Definition py_iter (v : pyval) : pres (list pyval) :=
  match unsub v with
  | VList xs | VTuple xs | VSet xs => Ok xs
  | VDict kvs => Ok (map fst kvs)
  | VStr s => Ok (map (fun c => VStr [c]) s)
  | VBytes s => Ok (map VInt s)
  | _ => Exn ExType
  end.

(* ---------- ordering ---------- *)

Fixpoint lex_leb (strict : bool) (a b : list Z) : bool :=
  match a, b with
  | [], [] => negb strict
  | [], _ :: _ => true
  | _ :: _, [] => false
  | x :: a', y :: b' => if x <? y then true else if y <? x then false else lex_leb strict a' b'
  end.

Definition is_dec_nan (v : pyval) : bool :=
  match v with VDecimal (DNan _ _) => true | _ => false end.
Definition is_dec_snan (v : pyval) : bool :=
  match v with VDecimal (DNan _ true) => true | _ => false end.
Definition is_dec (v : pyval) : bool :=
  match v with VDecimal _ => true | _ => false end.
Definition is_float (v : pyval) : bool :=
  match v with VFloat _ => true | _ => false end.

(* [a <= b] (strict = false) or [a < b] (strict = true) *)
Definition py_le_gen (strict : bool) (a b : pyval) : pres bool :=
  let a := unsub a in
  let b := unsub b in
  match a, b with
  | (VBool _ | VInt _ | VFloat _ | VDecimal _), (VBool _ | VInt _ | VFloat _ | VDecimal _) =>
      if is_dec_nan a || is_dec_nan b then Exn ExInvalidOp
      else
        match num_of a, num_of b with
        | Some x, Some y => Ok (if strict then num_ltb x y else num_leb x y)
        | _, _ => Exn ExType
        end
  | VStr x, VStr y => Ok (lex_leb strict x y)
  | VBytes x, VBytes y => Ok (lex_leb strict x y)
  | VDate x, VDate y => Ok (if strict then x <? y else x <=? y)
  | VDatetime u1 t1, VDatetime u2 t2 =>
      match t1, t2 with
      | None, None => Ok (if strict then u1 <? u2 else u1 <=? u2)
      | Some _, Some _ =>
          Ok (if strict then dt_instant u1 t1 <? dt_instant u2 t2
              else dt_instant u1 t1 <=? dt_instant u2 t2)
      | _, _ => Exn ExType
      end
  | VUuid x, VUuid y => Ok (if strict then x <? y else x <=? y)
  | _, _ => Exn ExType
  end.

Definition py_le := py_le_gen false.
Definition py_lt := py_le_gen true.

(* [a == b] as an operation that may raise (signalling NaN) *)
Definition is_num (v : pyval) : bool :=
  match num_of v with Some _ => true | None => false end.

Definition py_eq_p (a b : pyval) : pres bool :=
  if (is_dec_snan (unsub a) && is_num (unsub b)) || (is_dec_snan (unsub b) && is_num (unsub a))
  then Exn ExInvalidOp
  else Ok (py_eq a b).

(* ---------- [val % factor == 0] ---------- *)

Definition q_is_int (q : Q) : bool :=
  Z.eqb (Z.modulo (Qnum q) (Zpos (Qden q))) 0.   (* q need not be reduced: checked on Qred *)

Definition q_divisible (a b : Q) : bool :=       (* b <> 0 *)
  let q := Qred (Qdiv a b) in Z.eqb (Zpos (Qden q)) 1.

Definition q_is_zero (a : Q) : bool := Z.eqb (Qnum a) 0.

Definition q_trunc_abs (a : Q) : Z := Z.quot (Z.abs (Qnum a)) (Zpos (Qden a)).

Definition dec_prec : Z := 28.

Inductive numkind := NkInt | NkFloat | NkDec | NkOther.
Definition numkind_of (v : pyval) : numkind :=
  match v with
  | VBool _ | VInt _ => NkInt
  | VFloat _ => NkFloat
  | VDecimal _ => NkDec
  | _ => NkOther
  end.

Definition int_val (v : pyval) : Z :=
  match v with VInt z => z | VBool true => 1 | _ => 0 end.

(* Python's floored [%] on ints is Z.modulo *)
Definition mod_int (a b : Z) : pres bool :=
  if b =? 0 then Exn ExZeroDiv else Ok (a mod b =? 0).

Definition mod_float (x y : num) : pres bool :=
  match y with
  | NumFin b =>
      if q_is_zero b then Exn ExZeroDiv
      else match x with
           | NumFin a => Ok (q_divisible a b)
           | _ => Ok false
           end
  | NumNan => Ok false
  | NumInf _ =>
      match x with
      | NumFin a => Ok (q_is_zero a)
      | _ => Ok false
      end
  end.

Definition mod_dec (x y : num) : pres bool :=
  match x, y with
  | NumNan, _ | _, NumNan => Ok false       (* quiet NaN propagates; NaN == 0 is False *)
  | NumInf _, _ => Exn ExInvalidOp
  | NumFin a, NumInf _ => Ok (q_is_zero a)
  | NumFin a, NumFin b =>
      if q_is_zero b then Exn ExInvalidOp
      else if 10 ^ dec_prec <=? q_trunc_abs (Qdiv a b) then Exn ExInvalidOp
      else Ok (q_divisible a b)
  end.

Definition py_mod_is_zero (v f : pyval) : pres bool :=
  let v := unsub v in
  let f := unsub f in
  match num_of v, num_of f with
  | Some x, Some y =>
      match numkind_of v, numkind_of f with
      | NkInt, NkInt => mod_int (int_val v) (int_val f)
      | NkInt, NkFloat | NkFloat, NkInt | NkFloat, NkFloat => mod_float x y
      | NkInt, NkDec | NkDec, NkInt | NkDec, NkDec =>
          if is_dec_snan v || is_dec_snan f then Exn ExInvalidOp else mod_dec x y
      | _, _ => Exn ExType
      end
  | _, _ => Exn ExType
  end.

(* ---------- prefix / suffix ---------- *)

Fixpoint is_prefix (p s : list Z) : bool :=
  match p, s with
  | [], _ => true
  | x :: p', y :: s' => (x =? y) && is_prefix p' s'
  | _ :: _, [] => false
  end.

Definition is_suffix (p s : list Z) : bool := is_prefix (rev p) (rev s).

Definition py_affix (suffix : bool) (v p : pyval) : pres bool :=
  match unsub v, unsub p with
  | VStr s, VStr q | VBytes s, VBytes q => Ok (if suffix then is_suffix q s else is_prefix q s)
  | (VStr _ | VBytes _), _ => Exn ExType
  | _, _ => Exn ExAttribute
  end.

(* ---------- whitespace, strip, case ---------- *)

Definition in_range (lo hi c : Z) : bool := (lo <=? c) && (c <=? hi).

(* str.isspace() code points (CPython 3.12 / Unicode 15) *)
Definition is_space_uni (c : Z) : bool :=
  in_range 9 13 c || in_range 28 32 c || (c =? 133) || (c =? 160) || (c =? 5760)
  || in_range 8192 8202 c || (c =? 8232) || (c =? 8233) || (c =? 8239) || (c =? 8287)
  || (c =? 12288).

(* bytes.strip() default set *)
Definition is_space_ascii (c : Z) : bool := in_range 9 13 c || (c =? 32).

Fixpoint lstrip (sp : Z -> bool) (s : list Z) : list Z :=
  match s with
  | [] => []
  | c :: s' => if sp c then lstrip sp s' else s
  end.

Definition strip_with (sp : Z -> bool) (s : list Z) : list Z :=
  rev (lstrip sp (rev (lstrip sp s))).

Definition py_strip (v : pyval) : pres pyval :=
  match unsub v with
  | VStr s => Ok (VStr (strip_with is_space_uni s))
  | VBytes s => Ok (VBytes (strip_with is_space_ascii s))
  | _ => Exn ExAttribute
  end.

Definition ascii_upper (c : Z) : Z := if in_range 97 122 c then c - 32 else c.
Definition ascii_lower (c : Z) : Z := if in_range 65 90 c then c + 32 else c.
Definition all_ascii (s : list Z) : bool := forallb (fun c => c <? 128) s.

Section Case.
  (* non-ASCII str case mapping is an oracle: [case_map upper s] *)
  Variable case_map : bool -> list Z -> list Z.

  Definition py_case (upper : bool) (v : pyval) : pres pyval :=
    match unsub v with
    | VStr s =>
        if all_ascii s then Ok (VStr (map (if upper then ascii_upper else ascii_lower) s))
        else Ok (VStr (case_map upper s))
    | VBytes s => Ok (VBytes (map (if upper then ascii_upper else ascii_lower) s))
    | _ => Exn ExAttribute
    end.
End Case.

(* ---------- uniqueness with type tags ---------- *)

Definition typed_eq (a b : pyval) : bool :=
  pytype_eqb (type_of a) (type_of b) && py_eq a b.

Fixpoint unique_typed (seen : list pyval) (xs : list pyval) : bool :=
  match xs with
  | [] => true
  | x :: xs' => if existsb (typed_eq x) seen then false else unique_typed (x :: seen) xs'
  end.
