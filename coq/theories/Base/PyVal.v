(* PyVal: the universe of Python values the model talks about, their runtime
   types, structural equality (used by the correspondence check and oracle
   tables) and Python's own [==] / hashing / container-merge behaviour.
   Modelled, not verified: tied to CPython 3.12 by the correspondence check. *)
From Coq Require Import ZArith List Bool QArith.
Import ListNotations.
Open Scope Z_scope.

Definition classid := nat.

Inductive pyfloat :=
| FNan
| FInf (neg : bool)
| FFin (neg : bool) (m : Z) (e : Z).   (* (-1)^neg * m * 2^e, m >= 0; zero is m = 0 *)

Inductive pydec :=
| DNan (neg : bool) (signalling : bool)
| DInf (neg : bool)
| DFin (neg : bool) (coeff : Z) (exp : Z).   (* (-1)^neg * coeff * 10^exp *)

Inductive pytype :=
| TNone | TBool | TInt | TFloat | TStr | TBytes | TDecimal | TUuid | TDate | TDatetime
| TList | TTuple | TSet | TDict | TJust | TNothing | TMaybe
| TClass (c : classid).

Inductive pyval :=
| VNone
| VBool (b : bool)
| VInt (z : Z)
| VFloat (f : pyfloat)
| VStr (s : list Z)                      (* code points *)
| VBytes (s : list Z)                    (* octets *)
| VDecimal (d : pydec)
| VUuid (n : Z)
| VDate (ord : Z)
| VDatetime (us : Z) (tz : option Z)     (* wall clock microseconds; utc offset in seconds when aware *)
| VList (xs : list pyval)
| VTuple (xs : list pyval)
| VSet (xs : list pyval)                 (* in iteration order *)
| VDict (kvs : list (pyval * pyval))     (* in insertion order *)
| VJust (v : pyval)
| VNothing
| VObj (c : classid) (fields : list (pyval * pyval))  (* instance of user class c: field name -> value *)
| VSub (c : classid) (base : pyval).                  (* instance of user subclass c of a builtin type *)

(* ---------- class table ---------- *)

Inductive class_kind :=
| CkData (slots : bool)      (* @dataclass *)
| CkNamed                    (* typing.NamedTuple *)
| CkTyped                    (* typing.TypedDict *)
| CkPlain                    (* any other class *)
| CkSub (base : pytype).     (* user subclass of a builtin *)

(* ---------- small equality helpers ---------- *)

Fixpoint list_eqb {A} (eqb : A -> A -> bool) (xs ys : list A) : bool :=
  match xs, ys with
  | [], [] => true
  | x :: xs', y :: ys' => eqb x y && list_eqb eqb xs' ys'
  | _, _ => false
  end.

Definition option_eqb {A} (eqb : A -> A -> bool) (x y : option A) : bool :=
  match x, y with
  | None, None => true
  | Some a, Some b => eqb a b
  | _, _ => false
  end.

Definition pyfloat_eqb (a b : pyfloat) : bool :=
  match a, b with
  | FNan, FNan => true
  | FInf n1, FInf n2 => Bool.eqb n1 n2
  | FFin n1 m1 e1, FFin n2 m2 e2 => Bool.eqb n1 n2 && (m1 =? m2) && (e1 =? e2)
  | _, _ => false
  end.

Definition pydec_eqb (a b : pydec) : bool :=
  match a, b with
  | DNan n1 s1, DNan n2 s2 => Bool.eqb n1 n2 && Bool.eqb s1 s2
  | DInf n1, DInf n2 => Bool.eqb n1 n2
  | DFin n1 c1 e1, DFin n2 c2 e2 => Bool.eqb n1 n2 && (c1 =? c2) && (e1 =? e2)
  | _, _ => false
  end.

Definition pytype_eqb (a b : pytype) : bool :=
  match a, b with
  | TNone, TNone | TBool, TBool | TInt, TInt | TFloat, TFloat | TStr, TStr
  | TBytes, TBytes | TDecimal, TDecimal | TUuid, TUuid | TDate, TDate
  | TDatetime, TDatetime | TList, TList | TTuple, TTuple | TSet, TSet
  | TDict, TDict | TJust, TJust | TNothing, TNothing | TMaybe, TMaybe => true
  | TClass c1, TClass c2 => Nat.eqb c1 c2
  | _, _ => false
  end.

(* structural (representation-level) equality: distinguishes 1 / True / 1.0,
   -0.0 / 0.0, Decimal('1') / Decimal('1.0'); order-sensitive on sets/dicts *)
Fixpoint pyval_eqb (a b : pyval) {struct a} : bool :=
  let fix leqb (xs ys : list pyval) {struct xs} : bool :=
    match xs, ys with
    | [], [] => true
    | x :: xs', y :: ys' => pyval_eqb x y && leqb xs' ys'
    | _, _ => false
    end in
  let fix kveqb (xs ys : list (pyval * pyval)) {struct xs} : bool :=
    match xs, ys with
    | [], [] => true
    | (k1, v1) :: xs', (k2, v2) :: ys' => pyval_eqb k1 k2 && pyval_eqb v1 v2 && kveqb xs' ys'
    | _, _ => false
    end in
  match a, b with
  | VNone, VNone => true
  | VBool x, VBool y => Bool.eqb x y
  | VInt x, VInt y => x =? y
  | VFloat x, VFloat y => pyfloat_eqb x y
  | VStr x, VStr y => list_eqb Z.eqb x y
  | VBytes x, VBytes y => list_eqb Z.eqb x y
  | VDecimal x, VDecimal y => pydec_eqb x y
  | VUuid x, VUuid y => x =? y
  | VDate x, VDate y => x =? y
  | VDatetime u1 t1, VDatetime u2 t2 => (u1 =? u2) && option_eqb Z.eqb t1 t2
  | VList x, VList y => leqb x y
  | VTuple x, VTuple y => leqb x y
  | VSet x, VSet y => leqb x y
  | VDict x, VDict y => kveqb x y
  | VJust x, VJust y => pyval_eqb x y
  | VNothing, VNothing => true
  | VObj c1 f1, VObj c2 f2 => Nat.eqb c1 c2 && kveqb f1 f2
  | VSub c1 b1, VSub c2 b2 => Nat.eqb c1 c2 && pyval_eqb b1 b2
  | _, _ => false
  end.

(* ---------- runtime types ---------- *)

Definition type_of (v : pyval) : pytype :=
  match v with
  | VNone => TNone | VBool _ => TBool | VInt _ => TInt | VFloat _ => TFloat
  | VStr _ => TStr | VBytes _ => TBytes | VDecimal _ => TDecimal | VUuid _ => TUuid
  | VDate _ => TDate | VDatetime _ _ => TDatetime
  | VList _ => TList | VTuple _ => TTuple | VSet _ => TSet | VDict _ => TDict
  | VJust _ => TJust | VNothing => TNothing
  | VObj c _ => TClass c | VSub c _ => TClass c
  end.

(* [type(v) is t] *)
Definition exact_type (v : pyval) (t : pytype) : bool := pytype_eqb (type_of v) t.

Section WithClasses.
  Variable ckind : classid -> class_kind.

  (* builtin subclass edges the code relies on *)
  Definition builtin_sub (a b : pytype) : bool :=
    pytype_eqb a b ||
    match a, b with
    | TBool, TInt => true
    | TDatetime, TDate => true
    | _, _ => false
    end.

  (* [isinstance(v, t)] for the targets used by the library *)
  Definition isinstance (v : pyval) (t : pytype) : bool :=
    match v with
    | VSub c b =>
        pytype_eqb (TClass c) t ||
        match ckind c with CkSub base => builtin_sub base t | _ => false end
    | VObj c _ =>
        pytype_eqb (TClass c) t ||
        match ckind c, t with CkNamed, TTuple => true | _, _ => false end
    | _ => builtin_sub (type_of v) t
    end.
End WithClasses.

(* ---------- numbers: Python's numeric tower as exact rationals ---------- *)

Inductive num := NumFin (q : Q) | NumInf (neg : bool) | NumNan.

Definition pow_q (base : Z) (e : Z) : Q :=
  if 0 <=? e then inject_Z (base ^ e) else Qmake 1 (Z.to_pos (base ^ (- e))).

Definition sgn_q (neg : bool) (q : Q) : Q := if neg then Qopp q else q.

Definition float_num (f : pyfloat) : num :=
  match f with
  | FNan => NumNan
  | FInf n => NumInf n
  | FFin n m e => NumFin (sgn_q n (Qmult (inject_Z m) (pow_q 2 e)))
  end.

Definition dec_num (d : pydec) : num :=
  match d with
  | DNan _ _ => NumNan
  | DInf n => NumInf n
  | DFin n c e => NumFin (sgn_q n (Qmult (inject_Z c) (pow_q 10 e)))
  end.

Definition num_of (v : pyval) : option num :=
  match v with
  | VBool b => Some (NumFin (inject_Z (if b then 1 else 0)))
  | VInt z => Some (NumFin (inject_Z z))
  | VFloat f => Some (float_num f)
  | VDecimal d => Some (dec_num d)
  | _ => None
  end.

Definition num_eqb (a b : num) : bool :=
  match a, b with
  | NumFin p, NumFin q => Qeq_bool p q
  | NumInf n1, NumInf n2 => Bool.eqb n1 n2
  | _, _ => false
  end.

(* a <= b on non-NaN numbers *)
Definition num_leb (a b : num) : bool :=
  match a, b with
  | NumFin p, NumFin q => Qle_bool p q
  | NumInf true, _ => match b with NumNan => false | _ => true end
  | _, NumInf false => match a with NumNan => false | _ => true end
  | _, _ => false
  end.

Definition num_ltb (a b : num) : bool := num_leb a b && negb (num_eqb a b).

(* instant of a datetime used for aware/aware comparison *)
Definition dt_instant (us : Z) (tz : option Z) : Z :=
  match tz with Some off => us - off * 1000000 | None => us end.

(* ---------- Python [==] ---------- *)

Fixpoint py_eq (a b : pyval) {struct a} : bool :=
  let fix leq (xs ys : list pyval) {struct xs} : bool :=
    match xs, ys with
    | [], [] => true
    | x :: xs', y :: ys' => py_eq x y && leq xs' ys'
    | _, _ => false
    end in
  (* every element of xs is py_eq to some element of ys *)
  let fix subset (xs ys : list pyval) {struct xs} : bool :=
    match xs with
    | [] => true
    | x :: xs' => existsb (py_eq x) ys && subset xs' ys
    end in
  (* every pair of xs has a py_eq key in ys with py_eq value *)
  let fix kvsub (xs ys : list (pyval * pyval)) {struct xs} : bool :=
    match xs with
    | [] => true
    | (k, v) :: xs' =>
        existsb (fun kv => py_eq k (fst kv) && py_eq v (snd kv)) ys && kvsub xs' ys
    end in
  let fix kveq (xs ys : list (pyval * pyval)) {struct xs} : bool :=
    match xs, ys with
    | [], [] => true
    | (k1, v1) :: xs', (k2, v2) :: ys' => py_eq k1 k2 && py_eq v1 v2 && kveq xs' ys'
    | _, _ => false
    end in
  match a, b with
  | VNone, VNone => true
  | (VBool _ | VInt _ | VFloat _ | VDecimal _), (VBool _ | VInt _ | VFloat _ | VDecimal _) =>
      match num_of a, num_of b with
      | Some x, Some y => num_eqb x y
      | _, _ => false
      end
  | VStr x, VStr y => list_eqb Z.eqb x y
  | VBytes x, VBytes y => list_eqb Z.eqb x y
  | VUuid x, VUuid y => x =? y
  | VDate x, VDate y => x =? y
  | VDatetime u1 t1, VDatetime u2 t2 =>
      match t1, t2 with
      | None, None => u1 =? u2
      | Some _, Some _ => dt_instant u1 t1 =? dt_instant u2 t2
      | _, _ => false
      end
  | VList x, VList y => leq x y
  | VTuple x, VTuple y => leq x y
  | VSet x, VSet y => Nat.eqb (length x) (length y) && subset x y
  | VDict x, VDict y => Nat.eqb (length x) (length y) && kvsub x y
  | VJust x, VJust y => py_eq x y
  | VNothing, VNothing => true
  | VObj c1 f1, VObj c2 f2 => Nat.eqb c1 c2 && kveq f1 f2
  | VSub c1 b1, VSub c2 b2 => py_eq b1 b2
  | VSub _ b1, _ => py_eq b1 b
  | _, _ => false
  end.

(* ---------- hashing ---------- *)

Section Hash.
  Variable chashable : classid -> bool.

  Fixpoint hashable (v : pyval) : bool :=
    match v with
    | VNone | VBool _ | VInt _ | VFloat _ | VStr _ | VBytes _ | VUuid _ | VDate _
    | VDatetime _ _ => true
    | VDecimal (DNan _ true) => false          (* hash(Decimal('sNaN')) raises *)
    | VDecimal _ => true
    | VList _ | VSet _ | VDict _ => false
    | VTuple xs => forallb hashable xs
    | VJust _ | VNothing => false              (* koda defines __eq__ without __hash__ *)
    | VObj c fs => chashable c && forallb (fun kv => hashable (snd kv)) fs
    | VSub c b => chashable c && hashable b
    end.
End Hash.

(* ---------- containers as Python builds them ---------- *)

(* [x in xs] by == *)
Definition py_in (x : pyval) (xs : list pyval) : bool := existsb (py_eq x) xs.

(* set.add: keeps the first of equal members *)
Definition set_add (xs : list pyval) (x : pyval) : list pyval :=
  if py_in x xs then xs else xs ++ [x].

(* d[k] = v: an existing equal key keeps its key object and position *)
Fixpoint dict_set (kvs : list (pyval * pyval)) (k v : pyval) : list (pyval * pyval) :=
  match kvs with
  | [] => [(k, v)]
  | (k', v') :: rest => if py_eq k' k then (k', v) :: rest else (k', v') :: dict_set rest k v
  end.

Fixpoint dict_get (kvs : list (pyval * pyval)) (k : pyval) : option pyval :=
  match kvs with
  | [] => None
  | (k', v') :: rest => if py_eq k' k then Some v' else dict_get rest k
  end.

Definition dict_has (kvs : list (pyval * pyval)) (k : pyval) : bool :=
  match dict_get kvs k with Some _ => true | None => false end.

Definition dict_keys (kvs : list (pyval * pyval)) : list pyval := map fst kvs.
