(* C07 - typehint-derived validators are sound and complete for the annotated type.
   PARTIAL: soundness (and, in signature mode, strictness with identical payloads) are theorems
   for every annotation without record classes (scalars, Any, None, naked and parametrised
   list / set / dict / tuple forms, unions incl. Optional and |, Literal, Maybe, Required /
   NotRequired, arbitrary classes; any nesting). Record classes: the shape of the derived
   validator is a theorem here, its behaviour is C04's theorems; completeness and payload
   identity in default mode are tied by the differential run against an independent type oracle. *)
From Coq Require Import ZArith List Bool.
From KV Require Import Base.PyVal Base.Prims Model.Validator Model.Sem Model.Derive Proofs.DeriveP Corr.UserLib.
Import ListNotations.

(* Valid(w) only if w is a value of the annotated type - in both resolution modes, for every
   environment whose stdlib constructors return their own type, every input and every fuel *)
Theorem C07_sound :
  forall (E : env),
    (forall k x y, oracle E k x = Some y -> exact_type y (okind_type k) = true) ->
    forall a, plain a = true ->
    forall sig v, derive sig a = Ok v ->
    forall fuel x w, run E Sync fuel v x = OValid w -> has_type a w = true.
Proof. exact derive_sound. Qed.
Print Assumptions C07_sound.

(* Annotated[T, validator]: the validator is used as it is *)
Theorem C07_annotated : forall sig a v, derive sig (AAnnotated a (Some v)) = Ok v.
Proof. reflexivity. Qed.
Print Assumptions C07_annotated.

(* record types derive their key set, per-field validators and requiredness from the class *)
Theorem C07_record_shape :
  forall sig rk c fields v,
    derive sig (ARecord rk c fields) = Ok v ->
    exists schema, v = ClassV rk c schema None None false (record_co sig rk c) /\
                   map fst schema = map fst fields /\
                   map (fun e => snd (snd e)) schema = map (fun e => snd (snd e)) fields /\
                   Forall2 (fun e s => derive sig (fst (snd e)) = Ok (fst (snd s))) fields schema.
Proof. exact derive_record. Qed.
Print Assumptions C07_record_shape.

(* non-vacuity *)
Section Example.
  Open Scope Z_scope.
  Definition T := AUnion [AList (AScalar KDecimal); ATupleN [AScalar KInt; ALiteral [VStr [97]; VStr [98]]]; ANone].
  Definition E0 : env := mk_env [] [] [(OkDecimal, (VStr [49], Some (VDecimal (DFin false 1 0))))] [] [] [].
  Example C07_nonvacuous :
    plain T = true /\
    exists v, derive false T = Ok v /\
              run E0 Sync 6 v (VList [VStr [49]]) = OValid (VList [VDecimal (DFin false 1 0)]) /\
              has_type T (VList [VDecimal (DFin false 1 0)]) = true /\
              run E0 Sync 6 v (VTuple [VInt 3; VStr [98]]) = OValid (VTuple [VInt 3; VStr [98]]) /\
              (exists i, run E0 Sync 6 v (VTuple [VBool true; VStr [98]]) = OInvalid i).
  Proof. split; [reflexivity|]. eexists. repeat split; try (vm_compute; reflexivity). eexists. vm_compute. reflexivity. Qed.
End Example.
