(* C07 - typehint-derived validators are sound and complete for the annotated type.
   PARTIAL: soundness is a theorem for the whole grammar, record classes included, both
   resolution modes.  Completeness with identical payloads is a theorem in signature mode
   (nothing is coerced) for annotations without record classes / user validators (Literal members
   str / int / bool / bytes / None)
   (C07_complete_signature_mode_partial): a value of the annotated type is returned unchanged,
   every other well-formed value gets an Invalid, never an exception.  In default mode the
   unrestricted completeness statement is FALSE of the faithful model and of the implementation
   (C07_complete_default_refuted, known finding): a coercing earlier union variant can raise on a
   value that a later variant's type contains.  Default-mode completeness and payload identity
   are otherwise tied by the differential run against an independent type oracle. *)
From Coq Require Import ZArith List Bool Arith.
From KV Require Import Base.PyVal Base.Prims Model.Validator Model.Sem Model.Derive Proofs.DeriveP Proofs.DeriveR Proofs.DeriveC Proofs.DeriveD Proofs.Agree Corr.UserLib.
Import ListNotations.

(* Valid(w) only if w is a value of the annotated type - for EVERY annotation of the grammar
   without user validators (okann: scalars, Any, None, list / set / dict / tuple forms, unions,
   Literal, Maybe, Required / NotRequired, arbitrary classes, dataclasses, NamedTuples, TypedDicts,
   any nesting; a record node needs string field names without repetition, the class table
   listing the same names, and declared defaults of the field's type - they are used on trust),
   in both resolution modes, for every environment whose stdlib constructors return their own
   type, every input and every fuel *)
Theorem C07_sound :
  forall (E : env),
    (forall k x y, oracle E k x = Some y -> exact_type y (okind_type k) = true) ->
    forall a, okann E a = true ->
    forall sig v, derive sig a = Ok v ->
    forall fuel x w, run E Sync fuel v x = OValid w -> has_type a w = true.
Proof. exact derive_sound_all. Qed.
Print Assumptions C07_sound.

(* Annotated[T, validator]: the validator is used as it is *)
Theorem C07_annotated : forall sig a v, derive sig (AAnnotated a (Some v)) = Ok v.
Proof. reflexivity. Qed.
Print Assumptions C07_annotated.

(* record types derive their key set, per-field validators and requiredness from the class *)
Theorem C07_record_shape :
  forall sig rk c fields v,
    derive sig (ARecord rk c fields) = Ok v ->
    exists schema, v = ClassV rk c schema None None false (record_co sig rk c) /\
                   map fst schema = map fst fields /\
                   map (fun e => snd (snd e)) schema = map (fun e => snd (snd e)) fields /\
                   Forall2 (fun e s => derive sig (fst (snd e)) = Ok (fst (snd s))) fields schema.
Proof. exact derive_record. Qed.
Print Assumptions C07_record_shape.

(* signature mode: the derived validator decides the annotated type.  [cplain]: no user validator,
   Literal members str / int / bool / bytes / None, record classes are dataclasses / NamedTuples with
   a consistent class table.  [hproper]: the value is one Python can build (set members and dict keys
   hashable and pairwise distinct, instances carry exactly their class's fields).  Fuel above the
   annotation's height is enough whatever the value. *)
Theorem C07_complete_signature_mode_partial :
  forall (E : env) a, cplain E a = true ->
    forall v, derive true a = Ok v ->
    forall n x, (aheight a < n)%nat -> hproper E x = true ->
      (has_type a x = true -> run E Sync n v x = OValid x) /\
      (has_type a x = false -> exists i, run E Sync n v x = OInvalid i).
Proof.
  intros E a Hc v Hd n x Hn Hp. destruct (derive_complete E a Hc v Hd n x Hn Hp) as [N C].
  split; [exact C|]. intros Hf. destruct (run E Sync n v x) as [w|i| | |] eqn:Er; try discriminate.
  - destruct (derive_strict_all E a (cplain_okstrict E a Hc) v Hd n x w Er (hproper_inst E x Hp)) as [Ht _]. congruence.
  - exists i. reflexivity.
Qed.
Print Assumptions C07_complete_signature_mode_partial.

(* ... and the awaited asynchronous call gives the very same answer (with C06_agree) *)
Corollary C07_complete_signature_mode_async :
  forall (E : env), user_coherent E ->
    forall a, cplain E a = true -> forall v, derive true a = Ok v ->
    forall n x, (aheight a < n)%nat -> hproper E x = true ->
      run E Async n v x = run E Sync n v x.
Proof.
  intros E Hu a Hc v Hd n x Hn Hp. destruct (derive_complete E a Hc v Hd n x Hn Hp) as [N _].
  pose proof (run_agree E (uapred E) (uaobj E) Hu n v x N) as R. destruct E; exact R.
Qed.
Print Assumptions C07_complete_signature_mode_async.

(* default mode (coercing validators), on the fragment where no coerced value is ever hashed
   ([dplain]: [cplain], and the member type of every Set and the key type of every Dict is [rigid] -
   nothing below it is coerced; the finding below is exactly a violation of that side condition):
   every well-formed value gets a normal answer, every value of the annotated type is accepted, and
   the payload is that very value wherever no earlier union variant could have coerced it
   ([dident]: unions of rigid variants and Optional[T] for any T; tuples from lists, Decimal / UUID /
   date / datetime from strings and records from mappings do not disturb a value that already has
   the type). *)
Theorem C07_complete_default_partial :
  forall (E : env) a, dplain E a = true ->
    forall v, derive false a = Ok v ->
    forall n x, (aheight a < n)%nat -> hproper E x = true ->
      normal (run E Sync n v x) = true /\
      (has_type a x = true ->
       exists w, run E Sync n v x = OValid w /\ (dident a = true -> w = x)).
Proof. exact derive_complete_default. Qed.
Print Assumptions C07_complete_default_partial.

Corollary C07_complete_default_async :
  forall (E : env), user_coherent E ->
    forall a, dplain E a = true -> forall v, derive false a = Ok v ->
    forall n x, (aheight a < n)%nat -> hproper E x = true ->
      run E Async n v x = run E Sync n v x.
Proof.
  intros E Hu a Hc v Hd n x Hn Hp. destruct (derive_complete_default E a Hc v Hd n x Hn Hp) as [N _].
  pose proof (run_agree E (uapred E) (uaobj E) Hu n v x N) as R. destruct E; exact R.
Qed.
Print Assumptions C07_complete_default_async.

(* where nothing is coerced the two resolution modes derive the same validator *)
Theorem C07_rigid_modes_coincide : forall a, rigid a = true -> derive false a = derive true a.
Proof. exact rigid_derive. Qed.
Print Assumptions C07_rigid_modes_coincide.

(* default mode: {"sNaN"} is a Set[str], yet Union[Set[Decimal], Set[str]] raises on it - the
   Decimal variant coerces the member to Decimal('sNaN'), which cannot be hashed into the payload set *)
Section Refuted.
  Open Scope Z_scope.
  Definition snan := VStr [115; 78; 97; 78].
  Definition E_snan : env := mk_env [] [] [(OkDecimal, (snan, Some (VDecimal (DNan false true))))] [] [] [].
  Definition U := AUnion [ASet (AScalar KDecimal); ASet (AScalar KStr)].
  Example C07_complete_default_refuted :
    has_type U (VSet [snan]) = true /\ hproper E_snan (VSet [snan]) = true /\
    exists v, derive false U = Ok v /\ run E_snan Sync 6 v (VSet [snan]) = ORaise ExType.
  Proof. split; [vm_compute; reflexivity|]. split; [vm_compute; reflexivity|]. eexists. split; [vm_compute; reflexivity|]. vm_compute. reflexivity. Qed.
  (* the same annotation in signature mode accepts it unchanged *)
  Example C07_complete_signature_mode_there :
    exists v, derive true U = Ok v /\ run E_snan Sync 6 v (VSet [snan]) = OValid (VSet [snan]).
  Proof. eexists. split; [vm_compute; reflexivity|]. vm_compute. reflexivity. Qed.
End Refuted.

(* non-vacuity *)
Section Example.
  Open Scope Z_scope.
  Definition T := AUnion [AList (AScalar KDecimal); ATupleN [AScalar KInt; ALiteral [VStr [97]; VStr [98]]]; ANone].
  Definition E0 : env := mk_env [] [] [(OkDecimal, (VStr [49], Some (VDecimal (DFin false 1 0))))] [] [] [].
  Example C07_nonvacuous :
    okann E0 T = true /\
    exists v, derive false T = Ok v /\
              run E0 Sync 6 v (VList [VStr [49]]) = OValid (VList [VDecimal (DFin false 1 0)]) /\
              has_type T (VList [VDecimal (DFin false 1 0)]) = true /\
              run E0 Sync 6 v (VTuple [VInt 3; VStr [98]]) = OValid (VTuple [VInt 3; VStr [98]]) /\
              (exists i, run E0 Sync 6 v (VTuple [VBool true; VStr [98]]) = OInvalid i).
  Proof. split; [reflexivity|]. eexists. repeat split; try (vm_compute; reflexivity). eexists. vm_compute. reflexivity. Qed.
End Example.

(* a TypedDict and a dataclass with a default, nested *)
Section Example2.
  Open Scope Z_scope.
  Definition sa := VStr [97]. Definition sb := VStr [98].
  Definition E1 : env :=
    mk_env [Build_cls CkTyped false [(sa, None); (sb, None)];
            Build_cls (CkData false) false [(sa, None); (sb, Some (VInt 7))]] [] [] [] [] [].
  Definition TD := ARecord RkTyped 0%nat [(sa, (AScalar KInt, true)); (sb, (AScalar KStr, false))].
  Definition DC := ARecord RkData 1%nat [(sa, (AList TD, true)); (sb, (AScalar KInt, false))].
  Example C07_nonvacuous_records :
    okann E1 DC = true /\
    exists v, derive false DC = Ok v /\
              run E1 Sync 8 v (VDict [(sa, VList [VDict [(sa, VInt 1)]])])
              = OValid (VObj 1%nat [(sa, VList [VDict [(sa, VInt 1)]]); (sb, VInt 7)]) /\
              has_type DC (VObj 1%nat [(sa, VList [VDict [(sa, VInt 1)]]); (sb, VInt 7)]) = true /\
              (exists i, run E1 Sync 8 v (VDict [(sb, VInt 1)]) = OInvalid i).
  Proof. split; [reflexivity|]. eexists. repeat split; try (vm_compute; reflexivity). eexists. vm_compute. reflexivity. Qed.
  (* signature mode: an instance of the dataclass is returned unchanged, a mapping is not an instance *)
  Definition inst := VObj 1%nat [(sa, VList [VDict [(sa, VInt 1)]]); (sb, VInt 7)].
  Definition DC2 := ARecord RkData 1%nat [(sa, (AList (ADict (AScalar KStr) (AScalar KInt)), true)); (sb, (AScalar KInt, false))].
  Example C07_nonvacuous_complete :
    cplain E1 DC2 = true /\ hproper E1 inst = true /\ has_type DC2 inst = true /\
    exists v, derive true DC2 = Ok v /\ (aheight DC2 < 6)%nat /\
              run E1 Sync 6 v inst = OValid inst /\
              (exists i, run E1 Sync 6 v (VDict [(sa, VList [])]) = OInvalid i).
  Proof.
    split; [vm_compute; reflexivity|]. split; [vm_compute; reflexivity|]. split; [vm_compute; reflexivity|].
    eexists. split; [vm_compute; reflexivity|]. split; [apply Nat.ltb_lt; vm_compute; reflexivity|].
    split; [vm_compute; reflexivity|]. eexists. vm_compute. reflexivity.
  Qed.
End Example2.

(* default mode, non-vacuity: Optional[Decimal], a list of (int, Decimal) pairs written as lists, and a
   dataclass holding both, given as an instance (returned unchanged) and as a mapping (coerced) *)
Section Example3.
  Open Scope Z_scope.
  Definition d1 := VDecimal (DFin false 1 0).
  Definition E2 : env :=
    mk_env [Build_cls (CkData false) false [(sa, None); (sb, Some VNone)]] []
           [(OkDecimal, (VStr [49], Some d1))] [] [] [].
  Definition OD := AUnion [AScalar KDecimal; ANone].
  Definition DC3 := ARecord RkData 0%nat
      [(sa, (AList (ATupleN [AScalar KInt; AScalar KDecimal]), true)); (sb, (OD, false))].
  Definition inst3 := VObj 0%nat [(sa, VList [VTuple [VInt 1; d1]]); (sb, VNone)].
  Example C07_nonvacuous_default :
    dplain E2 DC3 = true /\ dident DC3 = true /\ rigid DC3 = false /\
    hproper E2 inst3 = true /\ has_type DC3 inst3 = true /\
    exists v, derive false DC3 = Ok v /\ (aheight DC3 < 6)%nat /\
              run E2 Sync 6 v inst3 = OValid inst3 /\
              run E2 Sync 6 v (VDict [(sa, VList [VList [VInt 1; VStr [49]]])]) = OValid inst3 /\
              (exists i, run E2 Sync 6 v (VDict [(sa, VList [VList [VInt 1; VNone]])]) = OInvalid i).
  Proof.
    split; [vm_compute; reflexivity|]. split; [vm_compute; reflexivity|]. split; [vm_compute; reflexivity|].
    split; [vm_compute; reflexivity|]. split; [vm_compute; reflexivity|].
    eexists. split; [vm_compute; reflexivity|]. split; [apply Nat.ltb_lt; vm_compute; reflexivity|].
    split; [vm_compute; reflexivity|]. split; [vm_compute; reflexivity|]. eexists. vm_compute. reflexivity.
  Qed.
  (* the refuted annotation lies outside the fragment for exactly the reason it fails *)
  Example C07_refuted_outside_fragment : dplain E_snan U = false.
  Proof. vm_compute. reflexivity. Qed.
End Example3.
