(* C07 - typehint-derived validators are sound and complete for the annotated type.
   PARTIAL: soundness is a theorem for the whole grammar, record classes included; strictness
   with identical payloads (signature mode, C09_strict) for annotations without record classes;
   completeness and payload identity in default mode are tied by the differential run against an
   independent type oracle. *)
From Coq Require Import ZArith List Bool.
From KV Require Import Base.PyVal Base.Prims Model.Validator Model.Sem Model.Derive Proofs.DeriveP Proofs.DeriveR Corr.UserLib.
Import ListNotations.

(* Valid(w) only if w is a value of the annotated type - for EVERY annotation of the grammar
   without user validators (okann: scalars, Any, None, list / set / dict / tuple forms, unions,
   Literal, Maybe, Required / NotRequired, arbitrary classes, dataclasses, NamedTuples, TypedDicts,
   any nesting; a record node needs string field names without repetition, the class table
   listing the same names, and declared defaults of the field's type - they are used on trust),
   in both resolution modes, for every environment whose stdlib constructors return their own
   type, every input and every fuel *)
Theorem C07_sound :
  forall (E : env),
    (forall k x y, oracle E k x = Some y -> exact_type y (okind_type k) = true) ->
    forall a, okann E a = true ->
    forall sig v, derive sig a = Ok v ->
    forall fuel x w, run E Sync fuel v x = OValid w -> has_type a w = true.
Proof. exact derive_sound_all. Qed.
Print Assumptions C07_sound.

(* Annotated[T, validator]: the validator is used as it is *)
Theorem C07_annotated : forall sig a v, derive sig (AAnnotated a (Some v)) = Ok v.
Proof. reflexivity. Qed.
Print Assumptions C07_annotated.

(* record types derive their key set, per-field validators and requiredness from the class *)
Theorem C07_record_shape :
  forall sig rk c fields v,
    derive sig (ARecord rk c fields) = Ok v ->
    exists schema, v = ClassV rk c schema None None false (record_co sig rk c) /\
                   map fst schema = map fst fields /\
                   map (fun e => snd (snd e)) schema = map (fun e => snd (snd e)) fields /\
                   Forall2 (fun e s => derive sig (fst (snd e)) = Ok (fst (snd s))) fields schema.
Proof. exact derive_record. Qed.
Print Assumptions C07_record_shape.

(* non-vacuity *)
Section Example.
  Open Scope Z_scope.
  Definition T := AUnion [AList (AScalar KDecimal); ATupleN [AScalar KInt; ALiteral [VStr [97]; VStr [98]]]; ANone].
  Definition E0 : env := mk_env [] [] [(OkDecimal, (VStr [49], Some (VDecimal (DFin false 1 0))))] [] [] [].
  Example C07_nonvacuous :
    okann E0 T = true /\
    exists v, derive false T = Ok v /\
              run E0 Sync 6 v (VList [VStr [49]]) = OValid (VList [VDecimal (DFin false 1 0)]) /\
              has_type T (VList [VDecimal (DFin false 1 0)]) = true /\
              run E0 Sync 6 v (VTuple [VInt 3; VStr [98]]) = OValid (VTuple [VInt 3; VStr [98]]) /\
              (exists i, run E0 Sync 6 v (VTuple [VBool true; VStr [98]]) = OInvalid i).
  Proof. split; [reflexivity|]. eexists. repeat split; try (vm_compute; reflexivity). eexists. vm_compute. reflexivity. Qed.
End Example.

(* a TypedDict and a dataclass with a default, nested *)
Section Example2.
  Open Scope Z_scope.
  Definition sa := VStr [97]. Definition sb := VStr [98].
  Definition E1 : env :=
    mk_env [Build_cls CkTyped false [(sa, None); (sb, None)];
            Build_cls (CkData false) false [(sa, None); (sb, Some (VInt 7))]] [] [] [] [] [].
  Definition TD := ARecord RkTyped 0%nat [(sa, (AScalar KInt, true)); (sb, (AScalar KStr, false))].
  Definition DC := ARecord RkData 1%nat [(sa, (AList TD, true)); (sb, (AScalar KInt, false))].
  Example C07_nonvacuous_records :
    okann E1 DC = true /\
    exists v, derive false DC = Ok v /\
              run E1 Sync 8 v (VDict [(sa, VList [VDict [(sa, VInt 1)]])])
              = OValid (VObj 1%nat [(sa, VList [VDict [(sa, VInt 1)]]); (sb, VInt 7)]) /\
              has_type DC (VObj 1%nat [(sa, VList [VDict [(sa, VInt 1)]]); (sb, VInt 7)]) = true /\
              (exists i, run E1 Sync 8 v (VDict [(sb, VInt 1)]) = OInvalid i).
  Proof. split; [reflexivity|]. eexists. repeat split; try (vm_compute; reflexivity). eexists. vm_compute. reflexivity. Qed.
End Example2.
