(* C17 - Validated output is a fixed point: re-validating a payload returns it unchanged.
   PARTIAL.  The full statement - for all trees of the quantifier - is FALSE of the faithful
   model and of the implementation (C17_refuted_container_predicates below; known finding):
   container predicates are evaluated on the input container, so payload-changing children
   can make the payload violate them.  What is proved is the statement on the fragment
   [fp_ok]: scalars (no / default coercer, stable processors), None, equality, AlwaysValid,
   IsDict, lists / uniform tuples with count-only container predicates, n-tuples, unions of
   input-returning variants, Optional, Maybe, Lazy and cache wrappers, arbitrarily nested.
   Sets, maps and record validators are covered by re-validation in the correspondence only. *)
From Coq Require Import ZArith List Bool.
From KV Require Import Base.PyVal Base.Prims Model.Validator Model.Sem
     Proofs.Typed Proofs.Fixpoint.
Import ListNotations.
Open Scope nat_scope.

Theorem C17_fixpoint_partial :
  forall E,
    (forall k x y, oracle E k x = Some y -> exact_type y (otype k) = true) ->
    (forall r, fp_ok E (lazy_env E r)) ->
    forall m fuel v x w,
      fp_ok E v -> run E m fuel v x = OValid w -> run E m fuel v w = OValid w.
Proof. exact run_fix. Qed.
Print Assumptions C17_fixpoint_partial.

Theorem C17_builtin_processors_stable :
  forall E,
    (forall t, procs_stable E t []) /\
    procs_stable E TStr [Strip] /\ procs_stable E TBytes [Strip] /\
    procs_stable E TBytes [Upper] /\ procs_stable E TBytes [Lower].
Proof.
  intros E.
  split; [intros t; apply procs_stable_nil|].
  split; [apply procs_stable_strip_str|].
  split; [apply procs_stable_strip_bytes|].
  split; [apply procs_stable_upper_bytes | apply procs_stable_lower_bytes].
Qed.
Print Assumptions C17_builtin_processors_stable.

Section Example.
  Local Open Scope Z_scope.
  Definition ex_env : env :=
    {| classes := fun _ => {| ckind_of := CkPlain; chash_of := true; cfields_of := [] |};
       upred := fun _ _ => true; uapred := fun _ _ => false; uproc := fun _ x => x;
       ucoerce := fun _ x => Some x; ucompat := fun _ => [];
       uinto := fun _ xs => VTuple xs; uobj := fun _ _ => None; uaobj := fun _ _ => None;
       uvalid := fun _ _ _ x => OValid x; lazy_env := fun _ => AlwaysValid;
       oracle := fun _ _ => None; re_match := fun _ _ => true; email_match := fun _ => true;
       case_map := fun _ s => s |}.
  Definition strip_str := Scalar KStr None [Strip] [PNotBlank] [].
  (* the refutation: unique on the input, not unique on the payload *)
  Example C17_refuted_container_predicates :
    run ex_env Sync 2%nat (ListV strip_str [PUniqueItems] [] None) (VList [VStr [32; 97]; VStr [97; 32]])
    = OValid (VList [VStr [97]; VStr [97]])
    /\ run ex_env Sync 2%nat (ListV strip_str [PUniqueItems] [] None) (VList [VStr [97]; VStr [97]])
       = OInvalid (Invalid (PredicateErrs [PRSync PUniqueItems]) (VList [VStr [97]; VStr [97]])
                           (ListV strip_str [PUniqueItems] [] None)).
  Proof. split; vm_compute; reflexivity. Qed.
  (* non-vacuity: a member of the fragment and a run through it *)
  Definition tree := UTupleV (OptionalV (NoneV None) strip_str) [PMinItems 1] [] (Some CoTupleOrList).
  Example C17_nonvacuous_fp_ok : fp_ok ex_env tree.
  Proof.
    cbn [fp_ok tree strip_str]. split; [right; reflexivity|]. split.
    - split; [left; reflexivity | apply procs_stable_strip_str].
    - split; [|constructor].
      constructor; [|constructor]. intros xs ws Hl. cbn. unfold zlen. rewrite Hl. reflexivity.
  Qed.
  Example C17_nonvacuous_run :
    run ex_env Sync 4%nat tree (VList [VStr [32; 97]; VNone]) = OValid (VTuple [VStr [97]; VNone])
    /\ run ex_env Sync 4%nat tree (VTuple [VStr [97]; VNone]) = OValid (VTuple [VStr [97]; VNone]).
  Proof. split; vm_compute; reflexivity. Qed.
End Example.
