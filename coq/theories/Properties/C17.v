(* C17 - Validated output is a fixed point: re-validating a payload returns it unchanged.
   PARTIAL.  The full statement - for all trees of the quantifier - is FALSE of the faithful
   model and of the implementation (C17_refuted_container_predicates below; known finding):
   container predicates are evaluated on the input container, so payload-changing children
   can make the payload violate them.  What is proved is the statement on the fragment
   [fp_ok]: scalars (no / default coercer, stable processors), None, equality, AlwaysValid,
   IsDict, lists / uniform tuples with count-only container predicates, n-tuples, sets and maps
   without container predicates, DictValidatorAny and Dataclass / NamedTuple / TypedDict
   validators with string keys and no whole-object validator (class-table names equal to the
   schema's, a field without default is required, every declared default passes its field
   validator), unions of input-returning variants, Optional, Maybe, Lazy and cache wrappers,
   arbitrarily nested.  RecordValidator (user-supplied target) and container predicates on
   sets / maps are covered by re-validation in the correspondence only.

   Fuel: the second run may visit a validator the first did not (the validator of a field that
   was absent and got its default), so the record theorem grants it D more fuel, D being the
   fuel the declared defaults need; C17_fuel_is_an_artefact shows that more fuel never changes
   an answer, and without record classes (D = 0) the same fuel suffices. *)
From Coq Require Import ZArith List Bool Lia.
From KV Require Import Base.PyVal Base.Prims Model.Validator Model.Sem
     Model.Derive Proofs.Typed Proofs.Mono Proofs.FixRec Proofs.Fixpoint Proofs.DeriveP Proofs.DeriveC Proofs.DeriveD Corr.UserLib.
Import ListNotations.
Open Scope nat_scope.

Theorem C17_fixpoint_partial :
  forall E,
    (forall k x y, oracle E k x = Some y -> exact_type y (otype k) = true) ->
    (forall r, fp_ok E 0 (lazy_env E r)) ->
    forall m fuel v x w,
      fp_ok E 0 v -> run E m fuel v x = OValid w -> run E m fuel v w = OValid w.
Proof. exact run_fix. Qed.
Print Assumptions C17_fixpoint_partial.

Theorem C17_fixpoint_records_partial :
  forall E D,
    (forall k x y, oracle E k x = Some y -> exact_type y (otype k) = true) ->
    (forall r, fp_ok E D (lazy_env E r)) ->
    forall m fuel v x w,
      fp_ok E D v -> run E m fuel v x = OValid w -> run E m (fuel + D) v w = OValid w.
Proof. exact run_fix_fuel. Qed.
Print Assumptions C17_fixpoint_records_partial.

(* "derived validators accept the dataclass / named-tuple values they produce, coercing validators accept
   their own target type unchanged": for a validator derived from an annotation (default resolution) inside
   the completeness fragment of C07 ([dplain], [dident]), whatever it returns is returned again unchanged -
   the payload has the annotated type (C07_sound) and a value of the type is accepted as it is
   (C07_complete_default_partial).  Not a consequence of the theorems above: those are about validator trees
   in [fp_ok], this one is about annotations, unions with coercing variants under Optional included. *)
Theorem C17_derived_fixpoint_partial :
  forall E,
    (forall k x y, oracle E k x = Some y -> exact_type y (okind_type k) = true) ->
    forall a, dplain E a = true -> dident a = true ->
    forall v, derive false a = Ok v ->
    forall n n' x w, run E Sync n v x = OValid w -> aheight a < n' -> hproper E w = true ->
      run E Sync n' v w = OValid w.
Proof. exact derived_fixpoint. Qed.
Print Assumptions C17_derived_fixpoint_partial.

(* every validator kind: an answer other than "out of fuel" is the answer at every larger fuel *)
Theorem C17_fuel_is_an_artefact :
  forall E m n n' v x, n <= n' -> run E m n v x <> ONoFuel -> run E m n' v x = run E m n v x.
Proof. exact run_mono. Qed.
Print Assumptions C17_fuel_is_an_artefact.

Theorem C17_builtin_processors_stable :
  forall E,
    (forall t, procs_stable E t []) /\
    procs_stable E TStr [Strip] /\ procs_stable E TBytes [Strip] /\
    procs_stable E TBytes [Upper] /\ procs_stable E TBytes [Lower].
Proof.
  intros E.
  split; [intros t; apply procs_stable_nil|].
  split; [apply procs_stable_strip_str|].
  split; [apply procs_stable_strip_bytes|].
  split; [apply procs_stable_upper_bytes | apply procs_stable_lower_bytes].
Qed.
Print Assumptions C17_builtin_processors_stable.

Section Example.
  Local Open Scope Z_scope.
  Definition ex_env : env :=
    {| classes := fun _ => {| ckind_of := CkPlain; chash_of := true; cfields_of := [] |};
       upred := fun _ _ => true; uapred := fun _ _ => false; uproc := fun _ x => x;
       ucoerce := fun _ x => Some x; ucompat := fun _ => [];
       uinto := fun _ xs => VTuple xs; uobj := fun _ _ => None; uaobj := fun _ _ => None;
       uvalid := fun _ _ _ x => OValid x; lazy_env := fun _ => AlwaysValid;
       oracle := fun _ _ => None; re_match := fun _ _ => true; email_match := fun _ => true;
       case_map := fun _ s => s |}.
  Definition strip_str := Scalar KStr None [Strip] [PNotBlank] [].
  (* the refutation: unique on the input, not unique on the payload *)
  Example C17_refuted_container_predicates :
    run ex_env Sync 2%nat (ListV strip_str [PUniqueItems] [] None) (VList [VStr [32; 97]; VStr [97; 32]])
    = OValid (VList [VStr [97]; VStr [97]])
    /\ run ex_env Sync 2%nat (ListV strip_str [PUniqueItems] [] None) (VList [VStr [97]; VStr [97]])
       = OInvalid (Invalid (PredicateErrs [PRSync PUniqueItems]) (VList [VStr [97]; VStr [97]])
                           (ListV strip_str [PUniqueItems] [] None)).
  Proof. split; vm_compute; reflexivity. Qed.
  (* non-vacuity: a member of the fragment and a run through it *)
  Definition tree := UTupleV (OptionalV (NoneV None) strip_str) [PMinItems 1] [] (Some CoTupleOrList).
  Example C17_nonvacuous_fp_ok : fp_ok ex_env 0 tree.
  Proof.
    cbn [fp_ok tree strip_str]. split; [right; reflexivity|]. split.
    - split; [left; reflexivity | apply procs_stable_strip_str].
    - split; [|constructor].
      constructor; [|constructor]. intros xs ws Hl. cbn. unfold zlen. rewrite Hl. reflexivity.
  Qed.
  Example C17_nonvacuous_run :
    run ex_env Sync 4%nat tree (VList [VStr [32; 97]; VNone]) = OValid (VTuple [VStr [97]; VNone])
    /\ run ex_env Sync 4%nat tree (VTuple [VStr [97]; VNone]) = OValid (VTuple [VStr [97]; VNone]).
  Proof. split; vm_compute; reflexivity. Qed.
  (* a dataclass with a defaulted field inside a set-valued map: class 0 = (a: int, b: int = 5) *)
  Definition rec_env : env :=
    {| classes := fun _ => {| ckind_of := CkPlain; chash_of := true;
                              cfields_of := [(VStr [97], None); (VStr [98], Some (VInt 5))] |};
       upred := fun _ _ => true; uapred := fun _ _ => false; uproc := fun _ x => x;
       ucoerce := fun _ x => Some x; ucompat := fun _ => [];
       uinto := fun _ xs => VTuple xs; uobj := fun _ _ => None; uaobj := fun _ _ => None;
       uvalid := fun _ _ _ x => OValid x; lazy_env := fun _ => AlwaysValid;
       oracle := fun _ _ => None; re_match := fun _ _ => true; email_match := fun _ => true;
       case_map := fun _ s => s |}.
  Definition int_v := Scalar KInt None [] [] [].
  Definition data_v := ClassV RkData 0%nat [(VStr [97], (int_v, true)); (VStr [98], (int_v, false))] None None true None.
  Definition rec_tree := MapV strip_str (SetV data_v [] [] None) [] [] None.
  Example C17_nonvacuous_records_fp_ok : fp_ok rec_env 1 rec_tree.
  Proof.
    cbn [fp_ok rec_tree data_v strip_str int_v].
    split; [split; [left; reflexivity | apply procs_stable_strip_str]|].
    split; [reflexivity|]. split.
    { split; [split; [left; reflexivity | apply procs_stable_nil]|].
      split; [split; [left; reflexivity | apply procs_stable_nil]|]. exact I. }
    split; [reflexivity|].
    constructor; [|constructor; [|constructor]]; cbn [fst snd]; intros v req [Hin|[Hin|[]]]; inversion Hin; subst;
      try reflexivity; intros m0; destruct m0; reflexivity.
  Qed.
  Example C17_nonvacuous_records_run :
    run rec_env Sync 4%nat rec_tree (VDict [(VStr [32; 107], VSet [VDict [(VStr [97], VInt 1)]])])
    = OValid (VDict [(VStr [107], VSet [VObj 0%nat [(VStr [97], VInt 1); (VStr [98], VInt 5)]])])
    /\ run rec_env Sync 5%nat rec_tree (VDict [(VStr [107], VSet [VObj 0%nat [(VStr [97], VInt 1); (VStr [98], VInt 5)]])])
       = OValid (VDict [(VStr [107], VSet [VObj 0%nat [(VStr [97], VInt 1); (VStr [98], VInt 5)]])]).
  Proof. split; vm_compute; reflexivity. Qed.
End Example.

(* the derived-validator theorem is not vacuous: a dataclass with an Optional[Tuple[Decimal, ...]] field,
   given as a mapping holding a list of strings, comes back as an instance holding a tuple of Decimals,
   and that instance is accepted unchanged *)
Section ExampleDerived.
  Open Scope Z_scope.
  Definition fa := VStr [97].
  Definition dec1 := VDecimal (DFin false 1 0).
  Definition Ed : env := mk_env [Build_cls (CkData false) false [(fa, None)]] [] [(OkDecimal, (VStr [49], Some dec1))] [] [] [].
  Definition Ad := ARecord RkData 0%nat [(fa, (AUnion [ATupleU (AScalar KDecimal); ANone], true))].
  Definition wd := VObj 0%nat [(fa, VTuple [dec1])].
  Example C17_nonvacuous_derived :
    dplain Ed Ad = true /\ dident Ad = true /\ hproper Ed wd = true /\ (aheight Ad < 6)%nat /\
    exists v, derive false Ad = Ok v /\
              run Ed Sync 6 v (VDict [(fa, VList [VStr [49]])]) = OValid wd /\
              run Ed Sync 6 v wd = OValid wd.
  Proof.
    split; [vm_compute; reflexivity|]. split; [vm_compute; reflexivity|]. split; [vm_compute; reflexivity|].
    split; [apply Nat.ltb_lt; vm_compute; reflexivity|].
    eexists. split; [vm_compute; reflexivity|]. split; vm_compute; reflexivity.
  Qed.
End ExampleDerived.
