(* C15 - Built-in predicates and processors compute exactly their documented relations.
   Listing of the theorems of Proofs/Preds.v, restated with explicit quantifiers
   (regenerate with bin/gen_c15.py after editing Preds.v). *)
From Coq Require Import ZArith List Bool QArith.
From KV Require Import Base.PyVal Base.Prims Model.Validator Model.Sem Proofs.Preds.
Import ListNotations.
Open Scope Z_scope.

Theorem C15_min_int : forall E m ex z, pred_eval E (PMin (VInt m) ex) (VInt z) = Ok (if ex then m <? z else m <=? z).
Proof. exact min_int. Qed.
Print Assumptions C15_min_int.

Theorem C15_max_int : forall E m ex z, pred_eval E (PMax (VInt m) ex) (VInt z) = Ok (if ex then z <? m else z <=? m).
Proof. exact max_int. Qed.
Print Assumptions C15_max_int.

Theorem C15_float_nan_fails_bounds : forall E b ex, pred_eval E (PMin (VFloat b) ex) (VFloat FNan) = Ok false /\ pred_eval E (PMax (VFloat b) ex) (VFloat FNan) = Ok false.
Proof. exact float_nan_fails_bounds. Qed.
Print Assumptions C15_float_nan_fails_bounds.

Theorem C15_float_bound_exact : forall E a x ex, pred_eval E (PMin (VFloat a) ex) (VFloat x) = Ok (if ex then num_ltb (float_num a) (float_num x) else num_leb (float_num a) (float_num x)).
Proof. exact float_bound_exact. Qed.
Print Assumptions C15_float_bound_exact.

Theorem C15_float_signed_zeros_equal : py_eq (VFloat (FFin true 0 0)) (VFloat (FFin false 0 0)) = true.
Proof. exact float_signed_zeros_equal. Qed.
Print Assumptions C15_float_signed_zeros_equal.

Theorem C15_min_date : forall E m ex d, pred_eval E (PMin (VDate m) ex) (VDate d) = Ok (if ex then m <? d else m <=? d).
Proof. exact min_date. Qed.
Print Assumptions C15_min_date.

Theorem C15_max_date : forall E m ex d, pred_eval E (PMax (VDate m) ex) (VDate d) = Ok (if ex then d <? m else d <=? m).
Proof. exact max_date. Qed.
Print Assumptions C15_max_date.

Theorem C15_multiple_of_int : forall E f z, f <> 0 -> pred_eval E (PMultipleOf (VInt f)) (VInt z) = Ok (z mod f =? 0).
Proof. exact multiple_of_int. Qed.
Print Assumptions C15_multiple_of_int.

Theorem C15_multiple_of_int_iff : forall f z, f <> 0 -> (z mod f =? 0) = true <-> exists k, z = k * f.
Proof. exact multiple_of_int_iff. Qed.
Print Assumptions C15_multiple_of_int_iff.

Theorem C15_min_length_str : forall E n s, pred_eval E (PMinLength n) (VStr s) = Ok (n <=? zlen s).
Proof. exact min_length_str. Qed.
Print Assumptions C15_min_length_str.

Theorem C15_max_length_str : forall E n s, pred_eval E (PMaxLength n) (VStr s) = Ok (zlen s <=? n).
Proof. exact max_length_str. Qed.
Print Assumptions C15_max_length_str.

Theorem C15_exact_length_str : forall E n s, pred_eval E (PExactLength n) (VStr s) = Ok (zlen s =? n).
Proof. exact exact_length_str. Qed.
Print Assumptions C15_exact_length_str.

Theorem C15_min_length_bytes : forall E n s, pred_eval E (PMinLength n) (VBytes s) = Ok (n <=? zlen s).
Proof. exact min_length_bytes. Qed.
Print Assumptions C15_min_length_bytes.

Theorem C15_max_length_bytes : forall E n s, pred_eval E (PMaxLength n) (VBytes s) = Ok (zlen s <=? n).
Proof. exact max_length_bytes. Qed.
Print Assumptions C15_max_length_bytes.

Theorem C15_exact_length_bytes : forall E n s, pred_eval E (PExactLength n) (VBytes s) = Ok (zlen s =? n).
Proof. exact exact_length_bytes. Qed.
Print Assumptions C15_exact_length_bytes.

Theorem C15_min_items_list : forall E n xs, pred_eval E (PMinItems n) (VList xs) = Ok (n <=? zlen xs).
Proof. exact min_items_list. Qed.
Print Assumptions C15_min_items_list.

Theorem C15_max_items_list : forall E n xs, pred_eval E (PMaxItems n) (VList xs) = Ok (zlen xs <=? n).
Proof. exact max_items_list. Qed.
Print Assumptions C15_max_items_list.

Theorem C15_exact_items_tuple : forall E n xs, pred_eval E (PExactItemCount n) (VTuple xs) = Ok (zlen xs =? n).
Proof. exact exact_items_tuple. Qed.
Print Assumptions C15_exact_items_tuple.

Theorem C15_min_items_set : forall E n xs, pred_eval E (PMinItems n) (VSet xs) = Ok (n <=? zlen xs).
Proof. exact min_items_set. Qed.
Print Assumptions C15_min_items_set.

Theorem C15_min_keys : forall E n kvs, pred_eval E (PMinKeys n) (VDict kvs) = Ok (n <=? zlen kvs).
Proof. exact min_keys. Qed.
Print Assumptions C15_min_keys.

Theorem C15_max_keys : forall E n kvs, pred_eval E (PMaxKeys n) (VDict kvs) = Ok (zlen kvs <=? n).
Proof. exact max_keys. Qed.
Print Assumptions C15_max_keys.

Theorem C15_choices_membership : forall E cs x, hashable (chashable E) x = true -> pred_eval E (PChoices cs) x = Ok (py_in x cs).
Proof. exact choices_membership. Qed.
Print Assumptions C15_choices_membership.

Theorem C15_equal_to_is_eq : forall E m x, is_dec_snan (unsub m) = false -> is_dec_snan (unsub x) = false -> pred_eval E (PEqualTo m) x = Ok (py_eq x m).
Proof. exact equal_to_is_eq. Qed.
Print Assumptions C15_equal_to_is_eq.

Theorem C15_starts_with_str : forall E p s, pred_eval E (PStartsWith (VStr p)) (VStr s) = Ok (is_prefix p s).
Proof. exact starts_with_str. Qed.
Print Assumptions C15_starts_with_str.

Theorem C15_ends_with_str : forall E p s, pred_eval E (PEndsWith (VStr p)) (VStr s) = Ok (is_suffix p s).
Proof. exact ends_with_str. Qed.
Print Assumptions C15_ends_with_str.

Theorem C15_starts_with_bytes : forall E p s, pred_eval E (PStartsWith (VBytes p)) (VBytes s) = Ok (is_prefix p s).
Proof. exact starts_with_bytes. Qed.
Print Assumptions C15_starts_with_bytes.

Theorem C15_ends_with_bytes : forall E p s, pred_eval E (PEndsWith (VBytes p)) (VBytes s) = Ok (is_suffix p s).
Proof. exact ends_with_bytes. Qed.
Print Assumptions C15_ends_with_bytes.

Theorem C15_not_blank_str : forall E s, pred_eval E PNotBlank (VStr s) = Ok (negb (forallb is_space_uni s)).
Proof. exact not_blank_str. Qed.
Print Assumptions C15_not_blank_str.

Theorem C15_not_blank_bytes : forall E s, pred_eval E PNotBlank (VBytes s) = Ok (negb (forallb is_space_ascii s)).
Proof. exact not_blank_bytes. Qed.
Print Assumptions C15_not_blank_bytes.

Theorem C15_not_blank_iff : forall (sp : Z -> bool) (s : list Z), negb (forallb sp s) = true <-> exists c, In c s /\ sp c = false.
Proof. exact not_blank_iff. Qed.
Print Assumptions C15_not_blank_iff.

Theorem C15_strip_idempotent : forall sp s, strip_with sp (strip_with sp s) = strip_with sp s.
Proof. exact strip_idempotent. Qed.
Print Assumptions C15_strip_idempotent.

Theorem C15_strip_str : forall E s, proc_apply E Strip (VStr s) = Ok (VStr (strip_with is_space_uni s)).
Proof. exact strip_str. Qed.
Print Assumptions C15_strip_str.

Theorem C15_strip_bytes : forall E s, proc_apply E Strip (VBytes s) = Ok (VBytes (strip_with is_space_ascii s)).
Proof. exact strip_bytes. Qed.
Print Assumptions C15_strip_bytes.

Theorem C15_strip_decomposes : forall sp s, exists pre post, s = pre ++ strip_with sp s ++ post /\ forallb sp pre = true /\ forallb sp post = true.
Proof. exact strip_decomposes. Qed.
Print Assumptions C15_strip_decomposes.

Theorem C15_upper_bytes : forall E s, proc_apply E Upper (VBytes s) = Ok (VBytes (map ascii_upper s)).
Proof. exact upper_bytes. Qed.
Print Assumptions C15_upper_bytes.

Theorem C15_lower_bytes : forall E s, proc_apply E Lower (VBytes s) = Ok (VBytes (map ascii_lower s)).
Proof. exact lower_bytes. Qed.
Print Assumptions C15_lower_bytes.

Theorem C15_upper_ascii_str : forall E s, all_ascii s = true -> proc_apply E Upper (VStr s) = Ok (VStr (map ascii_upper s)).
Proof. exact upper_ascii_str. Qed.
Print Assumptions C15_upper_ascii_str.

Theorem C15_lower_ascii_str : forall E s, all_ascii s = true -> proc_apply E Lower (VStr s) = Ok (VStr (map ascii_lower s)).
Proof. exact lower_ascii_str. Qed.
Print Assumptions C15_lower_ascii_str.

Theorem C15_upper_bytes_idempotent : forall s, map ascii_upper (map ascii_upper s) = map ascii_upper s.
Proof. exact upper_bytes_idempotent. Qed.
Print Assumptions C15_upper_bytes_idempotent.

Theorem C15_lower_bytes_idempotent : forall s, map ascii_lower (map ascii_lower s) = map ascii_lower s.
Proof. exact lower_bytes_idempotent. Qed.
Print Assumptions C15_lower_bytes_idempotent.

Theorem C15_unique_items_list : forall E xs, pred_eval E PUniqueItems (VList xs) = Ok (unique_typed [] xs) /\ (unique_typed [] xs = true <-> typed_nodup xs).
Proof. exact unique_items_list. Qed.
Print Assumptions C15_unique_items_list.

Theorem C15_unique_items_distinguishes_types : forall E, pred_eval E PUniqueItems (VList [VInt 1; VBool true; VFloat (FFin false 1 0)]) = Ok true /\ pred_eval E PUniqueItems (VList [VInt 1; VInt 1]) = Ok false /\ pred_eval E PUniqueItems (VList [VList [VInt 1]; VList [VInt 1]]) = Ok false /\ pred_eval E PUniqueItems (VList [VList [VInt 1]; VList [VBool true]]) = Ok false.
Proof. exact unique_items_distinguishes_types. Qed.
Print Assumptions C15_unique_items_distinguishes_types.
