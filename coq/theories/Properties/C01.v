(* C01 - Validation is total: every call yields Valid or Invalid, never an exception
   (except the documented AssertionError of synchronous entry points). *)
From Coq Require Import ZArith List Bool.
From KV Require Import Base.PyVal Base.Prims Model.Validator Model.Sem Proofs.Total Proofs.Typed.
Import ListNotations.
Open Scope nat_scope.

(* For every well-formed tree (Total.wf: at every node the predicates and processors are
   defined on the values its gate lets through, set members / dict keys are hashable,
   user-written validators are themselves total), every input, both entry points and every
   amount of fuel, the outcome is Valid, Invalid, the sync-only AssertionError, or the
   recursion has not finished yet - never another exception. *)
Theorem C01_total :
  forall E,
    (forall r, wf E (lazy_env E r)) ->
    forall m fuel v x, wf E v -> documented m (run E m fuel v x).
Proof. exact run_documented. Qed.
Print Assumptions C01_total.

Corollary C01_never_raises :
  forall E, (forall r, wf E (lazy_env E r)) ->
    forall m fuel v x e, wf E v -> run E m fuel v x <> ORaise e.
Proof.
  intros E Hl m fuel v x e Hw H. pose proof (run_documented E Hl m fuel v x Hw) as D.
  rewrite H in D. exact D.
Qed.
Print Assumptions C01_never_raises.

Corollary C01_async_never_asserts :
  forall E, (forall r, wf E (lazy_env E r)) ->
    forall fuel v x, wf E v -> run E Async fuel v x <> OAssert.
Proof.
  intros E Hl fuel v x Hw H. pose proof (run_documented E Hl Async fuel v x Hw) as D.
  rewrite H in D. discriminate D.
Qed.
Print Assumptions C01_async_never_asserts.

(* scalar validators built as the library's annotations prescribe are well-formed:
   the exact-type / coercion gate establishes the type the predicates were written for *)
Theorem C01_scalar_typed_wf :
  forall E, (forall id y, type_of (uproc E id y) = type_of y) ->
    forall k pre ps aps,
      forallb (proc_typed k) pre = true -> forallb (pred_typed k) ps = true ->
      wf E (Scalar k None pre ps aps).
Proof. exact wf_scalar_typed. Qed.
Print Assumptions C01_scalar_typed_wf.

Theorem C01_scalar_default_coercer_wf :
  forall E, (forall id y, type_of (uproc E id y) = type_of y) ->
    (forall k x y, oracle E k x = Some y -> exact_type y (otype k) = true) ->
    forall k c pre ps aps,
      default_coercer k = Some c ->
      forallb (proc_typed k) pre = true -> forallb (pred_typed k) ps = true ->
      wf E (Scalar k (Some c) pre ps aps).
Proof. exact wf_scalar_default_coercer. Qed.
Print Assumptions C01_scalar_default_coercer_wf.

(* ---- refutations (known findings D12): configurations the annotations allow but that are
        NOT total on the faithful model; each witness replays on the implementation ---- *)
Section Refuted.
  Local Open Scope Z_scope.
  Definition ex_env : env :=
    {| classes := fun _ => {| ckind_of := CkPlain; chash_of := true; cfields_of := [] |};
       upred := fun _ _ => true; uapred := fun _ _ => false; uproc := fun _ x => x;
       ucoerce := fun _ x => Some x; ucompat := fun _ => [];
       uinto := fun _ xs => VTuple xs; uobj := fun _ _ => None; uaobj := fun _ _ => None;
       uvalid := fun _ _ _ x => OValid x; lazy_env := fun _ => AlwaysValid;
       oracle := fun _ _ => None; re_match := fun _ _ => true; email_match := fun _ => true;
       case_map := fun _ s => s |}.
  Definition dec1 := VDecimal (DFin false 1 0).
  Example C01_refuted_decimal_nan_order :
    run ex_env Sync 1%nat (Scalar KDecimal None [] [PMin dec1 false] []) (VDecimal (DNan false false))
    = ORaise ExInvalidOp.
  Proof. vm_compute. reflexivity. Qed.
  Example C01_refuted_decimal_snan_equal :
    run ex_env Sync 1%nat (Scalar KDecimal None [] [PEqualTo dec1] []) (VDecimal (DNan false true))
    = ORaise ExInvalidOp.
  Proof. vm_compute. reflexivity. Qed.
  Example C01_refuted_decimal_snan_choices :
    run ex_env Sync 1%nat (Scalar KDecimal None [] [PChoices [dec1]] []) (VDecimal (DNan false true))
    = ORaise ExType.
  Proof. vm_compute. reflexivity. Qed.
  Example C01_refuted_decimal_mod_infinity :
    run ex_env Sync 1%nat (Scalar KDecimal None [] [PMultipleOf (VDecimal (DFin false 2 0))] []) (VDecimal (DInf false))
    = ORaise ExInvalidOp.
  Proof. vm_compute. reflexivity. Qed.
  Example C01_refuted_decimal_mod_huge :
    run ex_env Sync 1%nat (Scalar KDecimal None [] [PMultipleOf (VDecimal (DFin false 3 0))] []) (VDecimal (DFin false 1 1000))
    = ORaise ExInvalidOp.
  Proof. vm_compute. reflexivity. Qed.
  Example C01_refuted_datetime_awareness :
    run ex_env Sync 1%nat (Scalar KDatetime None [] [PMin (VDatetime 63713433600000000 None) false] [])
        (VDatetime 63713433600000000 (Some 0))
    = ORaise ExType.
  Proof. vm_compute. reflexivity. Qed.

  (* non-vacuity: a deep, well-formed tree and a total run *)
  Definition sv := Scalar KStr None [Strip] [PNotBlank; PMaxLength 3] [].
  Example C01_nonvacuous_wf : wf ex_env sv.
  Proof. apply wf_scalar_typed; reflexivity. Qed.
  Example C01_nonvacuous_run :
    run ex_env Sync 1%nat sv (VStr [32; 32]) = OInvalid (Invalid (PredicateErrs [PRSync PNotBlank]) (VStr []) sv).
  Proof. vm_compute. reflexivity. Qed.
End Refuted.
