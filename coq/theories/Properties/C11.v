(* C11 - the generated JSON Schema accepts exactly what the validator accepts (JSON data).
   PARTIAL: the theorem covers scalars (string / integer / float / boolean with length, bound,
   choice, equality, prefix and suffix predicates emitting distinct keywords), equality
   validators, is-dict, lists and uniform tuples with item-count predicates, n-tuples, string-keyed maps with size
   predicates, every record-shaped validator (RecordValidator, DictValidatorAny, Dataclass /
   NamedTuple / TypedDict validators) with string keys, optional keys and either unknown-key
   policy, optionals and caches, and unions whose variants accept pairwise different JSON kinds
   (string / integer / float / boolean / null / array / object, read off the variants' shapes: for
   those oneOf and first-match coincide), nested to any depth. Overlapping unions, not-blank,
   user regexes, uniqueness and repeated keywords are refuted below; named recursive schemas are
   tied by differential execution only. *)
From Coq Require Import ZArith List Bool String.
From KV Require Import Base.PyVal Base.Prims Model.Validator Model.Sem Model.Schema Model.SchemaSat
     Proofs.SatP Corr.UserLib.
Import ListNotations.
Open Scope Z_scope.

(* For every environment, every embedded text function, every regex engine that is right on
   literal prefix / suffix patterns, every validator of the fragment, every JSON value and every
   sufficient fuel: generation succeeds, and the value satisfies the schema iff the validator
   returns Valid; otherwise it returns Invalid (never an exception). *)
Theorem C11_partial :
  forall (E : env) text_of re_search refsat,
    (forall t s, re_search (94 :: re_escape t) s = is_prefix t s) ->
    (forall t s, re_search (re_escape t ++ [36]) s = is_suffix t s) ->
    forall named v, frag text_of v = true ->
    forall n, (vheight v < n)%nat ->
    forall x, is_json x = true ->
    exists d, to_schema text_of named v = Ok (JObj d) /\
              if sat re_search refsat (JObj d) x
              then exists w, run E Sync n v x = OValid w
              else exists i, run E Sync n v x = OInvalid i.
Proof. exact frag_agree. Qed.
Print Assumptions C11_partial.

(* ---------- the full statement is false: one witness per divergence ---------- *)

Definition no_text : textkind -> pyval -> option jstring := fun _ _ => None.
Definition never : jstring -> list Z -> bool := fun _ _ => false.
Definition noref : jstring -> pyval -> bool := fun _ _ => false.
Definition E0 := mk_env [] [] [] [] [] [].
Definition int_v := Scalar KInt None [] [] [].
Definition verdicts (re : jstring -> list Z -> bool) (v : validator) (x : pyval) : option bool * bool :=
  (match to_schema no_text None v with Ok j => Some (sat re noref j x) | Exn _ => None end,
   match run E0 Sync 10 v x with OValid _ => true | _ => false end).

(* two variants accept 1: the validator accepts, oneOf does not *)
Example C11_refuted_union_overlap :
  verdicts never (UnionV [int_v; int_v]) (VInt 1) = (Some false, true).
Proof. vm_compute. reflexivity. Qed.

(* two predicates emit "enum": only the last survives *)
Example C11_refuted_keyword_overwritten :
  verdicts never (Scalar KInt None [] [PEqualTo (VInt 0); PChoices [VInt 1; VInt (-3)]] []) (VInt (-3))
  = (Some true, false).
Proof. vm_compute. reflexivity. Qed.

(* [1, 1.0]: distinct (type, value) pairs for UniqueItems, equal numbers for JSON Schema *)
Example C11_refuted_unique_typed :
  verdicts never (ListV (UnionV [int_v; Scalar KFloat None [] [] []]) [PUniqueItems] [] None)
           (VList [VInt 1; VFloat (FFin false 1 0)]) = (Some false, true).
Proof. vm_compute. reflexivity. Qed.

(* not-blank: under any engine for which the pattern ^(?!\s*$).+ does not match "\na"
   (no engine lets `.` match a line feed) the schema rejects a string the validator accepts *)
Example C11_refuted_notblank :
  forall re, re (lit "^(?!\s*$).+") [10; 97] = false ->
             verdicts re (Scalar KStr None [] [PNotBlank] []) (VStr [10; 97]) = (Some false, true).
Proof. intros re H. vm_compute in H. vm_compute. rewrite H. reflexivity. Qed.

(* non-vacuity: a nested member of the fragment and both verdicts *)
Definition rec_sample :=
  DictAnyV [(VStr (lit "id"), Scalar KInt None [] [PMin (VInt 0) false] []);
            (VStr (lit "tags"), KeyNotRequired (MapV (Scalar KStr None [] [] []) (Scalar KBool None [] [] []) [PMaxKeys 3] [] None));
            (VStr (lit "who"), ClassV RkTyped 0%nat [(VStr (lit "k"), (Scalar KStr None [] [] [], true));
                                                     (VStr (lit "o"), (OptionalV (NoneV None) (Scalar KFloat None [] [] []), false))]
                                      None None true None)] None None true.
Example C11_nonvacuous_records : frag no_text rec_sample = true /\ Nat.ltb (vheight rec_sample) 6 = true.
Proof. split; vm_compute; reflexivity. Qed.

(* a union of an integer, a string with predicates, a list of such unions' members and an object *)
Definition union_sample :=
  ListV (UnionV [Scalar KInt None [] [PMin (VInt 0) false] [];
                 Scalar KStr None [] [PMaxLength 3] [];
                 OptionalV (NoneV None) (ListV (Scalar KBool None [] [] []) [] [] None);
                 DictAnyV [(VStr (lit "k"), UnionV [Scalar KFloat None [] [] []; Scalar KStr None [] [] []])] None None true])
        [] [] None.
Example C11_nonvacuous_unions :
  frag no_text union_sample = true /\ Nat.ltb (vheight union_sample) 6 = true /\
  verdicts never union_sample (VList [VInt 3; VStr (lit "ab"); VNone; VList [VBool true]; VDict [(VStr (lit "k"), VFloat (FFin false 3 (-1)))]]) = (Some true, true) /\
  verdicts never union_sample (VList [VInt (-1)]) = (Some false, false) /\
  verdicts never union_sample (VList [VDict [(VStr (lit "k"), VInt 1)]]) = (Some false, false).
Proof. repeat split; vm_compute; reflexivity. Qed.

Definition sample :=
  ListV (NTupleV [IsDictV; OptionalV (NoneV None)
           (Scalar KStr None [] [PMinLength 1; PStartsWith (VStr (lit "a")); PChoices [VStr (lit "ab"); VStr (lit "ac")]] [])]
          None (Some CoTupleOrList))
        [PMaxItems 2] [] None.
Example C11_nonvacuous :
  frag no_text sample = true /\ Nat.ltb (vheight sample) 5 = true.
Proof. split; vm_compute; reflexivity. Qed.
