(* C19 - Validator equality is a behavioural congruence.
   [veqb mask] is the equality the library's __eq__ methods compute, where [mask k i] says
   whether the __eq__ of kind k compares constructor slot i.  The mask of the current
   source is regenerated on every run (KVGen.Facts_eq.src_mask, with the lemma that it is
   full); the theorems below hold for every full mask. *)
From Coq Require Import ZArith List Bool.
From KV Require Import Base.PyVal Base.Prims Model.Validator Model.Sem Model.Eq Proofs.EqP.
Import ListNotations.
Open Scope nat_scope.

(* equal validators are the same configuration, up to the one slot behaviour does not
   depend on (the class label of a TypedDict validator) *)
Theorem C19_congruence :
  forall mask, mask_full_b mask = true ->
    forall a b, veqb mask a b = true -> erase a = erase b.
Proof. intros mask H. apply veqb_sound. apply mask_full_of_b. exact H. Qed.
Print Assumptions C19_congruence.

(* ... hence they return equal results on every input, both entry points, every fuel *)
Corollary C19_equal_results :
  forall mask, mask_full_b mask = true ->
    forall a b, veqb mask a b = true -> erase a = a -> erase b = b ->
      forall E m fuel x, run E m fuel a x = run E m fuel b x.
Proof.
  intros mask H a b Hv Ha Hb E m fuel x.
  pose proof (C19_congruence mask H a b Hv) as He. rewrite Ha, Hb in He. subst. reflexivity.
Qed.
Print Assumptions C19_equal_results.

(* the erased slot is a label only *)
Theorem C19_typed_class_is_a_label :
  forall E rec self c c' schema vobj avobj strict co m x,
    class_body E rec self RkTyped c schema vobj avobj strict co m x
    = class_body E rec self RkTyped c' schema vobj avobj strict co m x.
Proof. exact typed_class_irrelevant. Qed.
Print Assumptions C19_typed_class_is_a_label.

(* two validators constructed independently from the same arguments compare equal *)
Theorem C19_rebuild : forall mask v, veqb mask v v = true.
Proof. exact veqb_refl. Qed.
Print Assumptions C19_rebuild.

(* refutations: with the masks of the unrepaired tree equality was NOT a congruence
   (fixed: 43dd802, 436e70f, ad4fd2f, and the object-check comparison) *)
Section Refuted.
  Local Open Scope Z_scope.
  Definition ex_env : env :=
    {| classes := fun _ => {| ckind_of := CkPlain; chash_of := true; cfields_of := [] |};
       upred := fun _ _ => true; uapred := fun _ _ => false; uproc := fun _ x => x;
       ucoerce := fun _ x => Some x; ucompat := fun _ => [];
       uinto := fun _ xs => VTuple xs; uobj := fun _ _ => None; uaobj := fun _ _ => None;
       uvalid := fun _ _ _ x => OValid x; lazy_env := fun _ => AlwaysValid;
       oracle := fun _ x => match x with VInt z => Some (VDecimal (DFin false z 0)) | _ => None end;
       re_match := fun _ _ => true; email_match := fun _ => true; case_map := fun _ s => s |}.
  (* the scalar __eq__ that ignored the coercer *)
  Definition old_mask (k : vkind) (i : nat) : bool :=
    match k, i with KScalar, 1%nat => false | _, _ => true end.
  Definition a := Scalar KDecimal (Some CoDecimal) [] [] [].
  Definition b := Scalar KDecimal None [] [] [].
  Example C19_refuted_scalar_coerce :
    veqb old_mask a b = true /\
    run ex_env Sync 1%nat a (VInt 1) = OValid (VDecimal (DFin false 1 0)) /\
    run ex_env Sync 1%nat b (VInt 1) = OInvalid (Invalid (TypeErr TDecimal) (VInt 1) b).
  Proof. repeat split; vm_compute; reflexivity. Qed.
  Example C19_old_mask_not_full : mask_full_b old_mask = false.
  Proof. vm_compute. reflexivity. Qed.
  (* requiredness ignored (TypedDict total vs non-total) *)
  Definition old_mask_td (k : vkind) (i : nat) : bool :=
    match k, i with KTyped, 7%nat => false | _, _ => true end.
  Definition td (req : bool) := ClassV RkTyped 0%nat [(VStr [107], (AlwaysValid, req))] None None false None.
  Example C19_refuted_typeddict_required :
    veqb old_mask_td (td true) (td false) = true /\
    run ex_env Sync 2%nat (td false) (VDict []) = OValid (VDict []) /\
    run ex_env Sync 2%nat (td true) (VDict [])
    = OInvalid (Invalid (KeyErrs [(VStr [107], Invalid MissingKeyErr (VDict []) (td true))]) (VDict []) (td true)).
  Proof. repeat split; vm_compute; reflexivity. Qed.
End Refuted.
