(* C18 - Composition laws: verdicts are context-free and refinement only narrows. *)
From Coq Require Import ZArith List Bool.
From KV Require Import Base.PyVal Base.Prims Model.Validator Model.Sem
     Proofs.Records Proofs.Wrappers Proofs.Compose.
Import ListNotations.
Open Scope nat_scope.

(* a one-element list / tuple / n-tuple / set / map / record around v accepts [x] iff v
   accepts x, with v's payload inside and v's own error at that position - for every v *)
Theorem C18_ctx_list :
  forall E m n v x,
    run E m (S n) (ListV v [] [] None) (VList [x]) =
    match run E m n v x with
    | OValid w => OValid (VList [w])
    | OInvalid e => OInvalid (Invalid (IndexErrs [(0, e)]) (VList [x]) (ListV v [] [] None))
    | o => o
    end.
Proof. exact ctx_list. Qed.
Print Assumptions C18_ctx_list.

Theorem C18_ctx_utuple :
  forall E m n v x,
    run E m (S n) (UTupleV v [] [] None) (VTuple [x]) =
    match run E m n v x with
    | OValid w => OValid (VTuple [w])
    | OInvalid e => OInvalid (Invalid (IndexErrs [(0, e)]) (VTuple [x]) (UTupleV v [] [] None))
    | o => o
    end.
Proof. exact ctx_utuple. Qed.
Print Assumptions C18_ctx_utuple.

Theorem C18_ctx_ntuple :
  forall E m n v x,
    run E m (S n) (NTupleV [v] None None) (VTuple [x]) =
    match run E m n v x with
    | OValid w => OValid (VTuple [w])
    | OInvalid e => OInvalid (Invalid (IndexErrs [(0, e)]) (VTuple [x]) (NTupleV [v] None None))
    | o => o
    end.
Proof. exact ctx_ntuple. Qed.
Print Assumptions C18_ctx_ntuple.

Theorem C18_ctx_set :
  forall E m n v x,
    run E m (S n) (SetV v [] [] None) (VSet [x]) =
    match run E m n v x with
    | OValid w => if hashable (chashable E) w then OValid (VSet [w]) else ORaise ExType
    | OInvalid e => OInvalid (Invalid (SetErrs [e]) (VSet [x]) (SetV v [] [] None))
    | o => o
    end.
Proof. exact ctx_set. Qed.
Print Assumptions C18_ctx_set.

Theorem C18_ctx_map_value :
  forall E m n v k x,
    hashable (chashable E) k = true ->
    run E m (S (S n)) (MapV AlwaysValid v [] [] None) (VDict [(k, x)]) =
    match run E m (S n) v x with
    | OValid w => OValid (VDict [(k, w)])
    | OInvalid e => OInvalid (Invalid (MapErr [(k, (None, Some e))]) (VDict [(k, x)]) (MapV AlwaysValid v [] [] None))
    | o => o
    end.
Proof. exact ctx_map_value. Qed.
Print Assumptions C18_ctx_map_value.

Theorem C18_ctx_record :
  forall E m n v k x,
    py_eq k k = true -> is_required_marker v = true ->
    run E m (S n) (DictAnyV [(k, v)] None None false) (VDict [(k, x)]) =
    match run E m n v x with
    | OValid w => OValid (VDict [(k, w)])
    | OInvalid e => OInvalid (Invalid (KeyErrs [(k, e)]) (VDict [(k, x)]) (DictAnyV [(k, v)] None None false))
    | o => o
    end.
Proof. exact ctx_dictany. Qed.
Print Assumptions C18_ctx_record.

Theorem C18_ctx_maybe :
  forall E m n v x,
    run E m (S n) (MaybeV v) (VJust x) =
    match run E m n v x with
    | OValid w => OValid (VJust w)
    | OInvalid e => OInvalid (Invalid (ContainerErr e) (VJust x) (MaybeV v))
    | o => o
    end.
Proof. exact ctx_maybe. Qed.
Print Assumptions C18_ctx_maybe.

Theorem C18_ctx_lazy :
  forall E m n r b x, run E m (S n) (LazyV r b) x = run E m n (lazy_env E r) x.
Proof. exact ctx_lazy. Qed.
Print Assumptions C18_ctx_lazy.

(* a union accepts iff one of its variants does *)
Theorem C18_union_iff :
  forall E m n vs x,
    (exists w, run E m (S n) (UnionV vs) x = OValid w) <->
    (exists pre v post w, vs = pre ++ v :: post /\ run E m n v x = OValid w /\
                          Forall (fun u => exists i, run E m n u x = OInvalid i) pre).
Proof.
  intros E m n vs x. split.
  - intros [w H]. cbn [run step] in H. apply union_accept in H. destruct H as [pre [v [post H]]]. exists pre, v, post, w. exact H.
  - intros [pre [v [post [w H]]]]. exists w. cbn [run step]. apply union_accept. exists pre, v, post. exact H.
Qed.
Print Assumptions C18_union_iff.

(* refinement only narrows and never changes the payload of a still-accepted value *)
Theorem C18_refine_scalar_pred :
  forall E m n k co pre ps p aps x w,
    run E m (S n) (Scalar k co pre (ps ++ [p]) aps) x = OValid w ->
    run E m (S n) (Scalar k co pre ps aps) x = OValid w.
Proof. exact refine_scalar_pred. Qed.
Print Assumptions C18_refine_scalar_pred.

Theorem C18_refine_list_pred :
  forall E m n item ps p aps co x w,
    run E m (S n) (ListV item (ps ++ [p]) aps co) x = OValid w ->
    run E m (S n) (ListV item ps aps co) x = OValid w.
Proof. exact refine_list_pred. Qed.
Print Assumptions C18_refine_list_pred.

Theorem C18_refine_record_strict :
  forall E m n keys into vobj avobj x w,
    run E m (S n) (RecordV keys into vobj avobj true) x = OValid w ->
    exists w', run E m (S n) (RecordV keys into vobj avobj false) x = OValid w' /\ w' = w.
Proof. exact refine_record_strict. Qed.
Print Assumptions C18_refine_record_strict.

Theorem C18_refine_class_required :
  forall E m n rk c strict lenient vobj avobj st co x w,
    more_required strict lenient ->
    run E m (S n) (ClassV rk c strict vobj avobj st co) x = OValid w ->
    (forall obj, obj_stage E (ClassV rk c strict vobj avobj st co) m vobj avobj obj = OValid w ->
                 obj_stage E (ClassV rk c lenient vobj avobj st co) m vobj avobj obj = OValid w) ->
    run E m (S n) (ClassV rk c lenient vobj avobj st co) x = OValid w.
Proof. exact refine_class_required. Qed.
Print Assumptions C18_refine_class_required.
