(* C05 - Unions pick the first match and list all failures; wrappers are transparent. *)
From Coq Require Import ZArith List Bool.
From KV Require Import Base.PyVal Base.Prims Model.Validator Model.Sem Proofs.Calls Proofs.Wrappers.
Import ListNotations.
Open Scope nat_scope.

(* accepts iff some variant accepts; payload of the first accepting variant in declaration order *)
Theorem C05_union_accept :
  forall E fuel m vs x w,
    run E m (S fuel) (UnionV vs) x = OValid w <->
    exists pre v post, vs = pre ++ v :: post /\ run E m fuel v x = OValid w /\
                       Forall (fun u => exists i, run E m fuel u x = OInvalid i) pre.
Proof. intros. exact (union_accept (run E m fuel) _ vs x w). Qed.
Print Assumptions C05_union_accept.

(* otherwise every variant's error is reported, in order, on the original value *)
Theorem C05_union_reject :
  forall E fuel m vs x i,
    run E m (S fuel) (UnionV vs) x = OInvalid i ->
    exists errs, Forall2 (fun v e => run E m fuel v x = OInvalid e) vs errs /\
                 i = Invalid (UnionErrs errs) x (UnionV vs).
Proof. intros E fuel m vs x i. exact (union_reject (run E m fuel) _ vs x i). Qed.
Print Assumptions C05_union_reject.

Theorem C05_union_all_reject :
  forall E fuel m vs x errs,
    Forall2 (fun v e => run E m fuel v x = OInvalid e) vs errs ->
    run E m (S fuel) (UnionV vs) x = OInvalid (Invalid (UnionErrs errs) x (UnionV vs)).
Proof. intros E fuel m vs x errs. exact (union_all_reject (run E m fuel) _ vs x errs). Qed.
Print Assumptions C05_union_all_reject.

(* later variants are never consulted: whatever follows the first accepting variant -
   even a validator that would raise - does not influence the result *)
Theorem C05_union_first_wins :
  forall E fuel m pre v post post' x w,
    run E m fuel v x = OValid w ->
    Forall (fun u => exists i, run E m fuel u x = OInvalid i) pre ->
    run E m (S fuel) (UnionV (pre ++ v :: post)) x = OValid w /\
    run E m (S fuel) (UnionV (pre ++ v :: post')) x = OValid w.
Proof.
  intros E fuel m pre v post post' x w Hv Hpre. split; apply C05_union_accept; eexists pre, v, _; repeat split; eauto.
Qed.
Print Assumptions C05_union_first_wins.

(* Optional: None as None; otherwise exactly the inner validator; both failures reported *)
Theorem C05_optional_none :
  forall E fuel m inner,
    run E m (S (S fuel)) (OptionalV (NoneV None) inner) VNone = OValid VNone.
Proof.
  intros. exact (optional_none (run E m (S fuel)) _ inner eq_refl).
Qed.
Print Assumptions C05_optional_none.

Theorem C05_optional_inner :
  forall E fuel m inner x,
    x <> VNone ->
    run E m (S (S fuel)) (OptionalV (NoneV None) inner) x =
    match run E m (S fuel) inner x with
    | OValid w => OValid w
    | OInvalid i =>
        OInvalid (Invalid (UnionErrs [Invalid (TypeErr TNone) x (NoneV None); i]) x
                          (OptionalV (NoneV None) inner))
    | o => o
    end.
Proof.
  intros E fuel m inner x Hx.
  apply (optional_inner (run E m (S fuel)) (OptionalV (NoneV None) inner) inner x).
  cbn. destruct x; try reflexivity. congruence.
Qed.
Print Assumptions C05_optional_inner.

(* Maybe: nothing -> nothing; Just(x) -> Just(payload); anything else rejected *)
Theorem C05_maybe :
  forall E fuel m inner x,
    run E m (S fuel) (MaybeV inner) x =
    match x with
    | VNothing => OValid VNothing
    | VJust y => match run E m fuel inner y with
                 | OValid w => OValid (VJust w)
                 | OInvalid i => OInvalid (Invalid (ContainerErr i) x (MaybeV inner))
                 | o => o
                 end
    | _ => OInvalid (Invalid (TypeErr TMaybe) x (MaybeV inner))
    end.
Proof. reflexivity. Qed.
Print Assumptions C05_maybe.

(* Lazy / cache wrappers return exactly what the validator they stand for returns *)
Theorem C05_lazy :
  forall E fuel m r b x, run E m (S fuel) (LazyV r b) x = run E m fuel (lazy_env E r) x.
Proof. reflexivity. Qed.
Print Assumptions C05_lazy.

Theorem C05_cache_transparent :
  forall E fuel m inner x, run E m (S fuel) (CacheV inner) x = run E m fuel inner x.
Proof. reflexivity. Qed.
Print Assumptions C05_cache_transparent.

(* KeyNotRequired wraps the payload in Just and leaves errors untouched *)
Theorem C05_key_not_required :
  forall E fuel m inner x,
    run E m (S fuel) (KeyNotRequired inner) x =
    match run E m fuel inner x with OValid w => OValid (VJust w) | o => o end.
Proof. reflexivity. Qed.
Print Assumptions C05_key_not_required.

Theorem C05_always_valid :
  forall E fuel m x, run E m (S fuel) AlwaysValid x = OValid x.
Proof. reflexivity. Qed.
Print Assumptions C05_always_valid.

(* mapping a function over a result transforms a Valid payload and leaves an Invalid untouched *)
Theorem C05_map_result :
  forall f w i, result_map f (OValid w) = OValid (f w) /\ result_map f (OInvalid i) = OInvalid i.
Proof. intros; split; reflexivity. Qed.
Print Assumptions C05_map_result.

Section Example.
  Local Open Scope Z_scope.
  Definition ex_env : env :=
    {| classes := fun _ => {| ckind_of := CkPlain; chash_of := true; cfields_of := [] |};
       upred := fun _ _ => true; uapred := fun _ _ => false; uproc := fun _ x => x;
       ucoerce := fun _ x => Some x; ucompat := fun _ => [];
       uinto := fun _ xs => VTuple xs; uobj := fun _ _ => None; uaobj := fun _ _ => None;
       uvalid := fun _ _ _ x => ORaise ExOther; lazy_env := fun _ => AlwaysValid;
       oracle := fun _ _ => None; re_match := fun _ _ => true; email_match := fun _ => true;
       case_map := fun _ s => s |}.
  Definition iv := Scalar KInt None [] [] [].
  Definition sv := Scalar KStr None [Strip] [] [].
  (* the third variant would raise; it is never consulted *)
  Example C05_nonvacuous_first :
    run ex_env Sync 2%nat (UnionV [iv; sv; UserV 0 false; Scalar KStr None [] [] []]) (VStr [32; 97])
    = OValid (VStr [97]).
  Proof. vm_compute. reflexivity. Qed.
  Example C05_nonvacuous_all_errs :
    run ex_env Sync 2%nat (UnionV [iv; sv]) VNone
    = OInvalid (Invalid (UnionErrs [Invalid (TypeErr TInt) VNone iv; Invalid (TypeErr TStr) VNone sv])
                        VNone (UnionV [iv; sv])).
  Proof. vm_compute. reflexivity. Qed.
End Example.
