(* C16 - Default coercions accept exactly the declared sources and parse like the stdlib.
   The stdlib constructors are oracles ([oracle E k x]: None = raised a caught exception) in the
   characterisations below; "parses like the stdlib" is tied to CPython by running the real
   constructors for every string of every case.  PARTIAL only in what stays an oracle: the
   canonical-text round-trip is proved further down for UUIDs, dates and datetimes against concrete
   models of the text forms (Model/Text.v: str(UUID) / UUID(hex), date.isoformat / fromisoformat /
   toordinal, datetime.isoformat / fromisoformat with whole-second offsets), each compared with
   CPython on every run; Decimal(str) and the forms isoformat does not write remain oracles. *)
From Coq Require Import ZArith List Bool.
From KV Require Import Base.PyVal Base.Prims Model.Validator Model.Sem Proofs.Coerce.
Import ListNotations.

Theorem C16_decimal :
  forall E x y,
    coerce_apply E CoDecimal x = Some y <->
    (exact_type x TDecimal = true /\ y = x) \/
    (exact_type x TDecimal = false /\
     (isinstance (ckind E) x TStr || isinstance (ckind E) x TInt) = true /\
     oracle E OkDecimal x = Some y).
Proof. exact coerce_decimal_spec. Qed.
Print Assumptions C16_decimal.

Theorem C16_uuid :
  forall E x y,
    coerce_apply E CoUuid x = Some y <->
    (exact_type x TUuid = true /\ y = x) \/
    (exact_type x TUuid = false /\ exact_type x TStr = true /\ oracle E OkUuid x = Some y).
Proof. exact coerce_uuid_spec. Qed.
Print Assumptions C16_uuid.

Theorem C16_date :
  forall E x y,
    coerce_apply E CoDate x = Some y <->
    (exact_type x TDate = true /\ y = x) \/
    (exact_type x TDate = false /\ isinstance (ckind E) x TStr = true /\ oracle E OkDate x = Some y).
Proof. exact coerce_date_spec. Qed.
Print Assumptions C16_date.

Theorem C16_datetime :
  forall E x y,
    coerce_apply E CoDatetime x = Some y <->
    (exact_type x TDatetime = true /\ y = x) \/
    (exact_type x TDatetime = false /\ isinstance (ckind E) x TStr = true /\ oracle E OkDatetime x = Some y).
Proof. exact coerce_datetime_spec. Qed.
Print Assumptions C16_datetime.

Theorem C16_tuple :
  forall E x y,
    coerce_apply E CoTupleOrList x = Some y <->
    (exists xs, x = VTuple xs /\ y = x) \/ (exists xs, x = VList xs /\ y = VTuple xs).
Proof. exact coerce_tuple_spec. Qed.
Print Assumptions C16_tuple.

Theorem C16_never_coerced :
  forall E,
    (forall f, coerce_apply E CoDecimal (VFloat f) = None) /\
    (forall b, coerce_apply E CoDecimal (VBytes b) = None) /\
    (forall b, coerce_apply E CoUuid (VBytes b) = None) /\
    (forall b, coerce_apply E CoDate (VBytes b) = None) /\
    (forall b, coerce_apply E CoDatetime (VBytes b) = None) /\
    (forall u t, coerce_apply E CoDate (VDatetime u t) = None) /\
    (forall f, coerce_apply E CoDate (VFloat f) = None) /\
    (forall z, coerce_apply E CoUuid (VInt z) = None) /\
    (forall z, coerce_apply E CoDate (VInt z) = None).
Proof. exact never_coerced. Qed.
Print Assumptions C16_never_coerced.

Theorem C16_subclass_of_target_rejected :
  forall E c b, ckind E c = CkSub TDecimal -> coerce_apply E CoDecimal (VSub c b) = None.
Proof. exact subclass_of_target_rejected. Qed.
Print Assumptions C16_subclass_of_target_rejected.

Theorem C16_coercion_error_types :
  forall E k c x,
    coerce_apply E c x = None ->
    gate E (Some c) (ktype k) (ktype k) x = inl (CoercionErr (coerce_compat E c) (ktype k)).
Proof. exact coercion_error_types. Qed.
Print Assumptions C16_coercion_error_types.

Theorem C16_declared_compat :
  forall E,
    coerce_compat E CoDecimal = [TInt; TStr; TDecimal] /\
    coerce_compat E CoUuid = [TStr; TUuid] /\
    coerce_compat E CoDate = [TStr; TDate] /\
    coerce_compat E CoDatetime = [TStr; TDatetime] /\
    coerce_compat E CoTupleOrList = [TList; TTuple].
Proof. exact declared_compat. Qed.
Print Assumptions C16_declared_compat.

(* partial: for an arbitrary printer the print/parse round-trip of the stdlib is a hypothesis (sampled by the
   harness); for UUIDs it is proved below against a concrete model of the text form *)
Theorem C16_roundtrip_partial :
  forall E k c (print : pyval -> pyval) ok y,
    (c = CoDecimal /\ ok = OkDecimal /\ k = KDecimal) \/ (c = CoUuid /\ ok = OkUuid /\ k = KUuid) \/
    (c = CoDate /\ ok = OkDate /\ k = KDate) \/ (c = CoDatetime /\ ok = OkDatetime /\ k = KDatetime) ->
    exact_type (print y) TStr = true ->
    oracle E ok (print y) = Some y ->
    forall fuel m, run E m (S fuel) (Scalar k (Some c) [] [] []) (print y) = OValid y.
Proof. exact roundtrip. Qed.
Print Assumptions C16_roundtrip_partial.

(* ---------- canonical text round-trips: proved for UUIDs against a concrete model of the text form ----------
   [uuid_str] is str(UUID) ('%032x' cut 8-4-4-4-12), [uuid_parse] is the UUID(hex) constructor on what it reads
   without int()'s leniencies (Model/Text.v); both are compared with CPython on every run.  The only premise
   left about the stdlib is that its constructor agrees with [uuid_parse] wherever the latter answers -
   the round-trip itself (every one of the 2^128 values comes back from its canonical text) is a theorem. *)
From KV Require Import Model.Text Proofs.TextP.
Theorem C16_uuid_text_roundtrip :
  forall n, (0 <= n < 2 ^ 128)%Z -> uuid_parse (uuid_str n) = Some n.
Proof. exact uuid_roundtrip. Qed.
Print Assumptions C16_uuid_text_roundtrip.

Theorem C16_uuid_roundtrip :
  forall E,
    (forall s n, uuid_parse s = Some n -> oracle E OkUuid (VStr s) = Some (VUuid n)) ->
    forall n, (0 <= n < 2 ^ 128)%Z ->
    forall fuel m, run E m (S fuel) (Scalar KUuid (Some CoUuid) [] [] []) (VStr (uuid_str n)) = OValid (VUuid n).
Proof.
  intros E Hext n Hn fuel m.
  apply (roundtrip E KUuid CoUuid (fun _ => VStr (uuid_str n)) OkUuid (VUuid n)).
  - right. left. repeat split.
  - reflexivity.
  - apply Hext. apply uuid_roundtrip. exact Hn.
Qed.
Print Assumptions C16_uuid_roundtrip.

(* upper-case digits, braces and missing dashes read the same (the forms the constructor documents) *)
Example C16_uuid_text_forms :
  let n := 24197857161011715162171839636988778104%Z in
  uuid_str n = [49;50;51;52;53;54;55;56;45;49;50;51;52;45;53;54;55;56;45;49;50;51;52;45;53;54;55;56;49;50;51;52;53;54;55;56]%Z /\
  uuid_parse (uuid_str n) = Some n /\
  uuid_parse (123 :: uuid_str n ++ [125])%Z = Some n /\
  uuid_parse (to_hex 32 n) = Some n /\
  uuid_parse (firstn 35 (uuid_str n)) = None /\
  uuid_parse (uuid_str n ++ [48])%Z = None.
Proof. vm_compute. repeat split. Qed.

(* "values of the other declared compatible types ... returning what that constructor returns", for the int
   source of Decimal: with [dec_of_int z] = sign, coefficient |z|, exponent 0 as the constructor's answer
   (compared with Decimal(z) on every run), every int is accepted, and what comes back is numerically z *)
Theorem C16_decimal_of_int :
  forall E, (forall z, oracle E OkDecimal (VInt z) = Some (dec_of_int z)) ->
  forall z fuel m, run E m (S fuel) (Scalar KDecimal (Some CoDecimal) [] [] []) (VInt z) = OValid (dec_of_int z).
Proof. exact decimal_of_int. Qed.
Print Assumptions C16_decimal_of_int.

Theorem C16_decimal_of_int_is_the_int :
  forall z, exists q, num_of (dec_of_int z) = Some (NumFin q) /\ QArith_base.Qeq q (QArith_base.inject_Z z).
Proof. exact dec_of_int_num. Qed.
Print Assumptions C16_decimal_of_int_is_the_int.

(* the other spellings the constructor documents read the same for every value: 32 digits without dashes,
   and the canonical text in braces *)
Theorem C16_uuid_other_forms :
  forall n, (0 <= n < 2 ^ 128)%Z ->
    uuid_parse (to_hex 32 n) = Some n /\ uuid_parse (123 :: uuid_str n ++ [125])%Z = Some n.
Proof. intros n Hn. split; [exact (uuid_hex_roundtrip n Hn) | exact (uuid_braced_roundtrip n Hn)]. Qed.
Print Assumptions C16_uuid_other_forms.

(* whatever the model parser answers is a 128-bit value (so the premise of C16_uuid_roundtrip never asks the
   stdlib for a value no UUID has), and distinct UUIDs have distinct canonical texts *)
Theorem C16_uuid_parse_range :
  forall s n, uuid_parse s = Some n -> (0 <= n < 2 ^ 128)%Z.
Proof. exact uuid_parse_range. Qed.
Print Assumptions C16_uuid_parse_range.

Theorem C16_uuid_text_injective :
  forall n m, (0 <= n < 2 ^ 128)%Z -> (0 <= m < 2 ^ 128)%Z -> uuid_str n = uuid_str m -> n = m.
Proof. exact uuid_str_injective. Qed.
Print Assumptions C16_uuid_text_injective.

(* ---------- the same for dates: x.isoformat() of every date reads back as the date ----------
   A date is a valid (year, month, day) triple ([valid_ymd]: 1..9999, 1..12, 1..days of that month, February by the
   Gregorian leap rule); [date_iso] is date.isoformat ('%04d-%02d-%02d'), [date_parse] is date.fromisoformat
   restricted to that form, [ymd2ord] is date.toordinal (the model's VDate carries the ordinal).  All three are
   compared with CPython on every run; the premise is again that the stdlib agrees with the model parser wherever
   the latter answers. *)
Theorem C16_date_text_roundtrip :
  forall y m d, valid_ymd y m d = true -> date_parse (date_iso y m d) = Some (y, m, d).
Proof. exact date_roundtrip. Qed.
Print Assumptions C16_date_text_roundtrip.

Theorem C16_date_roundtrip :
  forall E,
    (forall s y m d, date_parse s = Some (y, m, d) -> oracle E OkDate (VStr s) = Some (VDate (ymd2ord y m d))) ->
    forall y m d, valid_ymd y m d = true ->
    forall fuel md, run E md (S fuel) (Scalar KDate (Some CoDate) [] [] []) (VStr (date_iso y m d)) = OValid (VDate (ymd2ord y m d)).
Proof.
  intros E Hext y m d Hv fuel md.
  apply (roundtrip E KDate CoDate (fun _ => VStr (date_iso y m d)) OkDate (VDate (ymd2ord y m d))).
  - right. right. left. repeat split.
  - reflexivity.
  - apply Hext. apply date_roundtrip. exact Hv.
Qed.
Print Assumptions C16_date_roundtrip.

Example C16_date_text_nonvacuous :
  valid_ymd 2020 2 29 = true /\ valid_ymd 2021 2 29 = false /\ valid_ymd 1900 2 29 = false /\ valid_ymd 2000 2 29 = true /\
  date_iso 2020 2 29 = [50; 48; 50; 48; 45; 48; 50; 45; 50; 57]%Z /\
  ymd2ord 1 1 1 = 1%Z /\ ymd2ord 2020 1 1 = 737425%Z /\ ymd2ord 9999 12 31 = 3652059%Z /\
  date_parse (date_iso 2021 2 29) = None.
Proof. vm_compute. repeat split. Qed.

(* ---------- and for datetimes: x.isoformat() of every datetime (naive, or aware with an offset of whole seconds)
   reads back as the datetime ----------
   [datetime_iso] is datetime.isoformat (date, 'T', HH:MM:SS, '.ffffff' when the microsecond is not 0, '+HH:MM' /
   '-HH:MM' when aware, with ':SS' when the offset is not a whole number of minutes), [datetime_parse] is datetime.fromisoformat restricted to those shapes, [dt_us] the model's
   wall-clock microsecond count.  Compared with CPython on every run; premise as before. *)
Theorem C16_datetime_text_roundtrip :
  forall y m d H M Sc us tz,
    valid_ymd y m d = true -> valid_time H M Sc us = true -> valid_off tz = true ->
    datetime_parse (datetime_iso y m d H M Sc us tz) = Some (y, m, d, H, M, Sc, us, tz).
Proof. exact datetime_roundtrip. Qed.
Print Assumptions C16_datetime_text_roundtrip.

Theorem C16_datetime_roundtrip :
  forall E,
    (forall s y m d H M Sc u tz, datetime_parse s = Some (y, m, d, H, M, Sc, u, tz) ->
                                 oracle E OkDatetime (VStr s) = Some (VDatetime (dt_us y m d H M Sc u) tz)) ->
    forall y m d H M Sc us tz,
      valid_ymd y m d = true -> valid_time H M Sc us = true -> valid_off tz = true ->
      forall fuel md, run E md (S fuel) (Scalar KDatetime (Some CoDatetime) [] [] []) (VStr (datetime_iso y m d H M Sc us tz))
                      = OValid (VDatetime (dt_us y m d H M Sc us) tz).
Proof.
  intros E Hext y m d H M Sc us tz Hd Ht Ho fuel md.
  apply (roundtrip E KDatetime CoDatetime (fun _ => VStr (datetime_iso y m d H M Sc us tz)) OkDatetime (VDatetime (dt_us y m d H M Sc us) tz)).
  - right. right. right. repeat split.
  - reflexivity.
  - apply Hext. apply datetime_roundtrip; assumption.
Qed.
Print Assumptions C16_datetime_roundtrip.

Example C16_datetime_text_nonvacuous :
  valid_time 3 4 5 7 = true /\ valid_off (Some (-19800)) = true /\ valid_off (Some 86400) = false /\
  off_iso (Some 3661) = [43; 48; 49; 58; 48; 49; 58; 48; 49]%Z /\ parse_off (off_iso (Some (-3661))) = Some (Some (-3661)%Z) /\
  datetime_iso 2020 1 2 3 4 5 7 (Some (-19800))
  = [50; 48; 50; 48; 45; 48; 49; 45; 48; 50; 84; 48; 51; 58; 48; 52; 58; 48; 53; 46; 48; 48; 48; 48; 48; 55; 45; 48; 53; 58; 51; 48]%Z /\
  dt_us 2020 1 1 0 0 0 0 = 63713433600000000%Z.
Proof. vm_compute. repeat split. Qed.
