(* C03 - Collection validators check every element and report every failing position.
   Restates lemmas of Proofs/Collections.v on [run]; the child runner is [run E m fuel]. *)
From Coq Require Import ZArith List Bool.
From KV Require Import Base.PyVal Base.Prims Model.Validator Model.Sem
     Proofs.Scalar Proofs.Calls Proofs.Collections.
Import ListNotations.
Open Scope nat_scope.

Lemma VList_inj a b : VList a = VList b -> a = b. Proof. congruence. Qed.
Lemma VTuple_inj a b : VTuple a = VTuple b -> a = b. Proof. congruence. Qed.

(* list: accepted iff gate, every container predicate, every element accepted;
   payload = the children's payloads in order, in a new list *)
Theorem C03_list_accept :
  forall E fuel item ps aps co m x out,
    run E m (S fuel) (ListV item ps aps co) x = OValid out <->
    (m = Sync -> aps = []) /\
    exists y xs ws,
      gate E co TList TList x = inr y /\
      all_failing E m ps aps y = Ok [] /\
      py_iter y = Ok xs /\
      Forall2 (fun xi w => run E m fuel item xi = OValid w) xs ws /\
      out = VList ws.
Proof. intros. exact (seq_accept E TList TList VList (run E m fuel) _ item ps aps co m x out VList_inj). Qed.
Print Assumptions C03_list_accept.

Theorem C03_utuple_accept :
  forall E fuel item ps aps co m x out,
    run E m (S fuel) (UTupleV item ps aps co) x = OValid out <->
    (m = Sync -> aps = []) /\
    exists y xs ws,
      gate E co TTuple TList x = inr y /\
      all_failing E m ps aps y = Ok [] /\
      py_iter y = Ok xs /\
      Forall2 (fun xi w => run E m fuel item xi = OValid w) xs ws /\
      out = VTuple ws.
Proof. intros. exact (seq_accept E TTuple TList VTuple (run E m fuel) _ item ps aps co m x out VTuple_inj). Qed.
Print Assumptions C03_utuple_accept.

(* rejection by elements: exactly the failing positions, each holding the child's own Invalid *)
Theorem C03_list_index_errs :
  forall E fuel item ps aps co m x errs v who,
    run E m (S fuel) (ListV item ps aps co) x = OInvalid (Invalid (IndexErrs errs) v who) ->
    exists y xs,
      gate E co TList TList x = inr y /\
      all_failing E m ps aps y = Ok [] /\
      py_iter y = Ok xs /\
      Forall (fun xi => normal (run E m fuel item xi) = true) xs /\
      errs = index_errs 0 (map (run E m fuel item) xs) /\ errs <> [] /\
      v = y /\ who = ListV item ps aps co.
Proof. intros E fuel item ps aps co m x errs v who. exact (seq_index_errs E TList TList VList (run E m fuel) _ item ps aps co m x errs v who). Qed.
Print Assumptions C03_list_index_errs.

Theorem C03_utuple_index_errs :
  forall E fuel item ps aps co m x errs v who,
    run E m (S fuel) (UTupleV item ps aps co) x = OInvalid (Invalid (IndexErrs errs) v who) ->
    exists y xs,
      gate E co TTuple TList x = inr y /\
      all_failing E m ps aps y = Ok [] /\
      py_iter y = Ok xs /\
      Forall (fun xi => normal (run E m fuel item xi) = true) xs /\
      errs = index_errs 0 (map (run E m fuel item) xs) /\ errs <> [] /\
      v = y /\ who = UTupleV item ps aps co.
Proof. intros E fuel item ps aps co m x errs v who. exact (seq_index_errs E TTuple TList VTuple (run E m fuel) _ item ps aps co m x errs v who). Qed.
Print Assumptions C03_utuple_index_errs.

(* (j, inv) is reported iff position j exists and the child returned exactly inv there *)
Theorem C03_index_errs_exact :
  forall outs j inv,
    In (j, inv) (index_errs 0 outs) <-> nth_error outs j = Some (OInvalid inv).
Proof.
  intros. rewrite index_errs_spec. rewrite Nat.sub_0_r. split; [intros [_ H]; exact H | intros H; split; [apply Nat.le_0_l | exact H]].
Qed.
Print Assumptions C03_index_errs_exact.

(* container-level failures are reported before, and instead of, validating any element:
   the result does not depend on the child runner at all *)
Theorem C03_container_failure_first :
  forall E exact dest wrap rec1 rec2 self item ps aps co m x,
    (exists e, gate E co exact dest x = inl e) \/
    (exists y, gate E co exact dest x = inr y /\ all_failing E m ps aps y <> Ok []) \/
    (mode_eqb m Sync && nonempty aps = true) ->
    seq_body E exact dest wrap rec1 self item ps aps co m x
    = seq_body E exact dest wrap rec2 self item ps aps co m x.
Proof. exact seq_container_first. Qed.
Print Assumptions C03_container_failure_first.

(* n-tuple: arity on the coerced value, then each slot by its own validator *)
Theorem C03_ntuple_accept :
  forall E fuel fields vobj co m x out,
    run E m (S fuel) (NTupleV fields vobj co) x = OValid out <->
    exists y xs ws,
      gate E co TTuple TList x = inr y /\
      pred_eval E (PExactItemCount (zlen fields)) y = Ok true /\
      py_iter y = Ok xs /\
      Forall2 (fun c w => run E m fuel (fst c) (snd c) = OValid w) (combine fields xs) ws /\
      obj_stage E (NTupleV fields vobj co) m vobj None (VTuple ws) = OValid out.
Proof. intros. exact (ntuple_accept E (run E m fuel) _ fields vobj co m x out). Qed.
Print Assumptions C03_ntuple_accept.

Theorem C03_ntuple_arity_error :
  forall E fuel fields vobj co m x y,
    gate E co TTuple TList x = inr y ->
    pred_eval E (PExactItemCount (zlen fields)) y = Ok false ->
    run E m (S fuel) (NTupleV fields vobj co) x
    = OInvalid (Invalid (PredicateErrs [PRSync (PExactItemCount (zlen fields))]) y (NTupleV fields vobj co)).
Proof. intros. exact (ntuple_arity_error E (run E m fuel) _ fields vobj co m x y H H0). Qed.
Print Assumptions C03_ntuple_arity_error.

Theorem C03_ntuple_arity_first :
  forall E rec1 rec2 self fields vobj co m x y,
    gate E co TTuple TList x = inr y ->
    pred_eval E (PExactItemCount (zlen fields)) y <> Ok true ->
    ntuple_body E rec1 self fields vobj co m x = ntuple_body E rec2 self fields vobj co m x.
Proof. exact ntuple_arity_first. Qed.
Print Assumptions C03_ntuple_arity_first.

Theorem C03_ntuple_index_errs :
  forall E fuel fields vobj co m x errs v who,
    run E m (S fuel) (NTupleV fields vobj co) x = OInvalid (Invalid (IndexErrs errs) v who) ->
    (forall id obj errs', uobj E id obj <> Some (IndexErrs errs')) ->
    exists y xs,
      gate E co TTuple TList x = inr y /\ py_iter y = Ok xs /\
      Forall (fun c => normal (callr (run E m fuel) c) = true) (combine fields xs) /\
      errs = index_errs 0 (map (callr (run E m fuel)) (combine fields xs)) /\ errs <> [] /\
      v = y /\ who = NTupleV fields vobj co.
Proof. intros E fuel fields vobj co m x errs v who. exact (ntuple_index_errs E (run E m fuel) _ fields vobj co m x errs v who). Qed.
Print Assumptions C03_ntuple_index_errs.

(* set: payload is built with set.add from the children's payloads (equal members merge) *)
Theorem C03_set_accept :
  forall E fuel item ps aps co m x out,
    run E m (S fuel) (SetV item ps aps co) x = OValid out <->
    (m = Sync -> aps = []) /\
    exists y xs ws,
      gate E co TSet TSet x = inr y /\
      all_failing E m ps aps y = Ok [] /\
      py_iter y = Ok xs /\
      Forall2 (fun xi w => run E m fuel item xi = OValid w) xs ws /\
      Forall (fun w => hashable (chashable E) w = true) ws /\
      out = VSet (fold_left set_add ws []).
Proof. intros. exact (set_accept E (run E m fuel) _ item ps aps co m x out). Qed.
Print Assumptions C03_set_accept.

Theorem C03_set_member_errs :
  forall E fuel item ps aps co m x errs v who,
    run E m (S fuel) (SetV item ps aps co) x = OInvalid (Invalid (SetErrs errs) v who) ->
    exists y xs,
      gate E co TSet TSet x = inr y /\ py_iter y = Ok xs /\
      Forall (fun xi => normal (run E m fuel item xi) = true) xs /\
      errs = invalids (map (run E m fuel item) xs) /\ errs <> [] /\
      v = y /\ who = SetV item ps aps co.
Proof. intros E fuel item ps aps co m x errs v who. exact (set_member_errs E (run E m fuel) _ item ps aps co m x errs v who). Qed.
Print Assumptions C03_set_member_errs.

(* map: every key and every value; payload keyed by the key payloads (dict assignment merges) *)
Theorem C03_map_accept :
  forall E fuel kv vv ps aps co m x out,
    run E m (S fuel) (MapV kv vv ps aps co) x = OValid out <->
    (m = Sync -> aps = []) /\
    exists y kvs pairs,
      gate E co TDict TDict x = inr y /\
      all_failing E m ps aps y = Ok [] /\
      as_dict y = Some kvs /\
      Forall2 (fun p q => run E m fuel kv (fst p) = OValid (fst q) /\
                          run E m fuel vv (snd p) = OValid (snd q)) kvs pairs /\
      Forall (fun q => hashable (chashable E) (fst q) = true) pairs /\
      out = VDict (fold_left (fun d q => dict_set d (fst q) (snd q)) pairs []).
Proof. intros. exact (map_accept E (run E m fuel) _ kv vv ps aps co m x out). Qed.
Print Assumptions C03_map_accept.

Theorem C03_map_errs :
  forall E fuel kv vv ps aps co m x errs v who,
    run E m (S fuel) (MapV kv vv ps aps co) x = OInvalid (Invalid (MapErr errs) v who) ->
    exists y kvs,
      gate E co TDict TDict x = inr y /\ as_dict y = Some kvs /\
      errs = map_errs_of (run E m fuel) kv vv kvs /\ errs <> [] /\
      v = y /\ who = MapV kv vv ps aps co.
Proof. intros E fuel kv vv ps aps co m x errs v who. exact (map_errs E (run E m fuel) _ kv vv ps aps co m x errs v who). Qed.
Print Assumptions C03_map_errs.

(* non-vacuity *)
Section Example.
  Local Open Scope Z_scope.
  Definition ex_env : env :=
    {| classes := fun _ => {| ckind_of := CkPlain; chash_of := true; cfields_of := [] |};
       upred := fun _ _ => true; uapred := fun _ _ => false; uproc := fun _ x => x;
       ucoerce := fun _ x => Some x; ucompat := fun _ => [];
       uinto := fun _ xs => VTuple xs; uobj := fun _ _ => None; uaobj := fun _ _ => None;
       uvalid := fun _ _ _ x => OValid x; lazy_env := fun _ => AlwaysValid;
       oracle := fun _ _ => None; re_match := fun _ _ => true; email_match := fun _ => true;
       case_map := fun _ s => s |}.
  Definition strv := Scalar KStr None [Strip] [PNotBlank] [].
  Example C03_nonvacuous_set_merge :
    run ex_env Sync 2%nat (SetV strv [] [] None) (VSet [VStr [97]; VStr [32; 97]; VStr [98]])
    = OValid (VSet [VStr [97]; VStr [98]]).
  Proof. vm_compute. reflexivity. Qed.
  Example C03_nonvacuous_index_errs :
    run ex_env Sync 2%nat (ListV strv [PMinItems 1] [] None) (VList [VStr [97]; VInt 3; VStr [32]; VStr [98]])
    = OInvalid (Invalid (IndexErrs [(1%nat, Invalid (TypeErr TStr) (VInt 3) strv);
                                    (2%nat, Invalid (PredicateErrs [PRSync PNotBlank]) (VStr []) strv)])
                        (VList [VStr [97]; VInt 3; VStr [32]; VStr [98]]) (ListV strv [PMinItems 1] [] None)).
  Proof. vm_compute. reflexivity. Qed.
  Example C03_nonvacuous_map :
    run ex_env Sync 2%nat (MapV strv (Scalar KInt None [] [] []) [] [] None)
        (VDict [(VStr [97], VInt 1); (VStr [32; 97], VInt 2); (VInt 5, VStr [])])%Z
    = OInvalid (Invalid (MapErr [(VInt 5, (Some (Invalid (TypeErr TStr) (VInt 5) strv),
                                           Some (Invalid (TypeErr TInt) (VStr []) (Scalar KInt None [] [] []))))])
                        (VDict [(VStr [97], VInt 1); (VStr [32; 97], VInt 2); (VInt 5, VStr [])])
                        (MapV strv (Scalar KInt None [] [] []) [] [] None)).
  Proof. vm_compute. reflexivity. Qed.
End Example.
