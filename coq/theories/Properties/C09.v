(* C09 - validate_signature delivers validated values, is strict and transparent.
   Delivery and symmetry are theorems about the wrapper model; strictness under the default
   resolution is C07's derivation in signature mode (Properties/C07.v, C09_strict below);
   name / docstring / coroutine-ness are a regenerated source fact plus direct observation. *)
From Coq Require Import ZArith List Bool Arith.
From KV Require Import Base.PyVal Base.Prims Model.Validator Model.Sem Model.Signature Proofs.SignatureP.
Import ListNotations.

(* when the body runs it is given, position by position and keyword by keyword, the
   validator's payload for a checked argument and the caller's own value otherwise *)
Theorem C09_delivery :
  forall rec t body args kwargs,
    NoDup (map fst kwargs) -> pos_normal rec t 0 args = true -> kw_normal rec t kwargs = true ->
    pos_rejected rec t 0 args = [] -> kw_rejected rec t kwargs = [] ->
    wrap rec t body args kwargs = post rec t (body (deliver_pos rec t 0 args) (map (dk rec t) kwargs)).
Proof. exact wrap_runs. Qed.
Print Assumptions C09_delivery.

Theorem C09_payload :
  forall rec v a w, rec v a = OValid w -> deliver rec (Some v) a = w.
Proof. exact deliver_checked. Qed.
Print Assumptions C09_payload.

Theorem C09_untouched : forall rec a, deliver rec None a = a.
Proof. exact deliver_unchecked. Qed.
Print Assumptions C09_untouched.

(* identically for positional and keyword passing *)
Theorem C09_same_either_way :
  forall d i p,
    NoDup (map p_name (d_params d)) ->
    nth_error (positionals (d_params d)) i = Some p -> p_kind p = PosOrKw ->
    pos_v (mk_tables d) i = kw_check (mk_tables d) (p_name p).
Proof. exact pos_kw_same. Qed.
Print Assumptions C09_same_either_way.

(* with or without a return annotation: the arguments handed to the body do not depend on it *)
Theorem C09_return_annotation_irrelevant :
  forall rec t t' args kwargs,
    t_positional t = t_positional t' -> t_schema t = t_schema t' -> t_varargs t = t_varargs t' ->
    t_kwargs t = t_kwargs t' -> t_ignored_extra t = t_ignored_extra t' ->
    validate_call rec t args kwargs = validate_call rec t' args kwargs.
Proof.
  intros rec t t' args kwargs H1 H2 H3 H4 H5. unfold validate_call.
  assert (Hp : forall args i s, pos_loop rec t i args s = pos_loop rec t' i args s).
  { induction args0 as [|a r IH]; intros i s; cbn [pos_loop]; [reflexivity|].
    rewrite H1, H3. destruct (nth_error (t_positional t') i) as [[[k v]|]|].
    - destruct (rec v a); try reflexivity; apply IH.
    - apply IH.
    - destruct (t_varargs t') as [[k v]|]; [destruct (rec v a); try reflexivity; apply IH | apply IH]. }
  assert (Hk : forall kws s, kw_loop rec t kws s = kw_loop rec t' kws s).
  { induction kws as [|[k a] r IH]; intros s; cbn [kw_loop]; [reflexivity|].
    rewrite H2, H4, H5. destruct (lookup (t_schema t') k) as [[v|]|].
    - destruct (rec v a); try reflexivity; apply IH.
    - apply IH.
    - destruct (t_kwargs t') as [v|]; [|apply IH].
      destruct (mem k (t_ignored_extra t')); [apply IH|]. destruct (rec v a); try reflexivity; apply IH. }
  rewrite Hp. destruct (pos_loop rec t' 0 args _) as [o|s]; [reflexivity|].
  unfold close_varargs. rewrite H3. apply Hk.
Qed.
Print Assumptions C09_return_annotation_irrelevant.

(* under the default resolution of validate_signature (derive with sig = true) nothing is
   coerced: an accepted argument already is a value of the annotated type, and the body is
   handed an identical value - recursively through containers, dataclasses and NamedTuples.
   Premises: values as Python builds them (inst_ok: an instance has exactly its class's fields;
   proper: no two equal set members or dict keys). PARTIAL only in that TypedDict annotations
   are left to the strict family: a TypedDict value may carry undeclared keys, which the
   validator accepts and drops (see the recorded finding). *)
From KV Require Import Model.Derive Proofs.DeriveP Proofs.DeriveR Corr.UserLib.
Theorem C09_strict :
  forall (E : env) a, okstrict E a = true ->
    forall v, derive true a = Ok v ->
    forall fuel x w, run E Sync fuel v x = OValid w -> inst_ok E x = true ->
                     has_type a x = true /\ (proper x = true -> w = x).
Proof. exact derive_strict_all. Qed.
Print Assumptions C09_strict.

(* ... and conversely (Proofs/DeriveC.v): an argument that is a value of the annotated type is accepted
   and handed on unchanged, every other well-formed argument is rejected with an Invalid - the default
   resolution accepts exactly the values of the annotated type.  [cplain] is [okstrict] with Literal
   members restricted to str / int / bool / bytes / None; [hproper] adds to [inst_ok] and [proper] that
   set members and dict keys are hashable; the annotation's height bounds the fuel. *)
From KV Require Import Proofs.DeriveC.
Theorem C09_strict_accepts_exactly_the_type :
  forall (E : env) a, cplain E a = true ->
    forall v, derive true a = Ok v ->
    forall n x, (aheight a < n)%nat -> hproper E x = true ->
      (has_type a x = true <-> run E Sync n v x = OValid x) /\
      (has_type a x = false <-> exists i, run E Sync n v x = OInvalid i).
Proof.
  intros E a Hc v Hd n x Hn Hp. destruct (derive_complete E a Hc v Hd n x Hn Hp) as [N C].
  assert (S : forall w, run E Sync n v x = OValid w -> has_type a x = true).
  { intros w Hr. apply (derive_strict_all E a (cplain_okstrict E a Hc) v Hd n x w Hr (hproper_inst E x Hp)). }
  split; split.
  - exact C.
  - intros Hr. exact (S x Hr).
  - intros Hf. destruct (run E Sync n v x) as [w|i| | |] eqn:Er; try discriminate.
    + rewrite (S w eq_refl) in Hf. discriminate.
    + exists i. reflexivity.
  - intros [i Hi]. destruct (has_type a x) eqn:Ht; [|reflexivity]. rewrite (C eq_refl) in Hi. discriminate.
Qed.
Print Assumptions C09_strict_accepts_exactly_the_type.

(* non-vacuity: a dataclass holding a list of NamedTuples; the look-alike dict is rejected *)
Section StrictExample.
  Import ListNotations. Open Scope Z_scope.
  Definition sa := VStr [97]. Definition sb := VStr [98].
  Definition E1 : env :=
    mk_env [Build_cls (CkData false) false [(sa, None); (sb, Some (VInt 7))];
                         Build_cls CkNamed true [(sa, None)]] [] [] [] [] [].
  Definition NT := ARecord RkNamed 1%nat [(sa, (AScalar KDecimal, true))].
  Definition DC := ARecord RkData 0%nat [(sa, (AList NT, true)); (sb, (AScalar KInt, false))].
  Definition inst := VObj 0%nat [(sa, VList [VObj 1%nat [(sa, VDecimal (DFin false 15 (-1)))]]); (sb, VInt 2)].
  Example C09_strict_nonvacuous :
    okstrict E1 DC = true /\ inst_ok E1 inst = true /\ proper inst = true /\
    exists v, derive true DC = Ok v /\ run E1 Sync 8 v inst = OValid inst /\
              (exists i, run E1 Sync 8 v (VDict [(sa, VList []); (sb, VInt 2)]) = OInvalid i) /\
              (exists i, run E1 Sync 8 v (VObj 0%nat [(sa, VList [VObj 1%nat [(sa, VStr [49])]]); (sb, VInt 2)]) = OInvalid i).
  Proof. repeat split; try reflexivity. eexists. repeat split; try (vm_compute; reflexivity); eexists; vm_compute; reflexivity. Qed.
  Example C09_strict_decides_nonvacuous :
    cplain E1 DC = true /\ hproper E1 inst = true /\ has_type DC inst = true /\ (aheight DC < 8)%nat.
  Proof. split; [vm_compute; reflexivity|]. split; [vm_compute; reflexivity|]. split; [vm_compute; reflexivity|]. apply Nat.ltb_lt. vm_compute. reflexivity. Qed.
End StrictExample.
