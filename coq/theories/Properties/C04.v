(* C04 - Record validators: required/optional/unknown keys and complete key errors. *)
From Coq Require Import ZArith List Bool.
From KV Require Import Base.PyVal Base.Prims Model.Validator Model.Sem
     Proofs.Scalar Proofs.Calls Proofs.Records.
Import ListNotations.
Open Scope nat_scope.

(* RecordValidator: dict (subclasses admitted), no undeclared key when strict, no key error,
   target built by [into] from the declared keys' payloads, whole-object check passes *)
Theorem C04_record_accept :
  forall E fuel keys into vobj avobj strict m x out,
    let self := RecordV keys into vobj avobj strict in
    run E m (S fuel) self x = OValid out <->
    (m = Sync -> avobj = None) /\
    isinstance (ckind E) x TDict = true /\
    exists data,
      as_dict x = Some data /\
      (strict = true -> has_unknown_key (map fst keys) data = false) /\
      present_normal (run E m fuel) (record_keys keys) data /\
      key_errs_of (run E m fuel) self (record_keys keys) data x = [] /\
      obj_stage E self m vobj avobj
                (uinto E into (map snd (key_payload_of (run E m fuel) AbsNothing (record_keys keys) data)))
      = OValid out.
Proof. intros. exact (record_accept E (run E m fuel) self keys into vobj avobj strict m x out). Qed.
Print Assumptions C04_record_accept.

Theorem C04_dictany_accept :
  forall E fuel schema vobj avobj strict m x out,
    let self := DictAnyV schema vobj avobj strict in
    run E m (S fuel) self x = OValid out <->
    (m = Sync -> avobj = None) /\
    exists data,
      x = VDict data /\
      (strict = true -> has_unknown_key (map fst schema) data = false) /\
      present_normal (run E m fuel) (dictany_keys schema) data /\
      key_errs_of (run E m fuel) self (dictany_keys schema) data x = [] /\
      obj_stage E self m vobj avobj
                (VDict (key_payload_of (run E m fuel) AbsOmit (dictany_keys schema) data))
      = OValid out.
Proof. intros. exact (dictany_accept E (run E m fuel) self schema vobj avobj strict m x out). Qed.
Print Assumptions C04_dictany_accept.

Theorem C04_dictany_plain_dict_only :
  forall E fuel schema vobj avobj strict m x,
    (m = Sync -> avobj = None) ->
    (forall data, x <> VDict data) ->
    run E m (S fuel) (DictAnyV schema vobj avobj strict) x
    = OInvalid (Invalid (TypeErr TDict) x (DictAnyV schema vobj avobj strict)).
Proof. intros. exact (dictany_plain_dict_only E (run E m fuel) _ schema vobj avobj strict m x H H0). Qed.
Print Assumptions C04_dictany_plain_dict_only.

(* Dataclass / NamedTuple / TypedDict validators *)
Theorem C04_class_accept :
  forall E fuel rk c schema vobj avobj strict co m x out,
    let self := ClassV rk c schema vobj avobj strict co in
    run E m (S fuel) self x = OValid out <->
    (m = Sync -> avobj = None) /\
    exists y data,
      class_gate E rk c co x = inr y /\
      as_dict y = Some data /\
      (strict = true -> has_unknown_key (map fst schema) data = false) /\
      present_normal (run E m fuel) schema data /\
      key_errs_of (run E m fuel) self schema data y = [] /\
      obj_stage E self m vobj avobj
                (match rk with
                 | RkTyped => VDict (key_payload_of (run E m fuel) AbsOmit schema data)
                 | _ => construct E c (key_payload_of (run E m fuel) AbsOmit schema data)
                 end) = OValid out.
Proof. intros. exact (class_accept E (run E m fuel) self rk c schema vobj avobj strict co m x out). Qed.
Print Assumptions C04_class_accept.

(* input gate: a plain dict, or - dataclass / named tuple only - an instance of exactly the class *)
Theorem C04_class_gate :
  forall E rk c x y,
    class_gate E rk c None x = inr y <->
    (exists data, x = VDict data /\ y = x) \/
    (rk <> RkTyped /\ exists fs, x = VObj c fs /\ y = VDict fs).
Proof. exact class_gate_plain. Qed.
Print Assumptions C04_class_gate.

(* key errors: exactly one entry per missing required key and per present-but-invalid key,
   in declaration order, each the child's own Invalid; nothing else *)
Theorem C04_record_key_errs :
  forall E fuel keys into vobj avobj strict m x errs v who,
    let self := RecordV keys into vobj avobj strict in
    run E m (S fuel) self x = OInvalid (Invalid (KeyErrs errs) v who) ->
    (forall id obj errs', uobj E id obj <> Some (KeyErrs errs')) ->
    (forall id obj errs', uaobj E id obj <> Some (KeyErrs errs')) ->
    exists data,
      as_dict x = Some data /\
      errs = key_errs_of (run E m fuel) self (record_keys keys) data x /\ errs <> [] /\
      v = x /\ who = self.
Proof. intros E fuel keys into vobj avobj strict m x errs v who self. exact (record_key_errs E (run E m fuel) self keys into vobj avobj strict m x errs v who). Qed.
Print Assumptions C04_record_key_errs.

Theorem C04_key_errs_entries :
  forall rec self keys data orig k inv,
    In (k, inv) (key_errs_of rec self keys data orig) ->
    exists v req, In (k, (v, req)) keys /\
      ((dict_get data k = None /\ req = true /\ inv = Invalid MissingKeyErr orig self) \/
       (exists xv, dict_get data k = Some xv /\ rec v xv = OInvalid inv)).
Proof. exact key_errs_in. Qed.
Print Assumptions C04_key_errs_entries.

Theorem C04_no_key_error_iff :
  forall rec self keys data orig,
    key_errs_of rec self keys data orig = [] <->
    Forall (fun k => match dict_get data (fst k) with
                     | None => snd (snd k) = false
                     | Some xv => forall inv, rec (fst (snd k)) xv <> OInvalid inv
                     end) keys.
Proof. exact key_errs_nil. Qed.
Print Assumptions C04_no_key_error_iff.

(* undeclared keys never leak into the payload *)
Theorem C04_no_undeclared_leak :
  forall rec pol keys data k w,
    In (k, w) (key_payload_of rec pol keys data) -> In k (map fst keys).
Proof. exact key_payload_declared. Qed.
Print Assumptions C04_no_undeclared_leak.

(* unknown keys are decided before any value is validated and report the declared key set *)
Theorem C04_record_unknown_first :
  forall E rec1 rec2 self keys into vobj avobj m x data,
    as_dict x = Some data ->
    has_unknown_key (map fst keys) data = true ->
    record_body E rec1 self keys into vobj avobj true m x
    = record_body E rec2 self keys into vobj avobj true m x.
Proof. exact record_unknown_first. Qed.
Print Assumptions C04_record_unknown_first.

Theorem C04_record_unknown_error :
  forall E fuel keys into vobj avobj m x data,
    (m = Sync -> avobj = None) ->
    isinstance (ckind E) x TDict = true ->
    as_dict x = Some data ->
    has_unknown_key (map fst keys) data = true ->
    run E m (S fuel) (RecordV keys into vobj avobj true) x
    = OInvalid (Invalid (ExtraKeysErr (map fst keys)) x (RecordV keys into vobj avobj true)).
Proof. intros. exact (record_unknown_error E (run E m fuel) _ keys into vobj avobj m x data H H0 H1 H2). Qed.
Print Assumptions C04_record_unknown_error.

Theorem C04_class_unknown_first :
  forall E rec1 rec2 self rk c schema vobj avobj co m x y data,
    class_gate E rk c co x = inr y -> as_dict y = Some data ->
    has_unknown_key (map fst schema) data = true ->
    class_body E rec1 self rk c schema vobj avobj true co m x
    = class_body E rec2 self rk c schema vobj avobj true co m x.
Proof. exact class_unknown_first. Qed.
Print Assumptions C04_class_unknown_first.

(* the whole-object check runs on the constructed object, sync check first, async only in async mode *)
Theorem C04_obj_stage :
  forall E self m vobj avobj obj,
    obj_stage E self m vobj avobj obj =
    match match vobj with Some id => uobj E id obj | None => None end with
    | Some e => OInvalid (Invalid e obj self)
    | None =>
        match m, avobj with
        | Async, Some id =>
            match uaobj E id obj with
            | Some e => OInvalid (Invalid e obj self)
            | None => OValid obj
            end
        | _, _ => OValid obj
        end
    end.
Proof. exact obj_stage_spec. Qed.
Print Assumptions C04_obj_stage.

Section Example.
  Local Open Scope Z_scope.
  Definition ex_env : env :=
    {| classes := fun _ => {| ckind_of := CkData false; chash_of := false;
                              cfields_of := [(VStr [97], None); (VStr [98], Some (VInt 5))] |};
       upred := fun _ _ => true; uapred := fun _ _ => false; uproc := fun _ x => x;
       ucoerce := fun _ x => Some x; ucompat := fun _ => [];
       uinto := fun _ xs => VTuple xs; uobj := fun _ _ => None; uaobj := fun _ _ => None;
       uvalid := fun _ _ _ x => OValid x; lazy_env := fun _ => AlwaysValid;
       oracle := fun _ _ => None; re_match := fun _ _ => true; email_match := fun _ => true;
       case_map := fun _ s => s |}.
  Definition iv := Scalar KInt None [] [] [].
  Definition dc := ClassV RkData 0%nat [(VStr [97], (iv, true)); (VStr [98], (iv, false))] None None true None.
  Example C04_nonvacuous_default :
    run ex_env Sync 2%nat dc (VDict [(VStr [97], VInt 1)])
    = OValid (VObj 0%nat [(VStr [97], VInt 1); (VStr [98], VInt 5)]).
  Proof. vm_compute. reflexivity. Qed.
  Example C04_nonvacuous_errs :
    run ex_env Sync 3%nat
        (RecordV [(VStr [97], iv); (VStr [98], KeyNotRequired iv); (VStr [99], iv)] 0%nat None None false)
        (VDict [(VStr [98], VStr []); (VStr [122], VInt 0)])
    = OInvalid (Invalid (KeyErrs [(VStr [97], Invalid MissingKeyErr (VDict [(VStr [98], VStr []); (VStr [122], VInt 0)])
                                                (RecordV [(VStr [97], iv); (VStr [98], KeyNotRequired iv); (VStr [99], iv)] 0%nat None None false));
                                  (VStr [98], Invalid (TypeErr TInt) (VStr []) iv);
                                  (VStr [99], Invalid MissingKeyErr (VDict [(VStr [98], VStr []); (VStr [122], VInt 0)])
                                                (RecordV [(VStr [97], iv); (VStr [98], KeyNotRequired iv); (VStr [99], iv)] 0%nat None None false))])
                        (VDict [(VStr [98], VStr []); (VStr [122], VInt 0)])
                        (RecordV [(VStr [97], iv); (VStr [98], KeyNotRequired iv); (VStr [99], iv)] 0%nat None None false)).
  Proof. vm_compute. reflexivity. Qed.
  Example C04_nonvacuous_unknown :
    run ex_env Sync 2%nat dc (VDict [(VStr [97], VInt 1); (VStr [122], VInt 0)])
    = OInvalid (Invalid (ExtraKeysErr [VStr [97]; VStr [98]]) (VDict [(VStr [97], VInt 1); (VStr [122], VInt 0)]) dc).
  Proof. vm_compute. reflexivity. Qed.
End Example.
