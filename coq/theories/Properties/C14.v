(* C14 - Every error node names the validator that rejected and the value it examined. *)
From Coq Require Import ZArith List Bool.
From KV Require Import Base.PyVal Base.Prims Model.Validator Model.Sem Proofs.Provenance.
Import ListNotations.
Open Scope nat_scope.

(* One node.  An Invalid returned by validator [v] for argument [x] is either the Invalid of
   the validator a transparent wrapper stands for (Lazy, cache, KeyNotRequired never appear
   in error trees), or it names [v] itself, holds the argument itself for type / coercion
   failures, and every Invalid stored directly inside its error is - unchanged - the result
   of running one of [v]'s child validators (or a missing-key marker naming [v]). *)
Theorem C14_node :
  forall E,
    ((forall id obj e, uobj E id obj = Some e -> direct_children e = [] /\ is_gate_err e = false) /\
     (forall id obj e, uaobj E id obj = Some e -> direct_children e = [] /\ is_gate_err e = false)) ->
    forall m n v x i,
      run E m (S n) v x = OInvalid i ->
      (exists v', transparent E v v' /\ run E m n v' x = OInvalid i) \/
      (exists id f, v = UserV id f) \/
      match i with
      | Invalid e val who =>
          who = v /\ (is_gate_err e = true -> val = x) /\
          forall inv, In inv (direct_children e) ->
            (exists v' x', child_of v v' /\ run E m n v' x' = OInvalid inv) \/
            (exists data, inv = Invalid MissingKeyErr data v)
      end.
Proof. exact run_node. Qed.
Print Assumptions C14_node.

(* The whole tree.  Every node anywhere in a returned error tree names a validator that is
   reachable from the root through child / wrapper / lazy edges: error trees mirror the
   validator tree, for every tree, input, entry point and fuel. *)
Theorem C14_tree :
  forall E,
    ((forall id obj e, uobj E id obj = Some e -> direct_children e = [] /\ is_gate_err e = false) /\
     (forall id obj e, uaobj E id obj = Some e -> direct_children e = [] /\ is_gate_err e = false)) ->
    (forall id f m x e val who, uvalid E id f m x = OInvalid (Invalid e val who) ->
                                who = UserV id f /\ direct_children e = []) ->
    forall m fuel v x i,
      run E m fuel v x = OInvalid i ->
      forall e val who, In (Invalid e val who) (nodes_inv i) -> Reach E v who.
Proof. exact run_tree. Qed.
Print Assumptions C14_tree.

Section Example.
  Local Open Scope Z_scope.
  Definition ex_env : env :=
    {| classes := fun _ => {| ckind_of := CkPlain; chash_of := true; cfields_of := [] |};
       upred := fun _ _ => true; uapred := fun _ _ => false; uproc := fun _ x => x;
       ucoerce := fun _ x => Some x; ucompat := fun _ => [];
       uinto := fun _ xs => VTuple xs; uobj := fun _ _ => None; uaobj := fun _ _ => None;
       uvalid := fun _ _ _ x => OValid x; lazy_env := fun _ => Scalar KStr None [Strip] [PNotBlank] [];
       oracle := fun _ _ => None; re_match := fun _ _ => true; email_match := fun _ => true;
       case_map := fun _ s => s |}.
  Definition leaf := Scalar KStr None [Strip] [PNotBlank] [].
  Definition tree := NTupleV [LazyV 0 true; CacheV (Scalar KInt None [] [] [])] None (Some CoTupleOrList).
  (* the list input is coerced: the root error holds the coerced tuple; the element errors name the
     validators the wrappers stand for; the predicate error holds the stripped string, the type
     error the caller's own value *)
  Example C14_nonvacuous :
    run ex_env Sync 4%nat tree (VList [VStr [32]; VStr [49]])
    = OInvalid (Invalid (IndexErrs [(0%nat, Invalid (PredicateErrs [PRSync PNotBlank]) (VStr []) leaf);
                                    (1%nat, Invalid (TypeErr TInt) (VStr [49]) (Scalar KInt None [] [] []))])
                        (VTuple [VStr [32]; VStr [49]]) tree).
  Proof. vm_compute. reflexivity. Qed.
End Example.
