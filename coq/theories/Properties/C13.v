(* C13 - Validation is pure: no input mutation, no cross-call or cross-task interference.
   (a) The model of validation is a function of (validator, input): repeated calls and any
       history give equal results by construction; this transfers to the code only through the
       correspondence and the history / interleaving runs of the harness.
   (b) Effect soundness: tasks that do not write the shared store do not interfere under ANY
       schedule of ANY number of tasks (theorems below).  The premise - no function on the
       validation path writes shared or caller-owned state - is regenerated from the source
       on every run (KVGen.Facts_effects.no_unreviewed_writes).
   PARTIAL for preemptive threads: the theorem covers them only through the effect premise
   (nothing is written, so there is nothing to race on); GIL-level atomicity of reads is assumed. *)
From Coq Require Import List Arith.
From KV Require Import Model.Prog Proofs.Purity.
Import ListNotations.

Theorem C13_schedules :
  forall (St Res : Type) sc s ts s' ts',
    Forall (pure_prog St Res) ts ->
    interleave St Res s ts sc = (s', ts') ->
    s' = s /\
    forall i p, nth_error ts i = Some p ->
                nth_error ts' i = Some (snd (advance St Res (count i sc) s p)).
Proof. exact schedules_do_not_interfere. Qed.
Print Assumptions C13_schedules.

Theorem C13_finished_like_alone :
  forall (St Res : Type) sc s ts s' ts' i p o,
    Forall (pure_prog St Res) ts ->
    interleave St Res s ts sc = (s', ts') ->
    nth_error ts i = Some p -> nth_error ts' i = Some (Done o) ->
    snd (advance St Res (count i sc) s p) = Done o.
Proof. exact finished_like_alone. Qed.
Print Assumptions C13_finished_like_alone.

Theorem C13_frame :
  forall (St Res : Type) j s p, pure_prog St Res p -> fst (advance St Res j s p) = s.
Proof. exact history_independent. Qed.
Print Assumptions C13_frame.

(* non-vacuity: two two-step tasks reading a shared configuration, every schedule *)
Section Example.
  Definition t (x : nat) : prog nat nat :=
    Step (fun s => (s, Step (fun s' => (s', Done (x + s'))))).
  Example C13_nonvacuous_pure : Forall (pure_prog nat nat) [t 1; t 2].
  Proof.
    repeat constructor; intros s; (split; [reflexivity|]); constructor; intros s'; (split; [reflexivity|]); constructor.
  Qed.
  Example C13_nonvacuous_schedule :
    interleave nat nat 10 [t 1; t 2] [1; 0; 0; 1] = (10, [Done 11; Done 12]).
  Proof. reflexivity. Qed.
End Example.
