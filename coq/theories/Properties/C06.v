(* C06 - Sync and async validation agree; async-only checks are never silently skipped. *)
From Coq Require Import ZArith List Bool.
From KV Require Import Base.PyVal Base.Prims Model.Validator Model.Sem
     Proofs.Calls Proofs.Agree Proofs.Returns.
Import ListNotations.
Open Scope nat_scope.

(* If the synchronous call returns a result (Valid or Invalid), the awaited asynchronous
   call returns the very same result term - same verdict, payload, error tree, values and
   validators - and it does so whatever the async-only predicates and object checks
   would answer ([ap], [ao] are arbitrary): no verdict is ever produced with such a
   check left out.  Otherwise the synchronous call raised (AssertionError, or an
   exception C01 rules out). *)
Theorem C06_agree :
  forall E ap ao,
    user_coherent E ->
    forall fuel v x,
      normal (run E Sync fuel v x) = true ->
      run (with_async E ap ao) Async fuel v x = run E Sync fuel v x.
Proof. exact run_agree. Qed.
Print Assumptions C06_agree.

(* in particular for the environment's own async checks *)
Corollary C06_agree_same_env :
  forall E, user_coherent E ->
    forall fuel v x,
      normal (run E Sync fuel v x) = true ->
      run E Async fuel v x = run E Sync fuel v x.
Proof.
  intros E Hc fuel v x H.
  pose proof (run_agree E (uapred E) (uaobj E) Hc fuel v x H) as R.
  destruct E; exact R.
Qed.
Print Assumptions C06_agree_same_env.

(* whenever no async-only check is configured, the synchronous call does return *)
Theorem C06_returns :
  forall E,
    (forall r, async_free (lazy_env E r) = true) ->
    (forall id flav x, uvalid E id flav Sync x <> OAssert) ->
    forall fuel v x, async_free v = true -> run E Sync fuel v x <> OAssert.
Proof. exact run_returns. Qed.
Print Assumptions C06_returns.

Section Example.
  Local Open Scope Z_scope.
  Definition ex_env (ap : bool) : env :=
    {| classes := fun _ => {| ckind_of := CkPlain; chash_of := true; cfields_of := [] |};
       upred := fun _ _ => true; uapred := fun _ _ => ap; uproc := fun _ x => x;
       ucoerce := fun _ x => Some x; ucompat := fun _ => [];
       uinto := fun _ xs => VTuple xs; uobj := fun _ _ => None; uaobj := fun _ _ => None;
       uvalid := fun _ _ _ x => OValid x; lazy_env := fun _ => AlwaysValid;
       oracle := fun _ _ => None; re_match := fun _ _ => true; email_match := fun _ => true;
       case_map := fun _ s => s |}.
  Definition inner := Scalar KStr None [Strip] [PNotBlank] [APred 0].
  Definition v := ListV (UnionV [Scalar KInt None [] [] []; inner]) [PMinItems 1] [] None.
  (* the sync call returns although an async predicate exists in the tree: it is never reached *)
  Example C06_nonvacuous_returns :
    run (ex_env false) Sync 3%nat v (VList [VInt 1; VInt 2]) = OValid (VList [VInt 1; VInt 2])
    /\ run (ex_env false) Async 3%nat v (VList [VInt 1; VInt 2]) = OValid (VList [VInt 1; VInt 2]).
  Proof. split; vm_compute; reflexivity. Qed.
  (* ... and when it is reached, the sync call raises instead of skipping it *)
  Example C06_nonvacuous_asserts :
    run (ex_env false) Sync 3%nat v (VList [VInt 1; VStr [97]]) = OAssert.
  Proof. vm_compute. reflexivity. Qed.
End Example.
