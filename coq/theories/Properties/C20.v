(* C20 - Caching wrappers are transparent over any history of calls. *)
From Coq Require Import ZArith List Bool.
From KV Require Import Base.PyVal Base.Prims Model.Validator Model.Sem Model.Cache Proofs.CacheP.
Import ListNotations.
Open Scope nat_scope.

(* one call: result of the wrapped validator; it runs exactly on a miss; a miss stores exactly
   the (input, result) pair it computed - Invalid results like Valid ones; a hit stores nothing *)
Theorem C20_call :
  forall validate key_eq,
    (forall a b, key_eq a b = true -> a = b) ->
    forall s m x s' r ev,
      Inv validate s -> cache_call validate key_eq s m x = (s', r, ev) ->
      Inv validate s' /\
      (exists m', validate m' x = r) /\
      ((lookup key_eq s x = Some r /\ s' = s /\ ev = [EGet x true]) \/
       (lookup key_eq s x = None /\ r = validate m x /\
        ((normal r = true /\ s' = s ++ [(x, r)] /\ ev = [EGet x false; ERun m x; ESet x r]) \/
         (normal r = false /\ s' = s /\ ev = [EGet x false; ERun m x])))).
Proof. exact cache_call_spec. Qed.
Print Assumptions C20_call.

(* every finite history of sync and async calls, from the empty store *)
Theorem C20_history :
  forall validate key_eq,
    (forall a b, key_eq a b = true -> a = b) ->
    (forall x, validate Sync x = validate Async x) ->
    forall ops s' rs evs,
      history validate key_eq [] ops = (s', rs, evs) ->
      rs = map (fun op => validate (fst op) (snd op)) ops /\ Inv validate s' /\ length evs = length ops.
Proof.
  intros validate key_eq Hk Hm ops s' rs evs H.
  destruct (history_transparent validate key_eq Hk Hm ops [] s' rs evs (Inv_nil validate) H) as [A [B C]].
  auto.
Qed.
Print Assumptions C20_history.

Theorem C20_runs_iff_miss :
  forall validate key_eq s m x s' r ev,
    cache_call validate key_eq s m x = (s', r, ev) ->
    (is_hit ev = true /\ runs ev = 0 /\ s' = s) \/ (is_hit ev = false /\ runs ev = 1).
Proof. exact call_runs_iff_miss. Qed.
Print Assumptions C20_runs_iff_miss.

(* overlapping asynchronous calls: every schedule of every number of tasks *)
Theorem C20_interleaved :
  forall validate key_eq,
    (forall a b, key_eq a b = true -> a = b) ->
    (forall x, validate Sync x = validate Async x) ->
    forall sc xs s' ts',
      schedule validate key_eq [] (map (fun x => {| tin := x; tst := TStart |}) xs) sc = (s', ts') ->
      map tin ts' = xs /\
      forall t r, In t ts' -> tst t = TDone r -> r = validate Async (tin t).
Proof. exact interleaved_transparent. Qed.
Print Assumptions C20_interleaved.

Section Example.
  Local Open Scope Z_scope.
  Definition v (m : mode) (x : pyval) : outcome :=
    match x with VInt z => OValid (VInt (z + 1)) | _ => OInvalid (Invalid (TypeErr TInt) x AlwaysValid) end.
  Example C20_nonvacuous_history :
    history v pyval_eqb [] [(Sync, VInt 1); (Async, VStr []); (Async, VInt 1); (Sync, VStr [])]
    = ([(VInt 1, OValid (VInt 2)); (VStr [], OInvalid (Invalid (TypeErr TInt) (VStr []) AlwaysValid))],
       [OValid (VInt 2); OInvalid (Invalid (TypeErr TInt) (VStr []) AlwaysValid);
        OValid (VInt 2); OInvalid (Invalid (TypeErr TInt) (VStr []) AlwaysValid)],
       [[EGet (VInt 1) false; ERun Sync (VInt 1); ESet (VInt 1) (OValid (VInt 2))];
        [EGet (VStr []) false; ERun Async (VStr []); ESet (VStr []) (OInvalid (Invalid (TypeErr TInt) (VStr []) AlwaysValid))];
        [EGet (VInt 1) true]; [EGet (VStr []) true]]).
  Proof. vm_compute. reflexivity. Qed.
End Example.
