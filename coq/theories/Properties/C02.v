(* C02 - Scalar validators: exact type, then coercion/processors, then all predicates.
   This file only restates lemmas proved in Proofs/Scalar.v. *)
From Coq Require Import ZArith List Bool.
From KV Require Import Base.PyVal Base.Prims Model.Validator Model.Sem Proofs.Scalar.
Import ListNotations.
Open Scope Z_scope.

(* acceptance: gate (coercer says Just y / exact type), processors in order, every predicate *)
Theorem C02_accept :
  forall E fuel k co pre ps aps m x w,
    run E m (S fuel) (Scalar k co pre ps aps) x = OValid w <->
    (m = Sync -> aps = []) /\
    exists y, gate E co (ktype k) (ktype k) x = inr y /\
              procs_apply E pre y = Ok w /\
              Forall (fun p => pred_eval E p w = Ok true) ps /\
              (m = Async -> Forall (fun a => apred_eval E a w = true) aps).
Proof. intros; exact (scalar_accept E _ k co pre ps aps m x w). Qed.
Print Assumptions C02_accept.

(* the gate without a coercer is the exact-type test and returns the value itself *)
Theorem C02_gate_exact :
  forall E t d x y, gate E None t d x = inr y <-> exact_type x t = true /\ y = x.
Proof. exact gate_exact. Qed.
Print Assumptions C02_gate_exact.

Theorem C02_gate_coerced :
  forall E c t d x y, gate E (Some c) t d x = inr y <-> coerce_apply E c x = Some y.
Proof. exact gate_coerced. Qed.
Print Assumptions C02_gate_coerced.

Theorem C02_exact_rejects_lookalikes :
  (forall b, exact_type (VBool b) TInt = false) /\
  (forall z, exact_type (VInt z) TFloat = false) /\
  (forall u t, exact_type (VDatetime u t) TDate = false) /\
  (forall c b t, exact_type (VSub c b) t = true -> t = TClass c).
Proof.
  exact (conj exact_bool_not_int (conj exact_int_not_float
          (conj exact_datetime_not_date exact_sub_only_own_class))).
Qed.
Print Assumptions C02_exact_rejects_lookalikes.

(* rejection: type/coercion error on the original value, or the full list of failing
   predicates in declaration order, synchronous before asynchronous *)
Theorem C02_reject :
  forall E fuel k co pre ps aps m x i,
    let self := Scalar k co pre ps aps in
    run E m (S fuel) self x = OInvalid i ->
    (exists e, gate E co (ktype k) (ktype k) x = inl e /\ i = Invalid e x self) \/
    (exists y w, gate E co (ktype k) (ktype k) x = inr y /\
                 procs_apply E pre y = Ok w /\
                 preds_defined E ps w /\
                 let fs := map PRSync (filter (fun p => negb (holds E p w)) ps)
                           ++ match m with
                              | Sync => []
                              | Async => map PRAsync (filter (fun a => negb (apred_eval E a w)) aps)
                              end in
                 fs <> [] /\ i = Invalid (PredicateErrs fs) w self).
Proof. intros E fuel k co pre ps aps m x i self. exact (scalar_reject E self k co pre ps aps m x i). Qed.
Print Assumptions C02_reject.

Theorem C02_gate_error_kinds :
  forall E co t d x e,
    gate E co t d x = inl e ->
    match co with
    | None => exact_type x t = false /\ e = TypeErr t
    | Some c => coerce_apply E c x = None /\ e = CoercionErr (coerce_compat E c) d
    end.
Proof. exact gate_rejects. Qed.
Print Assumptions C02_gate_error_kinds.

Theorem C02_assert_iff_async_configured :
  forall E fuel k co pre ps aps m x,
    run E m (S fuel) (Scalar k co pre ps aps) x = OAssert <-> m = Sync /\ aps <> [].
Proof. intros; exact (scalar_assert E _ k co pre ps aps m x). Qed.
Print Assumptions C02_assert_iff_async_configured.

Theorem C02_equals :
  forall E fuel mt pre m x w,
    run E m (S fuel) (EqualsV mt pre) x = OValid w <->
    exact_type x (type_of mt) = true /\ procs_apply E pre x = Ok w /\ py_eq_p w mt = Ok true.
Proof. intros; exact (equals_accept E _ mt pre x w). Qed.
Print Assumptions C02_equals.

Theorem C02_equals_type_reject :
  forall E fuel mt pre m x,
    exact_type x (type_of mt) = false ->
    run E m (S fuel) (EqualsV mt pre) x
    = OInvalid (Invalid (TypeErr (type_of mt)) x (EqualsV mt pre)).
Proof. intros; exact (equals_type_reject E _ mt pre x H). Qed.
Print Assumptions C02_equals_type_reject.

Theorem C02_none :
  forall E fuel m x,
    (run E m (S fuel) (NoneV None) x = OValid VNone <-> x = VNone) /\
    (x <> VNone ->
     run E m (S fuel) (NoneV None) x = OInvalid (Invalid (TypeErr TNone) x (NoneV None))).
Proof. intros; split; [exact (none_plain E _ x) | exact (none_plain_reject E _ x)]. Qed.
Print Assumptions C02_none.

(* non-vacuity: a concrete pipeline with a coercer, two processors and three predicates *)
Section Example.
  Definition ex_env : env :=
    {| classes := fun _ => {| ckind_of := CkPlain; chash_of := true; cfields_of := [] |};
       upred := fun _ _ => true; uapred := fun _ _ => false; uproc := fun _ x => x;
       ucoerce := fun _ x => Some x; ucompat := fun _ => [];
       uinto := fun _ xs => VTuple xs; uobj := fun _ _ => None; uaobj := fun _ _ => None;
       uvalid := fun _ _ _ x => OValid x; lazy_env := fun _ => AlwaysValid;
       oracle := fun _ _ => None; re_match := fun _ _ => true; email_match := fun _ => true;
       case_map := fun _ s => s |}.
  Definition ex_v :=
    Scalar KStr None [Strip; Upper] [PNotBlank; PMaxLength 1; PStartsWith (VStr [66])] [APred 0].
  Example C02_nonvacuous_reject :
    run ex_env Async 1 ex_v (VStr [32; 97; 98; 32])
    = OInvalid (Invalid (PredicateErrs [PRSync (PMaxLength 1); PRSync (PStartsWith (VStr [66]));
                                         PRAsync (APred 0)])
                        (VStr [65; 66]) ex_v).
  Proof. vm_compute. reflexivity. Qed.
  Example C02_nonvacuous_accept :
    run ex_env Sync 1 (Scalar KStr None [Strip] [PNotBlank] []) (VStr [32; 97]) = OValid (VStr [97]).
  Proof. vm_compute. reflexivity. Qed.
  Example C02_nonvacuous_assert : run ex_env Sync 1 ex_v (VInt 3) = OAssert.
  Proof. vm_compute. reflexivity. Qed.
End Example.
