(* C12 - Error rendering is total and faithful for every error the library can produce.
   Structure is exact; leaf message texts (built with str()/repr()) are abstract. *)
From Coq Require Import ZArith List Bool.
From KV Require Import Base.PyVal Base.Prims Model.Validator Model.Render Proofs.Provenance Proofs.RenderP.
Import ListNotations.
Open Scope nat_scope.

(* one level of to_serializable_errs never raises on a node whose predicates are built-in
   (Choices over members of any kinds included) and whose custom error, if any, is a SerializableErr - for EVERY
   next-level callback *)
Theorem C12_total_one_level :
  forall (A : Type) (nl : invalid -> A) i,
    node_renderable i = true -> exists r, render1 A nl i = Ok r.
Proof. exact render1_total. Qed.
Print Assumptions C12_total_one_level.

(* the default rendering of a whole error tree never raises when every node is renderable *)
Theorem C12_total :
  forall i, (forall nd, In nd (nodes_inv i) -> node_renderable nd = true) -> raises (render_all i) = false.
Proof. exact render_all_total. Qed.
Print Assumptions C12_total.

(* faithful: the next-level callback is applied to every direct child, in order, and to
   nothing else - stated for an arbitrary callback *)
Theorem C12_faithful :
  forall (A : Type) (nl : invalid -> A) i r,
    render1 A nl i = Ok r ->
    match i with Invalid e _ _ => rnode_children A r = map nl (direct_children e) end.
Proof. exact render1_children. Qed.
Print Assumptions C12_faithful.

(* exactly one entry per failing index / key / map pair / set member / union variant / predicate *)
Theorem C12_entries :
  forall (A : Type) (nl : invalid -> A) i r,
    render1 A nl i = Ok r ->
    match i, r with
    | Invalid (IndexErrs ix) _ _, RIndex xs => map fst xs = map fst ix
    | Invalid (KeyErrs ks) _ _, RKeys xs => map fst xs = map fst ks
    | Invalid (MapErr ks) _ _, RMap xs => map fst xs = map fst ks
    | Invalid (SetErrs es) _ _, RMembers xs => length xs = length es
    | Invalid (UnionErrs es) _ _, RVariants xs => length xs = length es
    | Invalid (PredicateErrs ps) _ _, RMsgs n => n = length ps
    | _, _ => True
    end.
Proof. exact render1_entries. Qed.
Print Assumptions C12_entries.

(* the InvalidArgsError / InvalidReturnError message: exactly one line per failure (predicate, type,
   coercion, missing-key, unknown-keys, custom error) and one header line per container node, for every
   error tree and at every indentation - nothing is merged, dropped or repeated *)
Theorem C12_message_one_line_per_entry :
  forall i l, length (msg_levels l i) = failures i + headers i.
Proof. exact msg_levels_count. Qed.
Print Assumptions C12_message_one_line_per_entry.

Section Example.
  Local Open Scope Z_scope.
  Definition iv := Scalar KInt None [] [PMin (VInt 0) false] [].
  Definition e0 := Invalid (PredicateErrs [PRSync (PMin (VInt 0) false)]) (VInt (-1)) iv.
  Definition e1 := Invalid (TypeErr TInt) (VStr []) iv.
  Definition tree := Invalid (KeyErrs [(VStr [97], Invalid (IndexErrs [(0%nat, e0); (2%nat, e1)]) (VList []) (ListV iv [] [] None))])
                             (VDict []) (DictAnyV [] None None false).
  Example C12_nonvacuous :
    render_all tree
    = RT (RKeys [(VStr [97], RT (RIndex [(0%nat, RT (RMsgs 1)); (2%nat, RT (RMsgs 1))]))])
    /\ raises (render_all tree) = false
    /\ (forall nd, In nd (nodes_inv tree) -> node_renderable nd = true).
  Proof.
    split; [vm_compute; reflexivity|]. split; [vm_compute; reflexivity|].
    intros nd Hin. cbn in Hin. repeat (destruct Hin as [<-|Hin]; [reflexivity|]). destruct Hin.
  Qed.
  Example C12_nonvacuous_message :
    msg_levels 0 tree = [0; 1; 2; 3; 2]%nat /\ failures tree = 2%nat /\ headers tree = 3%nat.
  Proof. repeat split; vm_compute; reflexivity. Qed.
  (* a user-defined predicate is outside the renderer's table: TypeError, as in the implementation *)
  Example C12_user_predicate_raises :
    render_all (Invalid (PredicateErrs [PRSync (PUser 0)]) VNone iv) = RTRaise ExType.
  Proof. reflexivity. Qed.
End Example.
