(* C10 - JSON Schema generation returns a well-formed, serialisable schema or a TypeError.
   Model/Schema.v mirrors serialization/json_schema.py; Model/SchemaWf.v says what "only JSON
   types" and "valid Draft 2020-12 schema" mean for the keywords it can emit. The Python text
   functions embedded verbatim (str(Decimal), isoformat(), ...) are universally quantified. *)
From Coq Require Import ZArith List Bool String.
From KV Require Import Base.PyVal Base.Prims Model.Validator Model.Schema Model.SchemaWf Proofs.SchemaP.
Import ListNotations.
Open Scope Z_scope.

(* for every documented configuration, in plain and in named mode: the result is a JSON object
   holding JSON types only (finite numbers, one value per key) that satisfies the meta-schema,
   or the exception is TypeError - never anything else, never a non-JSON member *)
Theorem C10_schema :
  forall (text_of : textkind -> pyval -> option jstring) (named : option jstring) v,
    cfg_ok text_of v = true ->
    match to_schema text_of named v with
    | Ok j => (exists d, j = JObj d) /\ json_ok j = true /\ schema_ok j = true
    | Exn e => e = ExType
    end.
Proof. exact to_schema_ok. Qed.
Print Assumptions C10_schema.

Theorem C10_predicate :
  forall (text_of : textkind -> pyval -> option jstring) p,
    pred_cfg_ok p = true ->
    match pred_to_schema text_of p with
    | Ok j => (exists d, j = JObj d) /\ json_ok j = true /\ schema_ok j = true
    | Exn e => e = ExType
    end.
Proof. exact pred_to_schema_ok. Qed.
Print Assumptions C10_predicate.

(* to_named_json_schema: the root's only key is the schema name; its value is the schema *)
Theorem C10_named :
  forall text_of name ref_location v,
    cfg_ok text_of v = true ->
    match to_named_schema text_of name ref_location v with
    | Ok r => exists j, r = JObj [(name, j)] /\ json_ok j = true /\ schema_ok j = true
    | Exn e => e = ExType
    end.
Proof.
  intros text_of name ref v Hc. unfold to_named_schema.
  pose proof (to_schema_ok text_of (Some (ref ++ name)) v Hc) as H.
  destruct (to_schema text_of (Some (ref ++ name)) v) as [j|e]; cbn [pbind]; [|exact H].
  exists j. split; [reflexivity | apply H].
Qed.
Print Assumptions C10_named.

(* recursion: generation is structural on the validator tree and never enters a Lazy thunk
   (to_schema has no access to the table of lazy definitions); a recurrent Lazy becomes a
   reference to the named schema, in plain mode it is a TypeError *)
Theorem C10_recursive :
  forall text_of r ref,
    to_schema text_of (Some ref) (LazyV r true) = Ok (JObj [(lit "$ref", JStr ref)])
    /\ to_schema text_of (Some ref) (LazyV r false) = Ok (JObj [])
    /\ to_schema text_of None (LazyV r true) = Exn ExType.
Proof. intros. repeat split. Qed.
Print Assumptions C10_recursive.

(* ---------- the configurations excluded by cfg_ok are real failures (known findings) ---------- *)

Definition no_text : textkind -> pyval -> option jstring := fun _ _ => None.
Definition str_text : textkind -> pyval -> option jstring :=
  fun k v => match k, v with TkStr, VInt 1 => Some (lit "1") | _, _ => None end.
Definition int_v := Scalar KInt None [] [] [].

(* labels 1 and "1": "required" lists "1" twice *)
Example C10_refuted_colliding_labels :
  exists j, to_schema str_text None (DictAnyV [(VInt 1, int_v); (VStr (lit "1"), int_v)] None None false) = Ok j
            /\ schema_ok j = false.
Proof. eexists. split; [vm_compute; reflexivity | vm_compute; reflexivity]. Qed.

(* an n-tuple validator without fields: "prefixItems": [] *)
Example C10_refuted_empty_ntuple :
  exists j, to_schema no_text None (NTupleV [] None None) = Ok j /\ schema_ok j = false.
Proof. eexists. split; [vm_compute; reflexivity | vm_compute; reflexivity]. Qed.

(* a NaN Decimal among the choices: sorted() raises decimal.InvalidOperation *)
Example C10_refuted_nan_choice :
  to_schema no_text None
            (Scalar KDecimal None [] [PChoices [VDecimal (DNan false false); VDecimal (DFin false 1 0)]] [])
  = Exn ExInvalidOp.
Proof. vm_compute. reflexivity. Qed.

(* ---------- non-vacuity ---------- *)
Definition sample :=
  RecordV [(VStr (lit "name"), Scalar KStr None [] [PMinLength 1; PChoices [VStr (lit "b"); VStr (lit "a")]] []);
           (VStr (lit "tags"), KeyNotRequired (ListV (OptionalV (NoneV None) int_v) [PMaxItems 3; PUniqueItems] [] None));
           (VStr (lit "next"), KeyNotRequired (LazyV 0 true))] 0 None None true.

Example C10_nonvacuous :
  cfg_ok no_text sample = true /\
  exists j, to_schema no_text (Some (lit "#/defs/T")) sample = Ok j /\ json_ok j = true /\ schema_ok j = true
            /\ obj_get (match j with JObj d => d | _ => [] end) (lit "required") = Some (JArr [JStr (lit "name")]).
Proof. split; [vm_compute; reflexivity|]. eexists. repeat split; vm_compute; reflexivity. Qed.
