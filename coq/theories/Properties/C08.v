(* C08 - validate_signature: the body runs iff every checked argument is valid.
   Model/Signature.v is _wrap_fn: table construction (mk_tables) and the wrapper (wrap). The
   decorated function [body] and the validators' entry point [rec] (sync call or awaited async
   call) are arbitrary. *)
From Coq Require Import ZArith List Bool.
From KV Require Import Base.PyVal Base.Prims Model.Validator Model.Sem Model.Signature Proofs.SignatureP Corr.UserLib.
Import ListNotations.

(* which validator checks which supplied argument, for every parameter kind *)
Theorem C08_positional :
  forall d i,
    pos_check (mk_tables d) i
    = match nth_error (positionals (d_params d)) i with
      | Some p => match p_check (d_ignore d) p with Some v => Some (p_name p, false, v) | None => None end
      | None => match var_pos d with Some (k, v) => Some (k, true, v) | None => None end
      end.
Proof. exact pos_check_params. Qed.
Print Assumptions C08_positional.

Theorem C08_keyword :
  forall d k,
    kw_check (mk_tables d) k
    = match find_named (d_params d) k with
      | Some p => p_check (d_ignore d) p
      | None => match var_kw d with
                | Some v => if mem k (d_ignore d) then None else Some v
                | None => None
                end
      end.
Proof. exact kw_check_params. Qed.
Print Assumptions C08_keyword.

(* every supplied checked argument is accepted => the body runs (on the payloads), and the
   caller gets the function's own value / exception, or InvalidReturnError iff the checked
   return value is rejected *)
Theorem C08_body_runs :
  forall rec t body args kwargs,
    NoDup (map fst kwargs) -> pos_normal rec t 0 args = true -> kw_normal rec t kwargs = true ->
    pos_rejected rec t 0 args = [] -> kw_rejected rec t kwargs = [] ->
    wrap rec t body args kwargs = post rec t (body (deliver_pos rec t 0 args) (map (dk rec t) kwargs)).
Proof. exact wrap_runs. Qed.
Print Assumptions C08_body_runs.

(* some supplied checked argument is rejected => InvalidArgsError for EVERY body (so the body
   is not consulted), keyed by exactly the failing parameters' names: the parameter's name for
   a declared parameter, the *args parameter's name for an extra positional, the keyword itself
   for a **kwargs entry *)
Theorem C08_rejects :
  forall rec t body args kwargs,
    NoDup (map fst kwargs) -> pos_normal rec t 0 args = true -> kw_normal rec t kwargs = true ->
    (pos_rejected rec t 0 args <> [] \/ kw_rejected rec t kwargs <> []) ->
    exists errs, wrap rec t body args kwargs = WArgsErr errs /\ errs <> [] /\
                 forall k, In k (map fst errs) <-> rejected_keys rec t args kwargs k.
Proof. exact wrap_rejects. Qed.
Print Assumptions C08_rejects.

Theorem C08_return_checked :
  forall rec t v r, t_return t = Some v ->
    post rec t (BReturn r) = match rec v r with
                             | OValid _ => WReturn r
                             | OInvalid inv => WRetErr inv
                             | o => WAbort o
                             end.
Proof. exact post_return_checked. Qed.
Print Assumptions C08_return_checked.

Theorem C08_return_unchanged :
  forall rec t r e, (t_return t = None -> post rec t (BReturn r) = WReturn r) /\ post rec t (BRaise e) = WRaise e.
Proof. intros. split; [apply post_return_unchecked | apply post_raise]. Qed.
Print Assumptions C08_return_unchanged.

(* ---------- non-vacuity: all five kinds, both passing styles ---------- *)
Section Example.
  Open Scope Z_scope.
  Definition int_v := Scalar KInt None [] [] [].
  Definition str_v := Scalar KStr None [Strip] [] [].
  Definition E0 : env := mk_env [] [] [] [] [] [].
  (* def f(p0: int, /, p1: str, *p2: int, p3: int = .., **p4: str) *)
  Definition d0 := {| d_params := [ {| p_name := 0; p_kind := PosOnly; p_ann := Some int_v; p_ovr := None |};
                                    {| p_name := 1; p_kind := PosOrKw; p_ann := Some str_v; p_ovr := None |};
                                    {| p_name := 2; p_kind := VarPos; p_ann := Some int_v; p_ovr := None |};
                                    {| p_name := 3; p_kind := KwOnly; p_ann := None; p_ovr := Some int_v |};
                                    {| p_name := 4; p_kind := VarKw; p_ann := Some str_v; p_ovr := None |} ];
                   d_ignore := [9%nat]; d_ignore_return := false; d_ret_ann := Some int_v; d_ret_ovr := None |}.
  Definition r0 := run E0 Sync 5.
  Definition echo (a : list pyval) (k : list (nat * pyval)) : bres := BReturn (VInt (Z.of_nat (length a + length k))).

  Example C08_nonvacuous_runs :
    wrap r0 (mk_tables d0) echo [VInt 1; VStr [32; 97]; VInt 2] [(3%nat, VInt 3); (0%nat, VStr [98; 32]); (9%nat, VInt 0)]
    = WReturn (VInt 6)
    /\ deliver_pos r0 (mk_tables d0) 0 [VInt 1; VStr [32; 97]; VInt 2] = [VInt 1; VStr [97]; VInt 2]
    /\ map (dk r0 (mk_tables d0)) [(3%nat, VInt 3); (0%nat, VStr [98; 32]); (9%nat, VInt 0)]
       = [(3%nat, VInt 3); (0%nat, VStr [98]); (9%nat, VInt 0)].
  Proof. repeat split; vm_compute; reflexivity. Qed.


  Example C08_nonvacuous_keys :
    match wrap r0 (mk_tables d0) echo [VStr []; VStr []; VStr []; VInt 1; VNone] [(3%nat, VNone); (5%nat, VInt 7)] with
    | WArgsErr errs => map fst errs = [0; 2; 3; 5]%nat
    | _ => False
    end.
  Proof. vm_compute. reflexivity. Qed.
End Example.
