(* Eq: validator equality as the library's __eq__ methods define it.
   [mask k i] says whether the __eq__ of validator kind [k] compares constructor slot [i];
   the table is regenerated from the source on every run (KVGen.Facts_eq). *)
From Coq Require Import ZArith List Bool.
From KV Require Import Base.PyVal Base.Prims Model.Validator.
Import ListNotations.
Open Scope nat_scope.

Inductive vkind :=
| KScalar | KNone | KEquals | KAlways | KIsDict | KList | KSet | KUTuple | KNTuple | KMap
| KRecord | KDictAny | KData | KNamed | KTyped | KUnion | KOptional | KMaybe | KLazy | KKnr
| KCache | KUser.

Definition class_vkind (rk : record_kind) : vkind :=
  match rk with RkData => KData | RkNamed => KNamed | RkTyped => KTyped end.

Definition kind_of (v : validator) : vkind :=
  match v with
  | Scalar _ _ _ _ _ => KScalar | NoneV _ => KNone | EqualsV _ _ => KEquals
  | AlwaysValid => KAlways | IsDictV => KIsDict
  | ListV _ _ _ _ => KList | SetV _ _ _ _ => KSet | UTupleV _ _ _ _ => KUTuple
  | NTupleV _ _ _ => KNTuple | MapV _ _ _ _ _ => KMap
  | RecordV _ _ _ _ _ => KRecord | DictAnyV _ _ _ _ => KDictAny
  | ClassV rk _ _ _ _ _ _ => class_vkind rk
  | UnionV _ => KUnion | OptionalV _ _ => KOptional | MaybeV _ => KMaybe
  | LazyV _ _ => KLazy | KeyNotRequired _ => KKnr | CacheV _ => KCache | UserV _ _ => KUser
  end.

(* ---------- structural equality of the leaf configuration data ---------- *)

Definition predicate_eqb (a b : predicate) : bool :=
  match a, b with
  | PMin m1 e1, PMin m2 e2 | PMax m1 e1, PMax m2 e2 => pyval_eqb m1 m2 && Bool.eqb e1 e2
  | PMultipleOf f1, PMultipleOf f2 => pyval_eqb f1 f2
  | PChoices c1, PChoices c2 => list_eqb pyval_eqb c1 c2
  | PEqualTo m1, PEqualTo m2 => pyval_eqb m1 m2
  | PMinItems n1, PMinItems n2 | PMaxItems n1, PMaxItems n2 | PExactItemCount n1, PExactItemCount n2
  | PMinLength n1, PMinLength n2 | PMaxLength n1, PMaxLength n2 | PExactLength n1, PExactLength n2
  | PMinKeys n1, PMinKeys n2 | PMaxKeys n1, PMaxKeys n2 => Z.eqb n1 n2
  | PUniqueItems, PUniqueItems | PNotBlank, PNotBlank | PEmail, PEmail => true
  | PStartsWith s1, PStartsWith s2 | PEndsWith s1, PEndsWith s2 => pyval_eqb s1 s2
  | PRegex i1, PRegex i2 | PUser i1, PUser i2 => Nat.eqb i1 i2
  | _, _ => false
  end.

Definition apredicate_eqb (a b : apredicate) : bool :=
  match a, b with APred i, APred j => Nat.eqb i j end.

Definition processor_eqb (a b : processor) : bool :=
  match a, b with
  | Strip, Strip | Upper, Upper | Lower, Lower => true
  | ProcUser i, ProcUser j => Nat.eqb i j
  | _, _ => false
  end.

Definition coercer_eqb (a b : coercer) : bool :=
  match a, b with
  | CoDecimal, CoDecimal | CoUuid, CoUuid | CoDate, CoDate | CoDatetime, CoDatetime
  | CoTupleOrList, CoTupleOrList => true
  | CoDataclassNoCoerce c1, CoDataclassNoCoerce c2 | CoNamedTupleNoCoerce c1, CoNamedTupleNoCoerce c2
  | CoUser c1, CoUser c2 => Nat.eqb c1 c2
  | _, _ => false
  end.

Definition scalar_kind_eqb (a b : scalar_kind) : bool :=
  match a, b with
  | KStr, KStr | KInt, KInt | KFloat, KFloat | KBool, KBool | KBytes, KBytes | KDecimal, KDecimal
  | KUuid, KUuid | KDate, KDate | KDatetime, KDatetime => true
  | KType t1, KType t2 => pytype_eqb t1 t2
  | _, _ => false
  end.

Definition record_kind_eqb (a b : record_kind) : bool :=
  match a, b with RkData, RkData | RkNamed, RkNamed | RkTyped, RkTyped => true | _, _ => false end.

Definition onat_eqb := option_eqb Nat.eqb.
Definition ocoercer_eqb := option_eqb coercer_eqb.

Section Masked.
  (* mask k i = true: the __eq__ of kind k compares slot i *)
  Variable mask : vkind -> nat -> bool.

  Definition cmp (k : vkind) (i : nat) (b : bool) : bool := implb (mask k i) b.

  Fixpoint veqb (a b : validator) {struct a} : bool :=
    let fix vlist (xs ys : list validator) {struct xs} : bool :=
      match xs, ys with
      | [], [] => true
      | x :: xs', y :: ys' => veqb x y && vlist xs' ys'
      | _, _ => false
      end in
    let fix klist (xs ys : list (pyval * validator)) {struct xs} : bool :=
      match xs, ys with
      | [], [] => true
      | (k1, v1) :: xs', (k2, v2) :: ys' => pyval_eqb k1 k2 && veqb v1 v2 && klist xs' ys'
      | _, _ => false
      end in
    (* schema: keys + validators (slot 2) and requiredness flags (slot 7), masked separately *)
    let fix slist (k : vkind) (xs ys : list (pyval * (validator * bool))) {struct xs} : bool :=
      match xs, ys with
      | [], [] => true
      | (k1, (v1, r1)) :: xs', (k2, (v2, r2)) :: ys' =>
          cmp k 2 (pyval_eqb k1 k2 && veqb v1 v2) && cmp k 7 (Bool.eqb r1 r2) && slist k xs' ys'
      | _, _ => false
      end in
    match a, b with
    | Scalar k1 c1 pr1 ps1 ap1, Scalar k2 c2 pr2 ps2 ap2 =>
        cmp KScalar 0 (scalar_kind_eqb k1 k2) && cmp KScalar 1 (ocoercer_eqb c1 c2) &&
        cmp KScalar 2 (list_eqb processor_eqb pr1 pr2) && cmp KScalar 3 (list_eqb predicate_eqb ps1 ps2) &&
        cmp KScalar 4 (list_eqb apredicate_eqb ap1 ap2)
    | NoneV c1, NoneV c2 => cmp KNone 0 (ocoercer_eqb c1 c2)
    | EqualsV m1 p1, EqualsV m2 p2 =>
        cmp KEquals 0 (pyval_eqb m1 m2) && cmp KEquals 1 (list_eqb processor_eqb p1 p2)
    | AlwaysValid, AlwaysValid | IsDictV, IsDictV => true
    | ListV i1 ps1 ap1 c1, ListV i2 ps2 ap2 c2 =>
        cmp KList 0 (veqb i1 i2) && cmp KList 1 (list_eqb predicate_eqb ps1 ps2) &&
        cmp KList 2 (list_eqb apredicate_eqb ap1 ap2) && cmp KList 3 (ocoercer_eqb c1 c2)
    | SetV i1 ps1 ap1 c1, SetV i2 ps2 ap2 c2 =>
        cmp KSet 0 (veqb i1 i2) && cmp KSet 1 (list_eqb predicate_eqb ps1 ps2) &&
        cmp KSet 2 (list_eqb apredicate_eqb ap1 ap2) && cmp KSet 3 (ocoercer_eqb c1 c2)
    | UTupleV i1 ps1 ap1 c1, UTupleV i2 ps2 ap2 c2 =>
        cmp KUTuple 0 (veqb i1 i2) && cmp KUTuple 1 (list_eqb predicate_eqb ps1 ps2) &&
        cmp KUTuple 2 (list_eqb apredicate_eqb ap1 ap2) && cmp KUTuple 3 (ocoercer_eqb c1 c2)
    | NTupleV f1 o1 c1, NTupleV f2 o2 c2 =>
        cmp KNTuple 0 (vlist f1 f2) && cmp KNTuple 1 (onat_eqb o1 o2) && cmp KNTuple 2 (ocoercer_eqb c1 c2)
    | MapV k1 v1 ps1 ap1 c1, MapV k2 v2 ps2 ap2 c2 =>
        cmp KMap 0 (veqb k1 k2) && cmp KMap 1 (veqb v1 v2) && cmp KMap 2 (list_eqb predicate_eqb ps1 ps2) &&
        cmp KMap 3 (list_eqb apredicate_eqb ap1 ap2) && cmp KMap 4 (ocoercer_eqb c1 c2)
    | RecordV ks1 i1 o1 a1 s1, RecordV ks2 i2 o2 a2 s2 =>
        cmp KRecord 0 (klist ks1 ks2) && cmp KRecord 1 (Nat.eqb i1 i2) && cmp KRecord 2 (onat_eqb o1 o2) &&
        cmp KRecord 3 (onat_eqb a1 a2) && cmp KRecord 4 (Bool.eqb s1 s2)
    | DictAnyV ks1 o1 a1 s1, DictAnyV ks2 o2 a2 s2 =>
        cmp KDictAny 0 (klist ks1 ks2) && cmp KDictAny 1 (onat_eqb o1 o2) &&
        cmp KDictAny 2 (onat_eqb a1 a2) && cmp KDictAny 3 (Bool.eqb s1 s2)
    | ClassV rk1 c1 sc1 o1 a1 s1 co1, ClassV rk2 c2 sc2 o2 a2 s2 co2 =>
        record_kind_eqb rk1 rk2 &&
        let k := class_vkind rk1 in
        cmp k 1 (Nat.eqb c1 c2) && slist k sc1 sc2 && cmp k 3 (onat_eqb o1 o2) &&
        cmp k 4 (onat_eqb a1 a2) && cmp k 5 (Bool.eqb s1 s2) && cmp k 6 (ocoercer_eqb co1 co2)
    | UnionV v1, UnionV v2 => cmp KUnion 0 (vlist v1 v2)
    | OptionalV n1 i1, OptionalV n2 i2 => cmp KOptional 0 (veqb n1 n2) && cmp KOptional 1 (veqb i1 i2)
    | MaybeV i1, MaybeV i2 => cmp KMaybe 0 (veqb i1 i2)
    | LazyV r1 b1, LazyV r2 b2 => cmp KLazy 0 (Nat.eqb r1 r2) && cmp KLazy 1 (Bool.eqb b1 b2)
    | KeyNotRequired i1, KeyNotRequired i2 => cmp KKnr 0 (veqb i1 i2)
    | CacheV i1, CacheV i2 => cmp KCache 0 (veqb i1 i2)
    | UserV i1 f1, UserV i2 f2 => Nat.eqb i1 i2 && Bool.eqb f1 f2
    | _, _ => false
    end.
End Masked.

(* the slots on which behaviour depends (the class id of a TypedDict validator is not one:
   its payload is a plain dict) *)
Definition behavioural (k : vkind) (i : nat) : bool :=
  match k, i with
  | KScalar, (0 | 1 | 2 | 3 | 4) => true
  | KNone, 0 => true
  | KEquals, (0 | 1) => true
  | (KList | KSet | KUTuple), (0 | 1 | 2 | 3) => true
  | KNTuple, (0 | 1 | 2) => true
  | KMap, (0 | 1 | 2 | 3 | 4) => true
  | KRecord, (0 | 1 | 2 | 3 | 4) => true
  | KDictAny, (0 | 1 | 2 | 3) => true
  | (KData | KNamed), (1 | 2 | 3 | 4 | 5 | 6 | 7) => true
  | KTyped, (2 | 3 | 4 | 5 | 6 | 7) => true
  | KUnion, 0 => true
  | KOptional, (0 | 1) => true
  | (KMaybe | KKnr | KCache), 0 => true
  | KLazy, (0 | 1) => true
  | _, _ => false
  end.

Definition all_kinds : list vkind :=
  [KScalar; KNone; KEquals; KAlways; KIsDict; KList; KSet; KUTuple; KNTuple; KMap; KRecord; KDictAny;
   KData; KNamed; KTyped; KUnion; KOptional; KMaybe; KLazy; KKnr; KCache; KUser].

(* decidable: every behavioural slot is compared *)
Definition mask_full_b (mask : vkind -> nat -> bool) : bool :=
  forallb (fun k => forallb (fun i => implb (behavioural k i) (mask k i)) (seq 0 8)) all_kinds.
