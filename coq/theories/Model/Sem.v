(* Sem: executable semantics of validation, one definition per Python method
   body, in the same order of gates and stages as the code.  [mode]
   distinguishes the synchronous entry point from the awaited asynchronous one.
   Recursion is open ([rec]) and tied by fuel in [run]. *)
From Coq Require Import ZArith List Bool.
From KV Require Import Base.PyVal Base.Prims Model.Validator.
Import ListNotations.
Open Scope Z_scope.

Definition runner := validator -> pyval -> outcome.

Section Sem.
  Variable E : env.

  (* ---------- predicates ---------- *)

  Definition bounds (strict : bool) (lo hi : pyval) : pres bool := py_le_gen strict lo hi.

  Definition pred_eval (p : predicate) (x : pyval) : pres bool :=
    match p with
    | PMin m excl => py_le_gen excl m x                 (* val >= m  /  val > m *)
    | PMax m excl => py_le_gen excl x m                 (* val <= m  /  val < m *)
    | PMultipleOf f => py_mod_is_zero x f
    | PChoices cs =>
        (* [val in a_set]: an unhashable *set* argument is looked up as a frozenset, no TypeError *)
        match unsub x with
        | VSet _ => Ok (py_in x cs)
        | _ => if hashable (chashable E) x then Ok (py_in x cs) else Exn ExType
        end
    | PEqualTo m => py_eq_p x m
    | PMinItems n => pbind (py_len x) (fun l => Ok (n <=? l))
    | PMaxItems n => pbind (py_len x) (fun l => Ok (l <=? n))
    | PExactItemCount n => pbind (py_len x) (fun l => Ok (l =? n))
    | PUniqueItems => pbind (py_iter x) (fun xs => Ok (unique_typed [] xs))
    | PMinLength n => pbind (py_len x) (fun l => Ok (n <=? l))
    | PMaxLength n => pbind (py_len x) (fun l => Ok (l <=? n))
    | PExactLength n => pbind (py_len x) (fun l => Ok (l =? n))
    | PStartsWith s => py_affix false x s
    | PEndsWith s => py_affix true x s
    | PNotBlank => pbind (py_strip x) (fun y => pbind (py_len y) (fun l => Ok (negb (l =? 0))))
    | PRegex id => match unsub x with VStr s => Ok (re_match E id s) | _ => Exn ExType end
    | PEmail => match unsub x with VStr s => Ok (email_match E s) | _ => Exn ExType end
    | PMinKeys n => pbind (py_len x) (fun l => Ok (n <=? l))
    | PMaxKeys n => pbind (py_len x) (fun l => Ok (l <=? n))
    | PUser id => Ok (upred E id x)
    end.

  Definition apred_eval (a : apredicate) (x : pyval) : bool :=
    match a with APred id => uapred E id x end.

  (* [pred for pred in predicates if not pred(val)] *)
  Fixpoint failing_preds (ps : list predicate) (x : pyval) : pres (list predref) :=
    match ps with
    | [] => Ok []
    | p :: ps' =>
        pbind (pred_eval p x) (fun b =>
        pbind (failing_preds ps' x) (fun rest =>
        Ok (if b then rest else PRSync p :: rest)))
    end.

  Definition failing_apreds (aps : list apredicate) (x : pyval) : list predref :=
    map PRAsync (filter (fun a => negb (apred_eval a x)) aps).

  (* sync predicates, then (async mode only) async predicates *)
  Definition all_failing (m : mode) (ps : list predicate) (aps : list apredicate) (x : pyval)
    : pres (list predref) :=
    pbind (failing_preds ps x) (fun fs =>
    Ok (match m with Sync => fs | Async => fs ++ failing_apreds aps x end)).

  (* ---------- processors ---------- *)

  Definition proc_apply (p : processor) (x : pyval) : pres pyval :=
    match p with
    | Strip => py_strip x
    | Upper => py_case (case_map E) true x
    | Lower => py_case (case_map E) false x
    | ProcUser id => Ok (uproc E id x)
    end.

  Fixpoint procs_apply (ps : list processor) (x : pyval) : pres pyval :=
    match ps with
    | [] => Ok x
    | p :: ps' => pbind (proc_apply p x) (procs_apply ps')
    end.

  (* ---------- coercers ---------- *)

  Definition obj_to_dict (fs : list (pyval * pyval)) : pyval := VDict fs.

  Definition coerce_apply (co : coercer) (x : pyval) : option pyval :=
    match co with
    | CoDecimal =>
        if exact_type x TDecimal then Some x
        else if isinstance (ckind E) x TStr || isinstance (ckind E) x TInt
             then oracle E OkDecimal x else None
    | CoUuid =>
        if exact_type x TUuid then Some x
        else if exact_type x TStr then oracle E OkUuid x else None
    | CoDate =>
        if exact_type x TDate then Some x
        else if isinstance (ckind E) x TStr then oracle E OkDate x else None
    | CoDatetime =>
        if exact_type x TDatetime then Some x
        else if isinstance (ckind E) x TStr then oracle E OkDatetime x else None
    | CoTupleOrList =>
        match x with
        | VTuple _ => Some x
        | VList xs => Some (VTuple xs)
        | _ => None
        end
    | CoDataclassNoCoerce c | CoNamedTupleNoCoerce c =>
        match x with
        | VObj c' fs => if Nat.eqb c c' then Some (obj_to_dict fs) else None
        | _ => None
        end
    | CoUser id => ucoerce E id x
    end.

  Definition coerce_compat (co : coercer) : list pytype :=
    match co with
    | CoDecimal => [TInt; TStr; TDecimal]
    | CoUuid => [TStr; TUuid]
    | CoDate => [TStr; TDate]
    | CoDatetime => [TStr; TDatetime]
    | CoTupleOrList => [TList; TTuple]
    | CoDataclassNoCoerce c | CoNamedTupleNoCoerce c => [TClass c]
    | CoUser id => ucompat E id
    end.

  (* the coerce-or-exact-type gate shared by every validator:
     [inl err] = rejected with that error (holding the original value),
     [inr y]   = value in hand for the later stages *)
  Definition gate (co : option coercer) (exact : pytype) (dest : pytype) (x : pyval)
    : errtype + pyval :=
    match co with
    | Some c =>
        match coerce_apply c x with
        | Some y => inr y
        | None => inl (CoercionErr (coerce_compat c) dest)
        end
    | None => if exact_type x exact then inr x else inl (TypeErr exact)
    end.

  (* ---------- scalars ---------- *)

  Definition ktype (k : scalar_kind) : pytype :=
    match k with
    | KStr => TStr | KInt => TInt | KFloat => TFloat | KBool => TBool | KBytes => TBytes
    | KDecimal => TDecimal | KUuid => TUuid | KDate => TDate | KDatetime => TDatetime
    | KType t => t
    end.

  Definition nonempty {A} (l : list A) : bool := match l with [] => false | _ => true end.

  (* _ToTupleStandardValidator._validate_to_tuple / _validate_to_tuple_async *)
  Definition scalar_body (self : validator) (k : scalar_kind) (co : option coercer)
             (pre : list processor) (ps : list predicate) (aps : list apredicate)
             (m : mode) (x : pyval) : outcome :=
    if mode_eqb m Sync && nonempty aps then OAssert else
    match gate co (ktype k) (ktype k) x with
    | inl e => OInvalid (Invalid e x self)
    | inr y =>
        match procs_apply pre y with
        | Exn e => ORaise e
        | Ok y' =>
            match all_failing m ps aps y' with
            | Exn e => ORaise e
            | Ok [] => OValid y'
            | Ok fs => OInvalid (Invalid (PredicateErrs fs) y' self)
            end
        end
    end.

  (* NoneValidator *)
  Definition none_body (self : validator) (co : option coercer) (x : pyval) : outcome :=
    match co with
    | Some c =>
        match coerce_apply c x with
        | Some _ => OValid VNone
        | None => OInvalid (Invalid (CoercionErr (coerce_compat c) TNone) x self)
        end
    | None =>
        match x with
        | VNone => OValid VNone
        | _ => OInvalid (Invalid (TypeErr TNone) x self)
        end
    end.

  (* EqualsValidator (async delegates to sync) *)
  Definition equals_body (self : validator) (mt : pyval) (pre : list processor) (x : pyval)
    : outcome :=
    if exact_type x (type_of mt) then
      match procs_apply pre x with
      | Exn e => ORaise e
      | Ok y =>
          match py_eq_p y mt with
          | Exn e => ORaise e
          | Ok true => OValid y
          | Ok false => OInvalid (Invalid (PredicateErrs [PRSync (PEqualTo mt)]) y self)
          end
      end
    else OInvalid (Invalid (TypeErr (type_of mt)) x self).

  (* ---------- child calls ----------
     Every container body is: compute the list of child calls, run them in
     order ([run_calls]), then post-process the list of outcomes in order.
     An abnormal child outcome (assertion, exception, out of fuel) ends the
     list, exactly as a Python exception ends the loop. *)

  Definition call := (validator * pyval)%type.

  Definition normal (o : outcome) : bool :=
    match o with OValid _ | OInvalid _ => true | _ => false end.

  Fixpoint run_calls (stop_valid : bool) (rec : runner) (cs : list call) : list outcome :=
    match cs with
    | [] => []
    | (v, x) :: rest =>
        match rec v x with
        | OValid w => if stop_valid then [OValid w] else OValid w :: run_calls stop_valid rec rest
        | OInvalid i => OInvalid i :: run_calls stop_valid rec rest
        | o => [o]
        end
    end.

  (* list / uniform tuple / n-tuple: payloads in order, errors keyed by index *)
  Fixpoint collect_items (i : nat) (outs : list outcome)
    : outcome + (list pyval * list (nat * invalid)) :=
    match outs with
    | [] => inr ([], [])
    | OValid w :: r =>
        match collect_items (S i) r with
        | inl o => inl o
        | inr (ws, errs) => inr (w :: ws, errs)
        end
    | OInvalid inv :: r =>
        match collect_items (S i) r with
        | inl o => inl o
        | inr (ws, errs) => inr (ws, (i, inv) :: errs)
        end
    | o :: _ => inl o
    end.

  (* set: payload built with set.add while no error has been seen *)
  Fixpoint collect_set (outs : list outcome) (acc : list pyval) (errs : list invalid)
    : outcome + (list pyval * list invalid) :=
    match outs with
    | [] => inr (acc, errs)
    | OValid w :: r =>
        match errs with
        | [] =>
            if hashable (chashable E) w then collect_set r (set_add acc w) errs
            else inl (ORaise ExType)
        | _ => collect_set r acc errs
        end
    | OInvalid inv :: r => collect_set r acc (errs ++ [inv])
    | o :: _ => inl o
    end.

  (* map: outcomes come as key, value, key, value, ...; errors keyed by the original key *)
  Fixpoint collect_map (keys : list pyval) (outs : list outcome)
           (acc : list (pyval * pyval))
           (errs : list (pyval * (option invalid * option invalid)))
    : outcome + (list (pyval * pyval) * list (pyval * (option invalid * option invalid))) :=
    match keys, outs with
    | k :: keys', ko :: vo :: r =>
        match ko with
        | OValid _ | OInvalid _ =>
            match vo with
            | OValid _ | OInvalid _ =>
                match ko, vo with
                | OValid kw, OValid vw =>
                    if hashable (chashable E) kw
                    then collect_map keys' r (dict_set acc kw vw) errs
                    else inl (ORaise ExType)
                | _, _ =>
                    let ke := match ko with OInvalid i => Some i | _ => None end in
                    let ve := match vo with OInvalid i => Some i | _ => None end in
                    collect_map keys' r acc (errs ++ [(k, (ke, ve))])
                end
            | o => inl o
            end
        | o => inl o
        end
    | [], [] => inr (acc, errs)
    | _ :: _, [o] => if normal o then inl (ORaise ExOther) else inl o
    | _, _ => inl (ORaise ExOther)      (* unreachable: two outcomes per pair *)
    end.

  (* ---------- collection bodies ---------- *)

  Definition pred_stage (self : validator) (m : mode) (ps : list predicate)
             (aps : list apredicate) (y : pyval) : option outcome :=
    match all_failing m ps aps y with
    | Exn e => Some (ORaise e)
    | Ok [] => None
    | Ok fs => Some (OInvalid (Invalid (PredicateErrs fs) y self))
    end.

  (* ListValidator / UniformTupleValidator *)
  Definition seq_body (exact dest : pytype) (wrap : list pyval -> pyval)
             (rec : runner) (self item : validator) (ps : list predicate)
             (aps : list apredicate) (co : option coercer) (m : mode) (x : pyval) : outcome :=
    if mode_eqb m Sync && nonempty aps then OAssert else
    match gate co exact dest x with
    | inl e => OInvalid (Invalid e x self)
    | inr y =>
        match pred_stage self m ps aps y with
        | Some o => o
        | None =>
            match py_iter y with
            | Exn e => ORaise e
            | Ok xs =>
                match collect_items 0 (run_calls false rec (map (fun xi => (item, xi)) xs)) with
                | inl o => o
                | inr (ws, []) => OValid (wrap ws)
                | inr (_, errs) => OInvalid (Invalid (IndexErrs errs) y self)
                end
            end
        end
    end.

  Definition list_body := seq_body TList TList VList.
  Definition utuple_body := seq_body TTuple TList VTuple.   (* the code reports dest type [list] *)

  Definition set_body (rec : runner) (self item : validator) (ps : list predicate)
             (aps : list apredicate) (co : option coercer) (m : mode) (x : pyval) : outcome :=
    if mode_eqb m Sync && nonempty aps then OAssert else
    match gate co TSet TSet x with
    | inl e => OInvalid (Invalid e x self)
    | inr y =>
        match pred_stage self m ps aps y with
        | Some o => o
        | None =>
            match py_iter y with
            | Exn e => ORaise e
            | Ok xs =>
                match collect_set (run_calls false rec (map (fun xi => (item, xi)) xs)) [] [] with
                | inl o => o
                | inr (ws, []) => OValid (VSet ws)
                | inr (_, errs) => OInvalid (Invalid (SetErrs errs) y self)
                end
            end
        end
    end.

  Definition obj_stage (self : validator) (m : mode) (vobj avobj : option nat) (obj : pyval)
    : outcome :=
    match match vobj with Some id => uobj E id obj | None => None end with
    | Some e => OInvalid (Invalid e obj self)
    | None =>
        match m, avobj with
        | Async, Some id =>
            match uaobj E id obj with
            | Some e => OInvalid (Invalid e obj self)
            | None => OValid obj
            end
        | _, _ => OValid obj
        end
    end.

  Definition ntuple_body (rec : runner) (self : validator) (fields : list validator)
             (vobj : option nat) (co : option coercer) (m : mode) (x : pyval) : outcome :=
    match gate co TTuple TList x with
    | inl e => OInvalid (Invalid e x self)
    | inr y =>
        let lenp := PExactItemCount (zlen fields) in
        match pred_eval lenp y with
        | Exn e => ORaise e
        | Ok false => OInvalid (Invalid (PredicateErrs [PRSync lenp]) y self)
        | Ok true =>
            match py_iter y with
            | Exn e => ORaise e
            | Ok xs =>
                match collect_items 0 (run_calls false rec (combine fields xs)) with
                | inl o => o
                | inr (ws, []) => obj_stage self m vobj None (VTuple ws)
                | inr (_, errs) => OInvalid (Invalid (IndexErrs errs) y self)
                end
            end
        end
    end.

  Definition as_dict (y : pyval) : option (list (pyval * pyval)) :=
    match unsub y with VDict kvs => Some kvs | _ => None end.

  Definition map_calls (kv vv : validator) (kvs : list (pyval * pyval)) : list call :=
    flat_map (fun p => [(kv, fst p); (vv, snd p)]) kvs.

  Definition map_body (rec : runner) (self kv vv : validator) (ps : list predicate)
             (aps : list apredicate) (co : option coercer) (m : mode) (x : pyval) : outcome :=
    if mode_eqb m Sync && nonempty aps then OAssert else
    match gate co TDict TDict x with
    | inl e => OInvalid (Invalid e x self)
    | inr y =>
        match pred_stage self m ps aps y with
        | Some o => o
        | None =>
            match as_dict y with
            | None => ORaise ExAttribute
            | Some kvs =>
                match collect_map (map fst kvs) (run_calls false rec (map_calls kv vv kvs)) [] [] with
                | inl o => o
                | inr (d, []) => OValid (VDict d)
                | inr (_, errs) => OInvalid (Invalid (MapErr errs) y self)
                end
            end
        end
    end.

  (* ---------- records ---------- *)

  (* [for key_ in data: if key_ not in declared] *)
  Definition has_unknown_key (declared : list pyval) (data : list (pyval * pyval)) : bool :=
    existsb (fun kv => negb (py_in (fst kv) declared)) data.

  (* how an absent optional key contributes to the payload *)
  Inductive absent_policy := AbsNothing | AbsOmit.

  (* the calls of the per-declared-key loop: one per present declared key.
     [keys]: (key, (validator actually called, required)) *)
  Definition key_calls (keys : list (pyval * (validator * bool))) (data : list (pyval * pyval))
    : list call :=
    flat_map (fun k => match dict_get data (fst k) with
                       | Some xv => [(fst (snd k), xv)]
                       | None => []
                       end) keys.

  (* walk the declared keys, consuming one outcome per present key *)
  Fixpoint collect_keys (self : validator) (pol : absent_policy)
           (keys : list (pyval * (validator * bool))) (data : list (pyval * pyval))
           (orig : pyval) (outs : list outcome)
    : outcome + (list (pyval * pyval) * list (pyval * invalid)) :=
    match keys with
    | [] => match outs with [] => inr ([], []) | _ => inl (ORaise ExOther) end
    | (k, (_, required)) :: keys' =>
        match dict_get data k with
        | None =>
            match collect_keys self pol keys' data orig outs with
            | inl o => inl o
            | inr (ws, errs) =>
                if required then inr (ws, (k, Invalid MissingKeyErr orig self) :: errs)
                else match pol with
                     | AbsNothing => inr ((k, VNothing) :: ws, errs)
                     | AbsOmit => inr (ws, errs)
                     end
            end
        | Some _ =>
            match outs with
            | OValid w :: r =>
                match collect_keys self pol keys' data orig r with
                | inl o => inl o
                | inr (ws, errs) => inr ((k, w) :: ws, errs)
                end
            | OInvalid inv :: r =>
                match collect_keys self pol keys' data orig r with
                | inl o => inl o
                | inr (ws, errs) => inr (ws, (k, inv) :: errs)
                end
            | o :: _ => inl o
            | [] => inl (ORaise ExOther)       (* unreachable: one outcome per present key *)
            end
        end
    end.

  Definition keys_loop (rec : runner) (self : validator) (pol : absent_policy)
             (keys : list (pyval * (validator * bool))) (data : list (pyval * pyval))
             (orig : pyval) :=
    collect_keys self pol keys data orig (run_calls false rec (key_calls keys data)).

  Definition is_required_marker (v : validator) : bool :=
    match v with KeyNotRequired _ => false | _ => true end.

  Definition has_some {A} (o : option A) : bool := match o with Some _ => true | None => false end.

  Definition record_keys (keys : list (pyval * validator)) :=
    map (fun kv => (fst kv, (snd kv, is_required_marker (snd kv)))) keys.

  (* RecordValidator *)
  Definition record_body (rec : runner) (self : validator) (keys : list (pyval * validator))
             (into : nat) (vobj avobj : option nat) (strict : bool) (m : mode) (x : pyval)
    : outcome :=
    if mode_eqb m Sync && has_some avobj then OAssert else
    if negb (isinstance (ckind E) x TDict) then OInvalid (Invalid (TypeErr TDict) x self) else
    match as_dict x with
    | None => OInvalid (Invalid (TypeErr TDict) x self)   (* not a mapping at all *)
    | Some data =>
        if strict && has_unknown_key (map fst keys) data
        then OInvalid (Invalid (ExtraKeysErr (map fst keys)) x self)
        else
          match keys_loop rec self AbsNothing (record_keys keys) data x with
          | inl o => o
          | inr (ws, []) => obj_stage self m vobj avobj (uinto E into (map snd ws))
          | inr (_, errs) => OInvalid (Invalid (KeyErrs errs) x self)
          end
    end.

  Definition unwrap_knr (v : validator) : validator :=
    match v with KeyNotRequired inner => inner | _ => v end.

  Definition dictany_keys (schema : list (pyval * validator)) :=
    map (fun kv => (fst kv, (unwrap_knr (snd kv), is_required_marker (snd kv)))) schema.

  (* DictValidatorAny *)
  Definition dictany_body (rec : runner) (self : validator) (schema : list (pyval * validator))
             (vobj avobj : option nat) (strict : bool) (m : mode) (x : pyval) : outcome :=
    if mode_eqb m Sync && has_some avobj then OAssert else
    match x with
    | VDict data =>
        if strict && has_unknown_key (map fst schema) data
        then OInvalid (Invalid (ExtraKeysErr (map fst schema)) x self)
        else
          match keys_loop rec self AbsOmit (dictany_keys schema) data x with
          | inl o => o
          | inr (ws, []) => obj_stage self m vobj avobj (VDict ws)
          | inr (_, errs) => OInvalid (Invalid (KeyErrs errs) x self)
          end
    | _ => OInvalid (Invalid (TypeErr TDict) x self)
    end.

  (* cls(kwargs): declared fields in order, defaults for absent ones *)
  Definition construct (c : classid) (kws : list (pyval * pyval)) : pyval :=
    VObj c (map (fun fd =>
                   (fst fd,
                    match dict_get kws (fst fd) with
                    | Some v => v
                    | None => match snd fd with Some d => d | None => VNone end
                    end))
                (cfields E c)).

  (* the input stage of Dataclass/NamedTuple/TypedDict validators *)
  Definition class_gate (rk : record_kind) (c : classid) (co : option coercer) (x : pyval)
    : errtype + pyval :=
    match co with
    | Some cc =>
        match coerce_apply cc x with
        | Some y => inr y
        | None => inl (CoercionErr (coerce_compat cc) TDict)
        end
    | None =>
        match x with
        | VDict _ => inr x
        | VObj c' fs =>
            match rk with
            | RkTyped => inl (TypeErr TDict)
            | _ => if Nat.eqb c c' then inr (VDict fs)
                   else inl (CoercionErr [TDict; TClass c] (TClass c))
            end
        | _ =>
            match rk with
            | RkTyped => inl (TypeErr TDict)
            | _ => inl (CoercionErr [TDict; TClass c] (TClass c))
            end
        end
    end.

  Definition class_body (rec : runner) (self : validator) (rk : record_kind) (c : classid)
             (schema : list (pyval * (validator * bool))) (vobj avobj : option nat)
             (strict : bool) (co : option coercer) (m : mode) (x : pyval) : outcome :=
    if mode_eqb m Sync && has_some avobj then OAssert else
    match class_gate rk c co x with
    | inl e => OInvalid (Invalid e x self)
    | inr y =>
        match as_dict y with
        | None => ORaise ExType
        | Some data =>
            if strict && has_unknown_key (map fst schema) data
            then OInvalid (Invalid (ExtraKeysErr (map fst schema)) y self)
            else
              match keys_loop rec self AbsOmit schema data y with
              | inl o => o
              | inr (ws, []) =>
                  obj_stage self m vobj avobj
                            (match rk with RkTyped => VDict ws | _ => construct c ws end)
              | inr (_, errs) => OInvalid (Invalid (KeyErrs errs) y self)
              end
        end
    end.

  (* ---------- unions and wrappers ---------- *)

  (* _union_validator: first accepting variant wins; later ones are not consulted *)
  Fixpoint collect_union (outs : list outcome) : outcome + list invalid :=
    match outs with
    | [] => inr []
    | [OValid w] => inl (OValid w)
    | OValid _ :: _ => inl (ORaise ExOther)      (* unreachable: the list ends at the first Valid *)
    | OInvalid inv :: r =>
        match collect_union r with
        | inl o => inl o
        | inr errs => inr (inv :: errs)
        end
    | o :: _ => inl o
    end.

  Definition union_body (rec : runner) (self : validator) (vs : list validator) (x : pyval)
    : outcome :=
    match collect_union (run_calls true rec (map (fun v => (v, x)) vs)) with
    | inl o => o
    | inr errs => OInvalid (Invalid (UnionErrs errs) x self)
    end.

  Definition maybe_body (rec : runner) (self inner : validator) (x : pyval) : outcome :=
    match x with
    | VNothing => OValid VNothing
    | VJust y =>
        match rec inner y with
        | OValid w => OValid (VJust w)
        | OInvalid inv => OInvalid (Invalid (ContainerErr inv) x self)
        | o => o
        end
    | _ => OInvalid (Invalid (TypeErr TMaybe) x self)
    end.

  Definition knr_body (rec : runner) (inner : validator) (x : pyval) : outcome :=
    match rec inner x with
    | OValid w => OValid (VJust w)
    | o => o
    end.

  (* ---------- one step: dispatch on the validator class ---------- *)

  Definition step (m : mode) (rec : runner) : runner :=
    fun v x =>
      match v with
      | Scalar k co pre ps aps => scalar_body v k co pre ps aps m x
      | NoneV co => none_body v co x
      | EqualsV mt pre => equals_body v mt pre x
      | AlwaysValid => OValid x
      | IsDictV =>
          if isinstance (ckind E) x TDict then OValid x
          else OInvalid (Invalid (TypeErr TDict) x v)
      | ListV item ps aps co => list_body rec v item ps aps co m x
      | SetV item ps aps co => set_body rec v item ps aps co m x
      | UTupleV item ps aps co => utuple_body rec v item ps aps co m x
      | NTupleV fields vobj co => ntuple_body rec v fields vobj co m x
      | MapV kv vv ps aps co => map_body rec v kv vv ps aps co m x
      | RecordV keys into vobj avobj strict => record_body rec v keys into vobj avobj strict m x
      | DictAnyV schema vobj avobj strict => dictany_body rec v schema vobj avobj strict m x
      | ClassV rk c schema vobj avobj strict co =>
          class_body rec v rk c schema vobj avobj strict co m x
      | UnionV vs => union_body rec v vs x
      | OptionalV nonev inner => union_body rec v [nonev; inner] x
      | MaybeV inner => maybe_body rec v inner x
      | LazyV r _ => rec (lazy_env E r) x
      | KeyNotRequired inner => knr_body rec inner x
      | CacheV inner => rec inner x            (* faithful store: see Model/Cache.v, C20 *)
      | UserV id flav => uvalid E id flav m x
      end.

  Definition no_fuel : runner := fun _ _ => ONoFuel.

  Fixpoint run (m : mode) (fuel : nat) : runner :=
    match fuel with
    | O => no_fuel
    | S n => step m (run m n)
    end.
End Sem.
