(* Text: concrete models of the canonical text forms that C16's round-trip clause is about, for the
   two target types whose text form is plain positional notation:
     - str(uuid.UUID)        = '%032x' % int, cut 8-4-4-4-12 with dashes          ([uuid_str])
     - uuid.UUID(hex)        = strip('{}'), drop dashes, 32 hex digits, base 16    ([uuid_parse])
     - decimal.Decimal(int)  = sign, coefficient |z|, exponent 0                   ([dec_of_int])
   [uuid_parse] is the constructor restricted to what it reads without help from int()'s own
   leniencies (sign, 0x, underscores, blanks, non-ASCII digits) and without the urn: / uuid: prefixes:
   whenever it answers, the constructor answers the same; on strings made of hex digits, dashes and
   braces only it is the constructor exactly.  Both directions are compared with CPython on every run
   of the C16 check. *)
From Coq Require Import ZArith List Bool.
From KV Require Import Base.PyVal Base.Prims.
Import ListNotations.
Open Scope Z_scope.

Definition hexdigit (d : Z) : Z := if d <? 10 then 48 + d else 87 + d.      (* '0'..'9', 'a'..'f' *)

Definition hexval (c : Z) : option Z :=
  if (48 <=? c) && (c <=? 57) then Some (c - 48)
  else if (97 <=? c) && (c <=? 102) then Some (c - 87)
  else if (65 <=? c) && (c <=? 70) then Some (c - 55)
  else None.

(* '%0<w>x' % n for 0 <= n < 16^w *)
Fixpoint to_hex (w : nat) (n : Z) : list Z :=
  match w with
  | O => []
  | S w' => to_hex w' (n / 16) ++ [hexdigit (n mod 16)]
  end.

Fixpoint of_hex (acc : Z) (s : list Z) : option Z :=
  match s with
  | [] => Some acc
  | c :: s' => match hexval c with Some d => of_hex (16 * acc + d) s' | None => None end
  end.

Definition dash : Z := 45.
Definition is_brace (c : Z) : bool := (c =? 123) || (c =? 125).
Definition not_dash (c : Z) : bool := negb (c =? dash).

Definition dashed (h : list Z) : list Z :=
  firstn 8 h ++ dash :: firstn 4 (skipn 8 h) ++ dash :: firstn 4 (skipn 12 h) ++ dash
    :: firstn 4 (skipn 16 h) ++ dash :: skipn 20 h.

Definition uuid_str (n : Z) : list Z := dashed (to_hex 32 n).

Definition uuid_parse (s : list Z) : option Z :=
  let h := filter not_dash (strip_with is_brace s) in
  if Nat.eqb (length h) 32 then of_hex 0 h else None.

Definition uuid_simple (s : list Z) : bool :=
  forallb (fun c => match hexval c with Some _ => true | None => (c =? dash) || is_brace c end) s.

Definition dec_of_int (z : Z) : pyval := VDecimal (DFin (z <? 0) (Z.abs z) 0).

(* the comparison the correspondence check evaluates: [py] is what uuid.UUID(s).int gave (None: ValueError).
   Whenever the model answers, CPython answers the same; on the simple alphabet the model is the constructor. *)
Definition uuid_agree (s : list Z) (py : option Z) : bool :=
  match uuid_parse s, py with
  | Some n, Some n' => n =? n'
  | Some _, None => false
  | None, Some _ => negb (uuid_simple s)
  | None, None => true
  end.
