(* Text: concrete models of the canonical text forms that C16's round-trip clause is about, for the
   two target types whose text form is plain positional notation:
     - str(uuid.UUID)        = '%032x' % int, cut 8-4-4-4-12 with dashes          ([uuid_str])
     - uuid.UUID(hex)        = strip('{}'), drop dashes, 32 hex digits, base 16    ([uuid_parse])
     - decimal.Decimal(int)  = sign, coefficient |z|, exponent 0                   ([dec_of_int])
   [uuid_parse] is the constructor restricted to what it reads without help from int()'s own
   leniencies (sign, 0x, underscores, blanks, non-ASCII digits) and without the urn: / uuid: prefixes:
   whenever it answers, the constructor answers the same; on strings made of hex digits, dashes and
   braces only it is the constructor exactly.  Both directions are compared with CPython on every run
   of the C16 check. *)
From Coq Require Import ZArith List Bool.
From KV Require Import Base.PyVal Base.Prims.
Import ListNotations.
Open Scope Z_scope.

Definition hexdigit (d : Z) : Z := if d <? 10 then 48 + d else 87 + d.      (* '0'..'9', 'a'..'f' *)

Definition hexval (c : Z) : option Z :=
  if (48 <=? c) && (c <=? 57) then Some (c - 48)
  else if (97 <=? c) && (c <=? 102) then Some (c - 87)
  else if (65 <=? c) && (c <=? 70) then Some (c - 55)
  else None.

(* '%0<w>x' % n for 0 <= n < 16^w *)
Fixpoint to_hex (w : nat) (n : Z) : list Z :=
  match w with
  | O => []
  | S w' => to_hex w' (n / 16) ++ [hexdigit (n mod 16)]
  end.

Fixpoint of_hex (acc : Z) (s : list Z) : option Z :=
  match s with
  | [] => Some acc
  | c :: s' => match hexval c with Some d => of_hex (16 * acc + d) s' | None => None end
  end.

Definition dash : Z := 45.
Definition is_brace (c : Z) : bool := (c =? 123) || (c =? 125).
Definition not_dash (c : Z) : bool := negb (c =? dash).

Definition dashed (h : list Z) : list Z :=
  firstn 8 h ++ dash :: firstn 4 (skipn 8 h) ++ dash :: firstn 4 (skipn 12 h) ++ dash
    :: firstn 4 (skipn 16 h) ++ dash :: skipn 20 h.

Definition uuid_str (n : Z) : list Z := dashed (to_hex 32 n).

Definition uuid_parse (s : list Z) : option Z :=
  let h := filter not_dash (strip_with is_brace s) in
  if Nat.eqb (length h) 32 then of_hex 0 h else None.

Definition uuid_simple (s : list Z) : bool :=
  forallb (fun c => match hexval c with Some _ => true | None => (c =? dash) || is_brace c end) s.

Definition dec_of_int (z : Z) : pyval := VDecimal (DFin (z <? 0) (Z.abs z) 0).

(* the comparison the correspondence check evaluates: [py] is what uuid.UUID(s).int gave (None: ValueError).
   Whenever the model answers, CPython answers the same; on the simple alphabet the model is the constructor. *)
Definition uuid_agree (s : list Z) (py : option Z) : bool :=
  match uuid_parse s, py with
  | Some n, Some n' => n =? n'
  | Some _, None => false
  | None, Some _ => negb (uuid_simple s)
  | None, None => true
  end.

(* ================= dates: the extended calendar form YYYY-MM-DD ================= *)
(* ---------- decimal digits of fixed width: '%0<w>d' % n ---------- *)
Definition decdigit (d : Z) : Z := 48 + d.
Definition decval (c : Z) : option Z := if (48 <=? c) && (c <=? 57) then Some (c - 48) else None.

Fixpoint to_dec (w : nat) (n : Z) : list Z :=
  match w with
  | O => []
  | S w' => to_dec w' (n / 10) ++ [decdigit (n mod 10)]
  end.

Fixpoint of_dec (acc : Z) (s : list Z) : option Z :=
  match s with
  | [] => Some acc
  | c :: s' => match decval c with Some d => of_dec (10 * acc + d) s' | None => None end
  end.

(* ---------- the proleptic Gregorian calendar as datetime.date has it ---------- *)
Definition is_leap (y : Z) : bool := (y mod 4 =? 0) && (negb (y mod 100 =? 0) || (y mod 400 =? 0)).

Definition days_in_month (y m : Z) : Z :=
  if m =? 2 then (if is_leap y then 29 else 28)
  else if (m =? 4) || (m =? 6) || (m =? 9) || (m =? 11) then 30 else 31.

Definition days_before_month (y m : Z) : Z :=
  nth (Z.to_nat m) [0; 0; 31; 59; 90; 120; 151; 181; 212; 243; 273; 304; 334] 0
  + (if (2 <? m) && is_leap y then 1 else 0).

Definition days_before_year (y : Z) : Z :=
  let p := y - 1 in p * 365 + p / 4 - p / 100 + p / 400.

(* date(y, m, d).toordinal() *)
Definition ymd2ord (y m d : Z) : Z := days_before_year y + days_before_month y m + d.

Definition valid_ymd (y m d : Z) : bool :=
  (1 <=? y) && (y <=? 9999) && (1 <=? m) && (m <=? 12) && (1 <=? d) && (d <=? days_in_month y m).

(* date(y, m, d).isoformat() = '%04d-%02d-%02d' *)
Definition date_iso (y m d : Z) : list Z := to_dec 4 y ++ dash :: to_dec 2 m ++ dash :: to_dec 2 d.

(* date.fromisoformat restricted to the extended calendar form YYYY-MM-DD (what isoformat writes): whenever it
   answers, fromisoformat answers the same; the basic form, week dates and non-ASCII digits are left to the oracle *)
Definition date_parse (s : list Z) : option (Z * Z * Z) :=
  if Nat.eqb (length s) 10 then
    if (nth 4 s 0 =? dash) && (nth 7 s 0 =? dash) then
      match of_dec 0 (firstn 4 s), of_dec 0 (firstn 2 (skipn 5 s)), of_dec 0 (skipn 8 s) with
      | Some y, Some m, Some d => if valid_ymd y m d then Some (y, m, d) else None
      | _, _, _ => None
      end
    else None
  else None.

Definition date_agree (s : list Z) (py : option Z) : bool :=
  match date_parse s, py with
  | Some (y, m, d), Some n => ymd2ord y m d =? n
  | Some _, None => false
  | None, _ => true
  end.


(* ================= datetimes: what datetime.isoformat writes ================= *)
(* ---------- model ---------- *)
Definition colon : Z := 58.
Definition dot : Z := 46.
Definition tee : Z := 84.
Definition plus : Z := 43.

Definition time_iso (H M Sc : Z) : list Z := to_dec 2 H ++ colon :: to_dec 2 M ++ colon :: to_dec 2 Sc.
Definition frac_iso (us : Z) : list Z := if us =? 0 then [] else dot :: to_dec 6 us.
Definition off_iso (tz : option Z) : list Z :=
  match tz with
  | None => []
  | Some o => (if o <? 0 then dash else plus) :: to_dec 2 (Z.abs o / 3600) ++ colon :: to_dec 2 (Z.abs o mod 3600 / 60)
                ++ (if Z.abs o mod 60 =? 0 then [] else colon :: to_dec 2 (Z.abs o mod 60))
  end.

(* datetime(y, m, d, H, M, Sc, us, tzinfo).isoformat() for offsets that are whole seconds (+HH:MM, or +HH:MM:SS when
   the offset is not a whole number of minutes) *)
Definition datetime_iso (y m d H M Sc us : Z) (tz : option Z) : list Z :=
  date_iso y m d ++ tee :: time_iso H M Sc ++ frac_iso us ++ off_iso tz.

Definition valid_time (H M Sc us : Z) : bool :=
  (0 <=? H) && (H <? 24) && (0 <=? M) && (M <? 60) && (0 <=? Sc) && (Sc <? 60) && (0 <=? us) && (us <? 1000000).
Definition valid_off (tz : option Z) : bool :=
  match tz with None => true | Some o => (-86400 <? o) && (o <? 86400) end.

(* the model's VDatetime: wall-clock microseconds since 0001-01-01T00:00:00, and the offset in seconds *)
Definition dt_us (y m d H M Sc us : Z) : Z :=
  (ymd2ord y m d - 1) * 86400000000 + ((H * 60 + M) * 60 + Sc) * 1000000 + us.

Definition parse_time (s : list Z) : option (Z * Z * Z) :=
  if Nat.eqb (length s) 8 && (nth 2 s 0 =? colon) && (nth 5 s 0 =? colon) then
    match of_dec 0 (firstn 2 s), of_dec 0 (firstn 2 (skipn 3 s)), of_dec 0 (skipn 6 s) with
    | Some H, Some M, Some Sc => if (H <? 24) && (M <? 60) && (Sc <? 60) then Some (H, M, Sc) else None
    | _, _, _ => None
    end
  else None.

Definition parse_off (s : list Z) : option (option Z) :=
  match s with
  | [] => Some None
  | sg :: r =>
      if ((sg =? plus) || (sg =? dash)) && (nth 2 r 0 =? colon) then
        if Nat.eqb (length r) 5 then
          match of_dec 0 (firstn 2 r), of_dec 0 (skipn 3 r) with
          | Some h, Some mi =>
              if (h <? 24) && (mi <? 60) then Some (Some ((if sg =? dash then -1 else 1) * (h * 3600 + mi * 60))) else None
          | _, _ => None
          end
        else if Nat.eqb (length r) 8 && (nth 5 r 0 =? colon) then
          match of_dec 0 (firstn 2 r), of_dec 0 (firstn 2 (skipn 3 r)), of_dec 0 (skipn 6 r) with
          | Some h, Some mi, Some sc =>
              if (h <? 24) && (mi <? 60) && (sc <? 60)
              then Some (Some ((if sg =? dash then -1 else 1) * (h * 3600 + mi * 60 + sc))) else None
          | _, _, _ => None
          end
        else None
      else None
  end.

(* datetime.fromisoformat restricted to what isoformat writes (T separator, seconds, optional six-digit
   fraction, optional +HH:MM or +HH:MM:SS offset): whenever it answers, fromisoformat answers the same *)
Definition datetime_parse (s : list Z) : option (Z * Z * Z * Z * Z * Z * Z * option Z) :=
  match date_parse (firstn 10 s) with
  | Some (y, m, d) =>
      if nth 10 s 0 =? tee then
        match parse_time (firstn 8 (skipn 11 s)) with
        | Some (H, M, Sc) =>
            match skipn 19 s with
            | c :: r =>
                if c =? dot then
                  if Nat.leb 6 (length r) then
                    match of_dec 0 (firstn 6 r), parse_off (skipn 6 r) with
                    | Some u, Some tz => Some (y, m, d, H, M, Sc, u, tz)
                    | _, _ => None
                    end
                  else None
                else match parse_off (c :: r) with Some tz => Some (y, m, d, H, M, Sc, 0, tz) | None => None end
            | [] => Some (y, m, d, H, M, Sc, 0, None)
            end
        | None => None
        end
      else None
  | None => None
  end.

Definition datetime_agree (s : list Z) (py : option (Z * option Z)) : bool :=
  match datetime_parse s, py with
  | Some (y, m, d, H, M, Sc, u, tz), Some (n, tz') =>
      (dt_us y m d H M Sc u =? n) && match tz, tz' with None, None => true | Some a, Some b => a =? b | _, _ => false end
  | Some _, None => false
  | None, _ => true
  end.

