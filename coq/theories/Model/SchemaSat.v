(* SchemaSat: when a JSON value satisfies a schema - Draft 2020-12 for the keywords the
   generator emits, plus OpenAPI `nullable`; "integer" = Python int, "number" = Python float,
   bool is neither; `format` and unknown keywords are annotations.
   JSON values are pyvals: VNone, VBool, VInt, VFloat (finite), VStr, VList, VDict with VStr keys. *)
From Coq Require Import ZArith List Bool String.
From KV Require Import Base.PyVal Base.Prims Model.Validator Model.Schema.
Import ListNotations.
Open Scope Z_scope.

Fixpoint is_json (x : pyval) : bool :=
  match x with
  | VNone | VBool _ | VInt _ | VStr _ => true
  | VFloat f => float_finite f
  | VList xs => forallb is_json xs
  | VDict kvs =>
      forallb (fun kv => match fst kv with VStr _ => is_json (snd kv) | _ => false end) kvs
  | _ => false
  end.

(* JSON equality of two instance values: numbers by value, booleans are not numbers *)
Fixpoint jv_eq (a b : pyval) {struct a} : bool :=
  match a, b with
  | VNone, VNone => true
  | VBool x, VBool y => Bool.eqb x y
  | (VInt _ | VFloat _), (VInt _ | VFloat _) =>
      match num_of a, num_of b with Some p, Some q => num_eqb p q | _, _ => false end
  | VStr x, VStr y => list_eqb Z.eqb x y
  | VList xs, VList ys =>
      (fix go (l1 l2 : list pyval) : bool :=
         match l1, l2 with
         | [], [] => true
         | x :: r1, y :: r2 => jv_eq x y && go r1 r2
         | _, _ => false
         end) xs ys
  | VDict kx, VDict ky =>
      Nat.eqb (List.length kx) (List.length ky) &&
      (fix go (l : list (pyval * pyval)) : bool :=
         match l with
         | [] => true
         | (k, v) :: r => match dict_get ky k with Some v' => jv_eq v v' | None => false end && go r
         end) kx
  | _, _ => false
  end.

(* a schema literal (enum member) against an instance *)
Fixpoint json_val (j : json) : option pyval :=
  match j with
  | JNull => Some VNone
  | JBool b => Some (VBool b)
  | JInt z => Some (VInt z)
  | JFloat f => Some (VFloat f)
  | JStr s => Some (VStr s)
  | JArr xs =>
      option_map VList
        ((fix go (l : list json) : option (list pyval) :=
            match l with
            | [] => Some []
            | x :: r => match json_val x, go r with Some a, Some b => Some (a :: b) | _, _ => None end
            end) xs)
  | _ => None
  end.

Definition jeq (j : json) (x : pyval) : bool :=
  match json_val j with Some v => jv_eq x v | None => false end.

Fixpoint unique_json (xs : list pyval) : bool :=
  match xs with
  | [] => true
  | x :: r => negb (existsb (jv_eq x) r) && unique_json r
  end.

Inductive kwd :=
| KType | KEnum | KMinLength | KMaxLength | KPattern | KMinimum | KMaximum | KExclMin | KExclMax
| KItems | KPrefixItems | KMinItems | KMaxItems | KUnique | KProperties | KRequired | KAddProps
| KMinProps | KMaxProps | KOneOf | KRef | KOther.

Definition kwd_table : list (jstring * kwd) :=
  [(lit "type", KType); (lit "enum", KEnum); (lit "minLength", KMinLength); (lit "maxLength", KMaxLength);
   (lit "pattern", KPattern); (lit "minimum", KMinimum); (lit "maximum", KMaximum);
   (lit "exclusiveMinimum", KExclMin); (lit "exclusiveMaximum", KExclMax);
   (lit "items", KItems); (lit "prefixItems", KPrefixItems); (lit "minItems", KMinItems);
   (lit "maxItems", KMaxItems); (lit "uniqueItems", KUnique); (lit "properties", KProperties);
   (lit "required", KRequired); (lit "additionalProperties", KAddProps);
   (lit "minProperties", KMinProps); (lit "maxProperties", KMaxProps); (lit "oneOf", KOneOf);
   (lit "$ref", KRef)].

Fixpoint kwd_lookup (t : list (jstring * kwd)) (k : jstring) : kwd :=
  match t with
  | [] => KOther
  | (k', c) :: r => if jstr_eqb k' k then c else kwd_lookup r k
  end.

Definition kwd_of (k : jstring) : kwd := kwd_lookup kwd_table k.

Definition type_sat (t : jstring) (x : pyval) : bool :=
  match x with
  | VStr _ => jstr_eqb t (lit "string")
  | VInt _ => jstr_eqb t (lit "integer")
  | VFloat _ => jstr_eqb t (lit "number")
  | VBool _ => jstr_eqb t (lit "boolean")
  | VDict _ => jstr_eqb t (lit "object")
  | VList _ => jstr_eqb t (lit "array")
  | VNone => jstr_eqb t (lit "null")
  | _ => false
  end.

Definition is_number (x : pyval) : bool := match x with VInt _ | VFloat _ => true | _ => false end.

(* lo <= hi (or <) for two JSON numbers *)
Definition num_le (strict : bool) (lo hi : pyval) : bool :=
  match py_le_gen strict lo hi with Ok b => b | Exn _ => false end.

Definition bound_sat (is_min strict : bool) (v : json) (x : pyval) : bool :=
  match json_val v with
  | Some b => if is_number b && is_number x
              then (if is_min then num_le strict b x else num_le strict x b)
              else true
  | None => true
  end.

Definition nullable (kvs : list (jstring * json)) : bool :=
  match obj_get kvs (lit "nullable") with Some (JBool true) => true | _ => false end.

Definition in_props (kvs : list (jstring * json)) (k : jstring) : bool :=
  match obj_get kvs (lit "properties") with
  | Some (JObj m) => existsb (fun e => jstr_eqb (fst e) k) m
  | _ => false
  end.

Definition is_none (x : pyval) : bool := match x with VNone => true | _ => false end.

Definition prefix_sat (rec : json -> pyval -> bool) :=
  fix go (ss : list json) (xs : list pyval) : bool :=
    match ss, xs with
    | s1 :: sr, x1 :: xr => rec s1 x1 && go sr xr
    | _, _ => true
    end.

Section Sat.
  Variable re_search : jstring -> list Z -> bool.     (* unanchored search of a pattern text *)
  Variable refsat : jstring -> pyval -> bool.         (* what a $ref resolves to *)

  (* one keyword of the object [kvs] against [x]; [rec] evaluates sub-schemas *)
  Definition entry_sat (rec : json -> pyval -> bool) (kvs : list (jstring * json)) (x : pyval)
             (kv : jstring * json) : bool :=
    let (k, v) := kv in
    match kwd_of k with
    | KType => match v with JStr t => type_sat t x | _ => true end
    | KEnum => match v with JArr js => existsb (fun j => jeq j x) js | _ => true end
    | KMinLength => match v, x with JInt n, VStr s => n <=? zlen s | _, _ => true end
    | KMaxLength => match v, x with JInt n, VStr s => zlen s <=? n | _, _ => true end
    | KPattern => match v, x with JStr p, VStr s => re_search p s | _, _ => true end
    | KMinimum => bound_sat true false v x
    | KMaximum => bound_sat false false v x
    | KExclMin => bound_sat true true v x
    | KExclMax => bound_sat false true v x
    | KItems => match x with VList xs => forallb (rec v) xs | _ => true end
    | KPrefixItems => match v, x with JArr ss, VList xs => prefix_sat rec ss xs | _, _ => true end
    | KMinItems => match v, x with JInt n, VList xs => n <=? zlen xs | _, _ => true end
    | KMaxItems => match v, x with JInt n, VList xs => zlen xs <=? n | _, _ => true end
    | KUnique => match v, x with JBool true, VList xs => unique_json xs | _, _ => true end
    | KProperties =>
        match v, x with
        | JObj m, VDict d =>
            forallb (fun e => match dict_get d (VStr (fst e)) with
                              | Some xv => rec (snd e) xv
                              | None => true
                              end) m
        | _, _ => true
        end
    | KRequired =>
        match v, x with
        | JArr rs, VDict d =>
            forallb (fun r => match r with JStr k' => dict_has d (VStr k') | _ => true end) rs
        | _, _ => true
        end
    | KAddProps =>
        match x with
        | VDict d =>
            forallb (fun e => match fst e with
                              | VStr k' => in_props kvs k' || rec v (snd e)
                              | _ => false
                              end) d
        | _ => true
        end
    | KMinProps => match v, x with JInt n, VDict d => n <=? zlen d | _, _ => true end
    | KMaxProps => match v, x with JInt n, VDict d => zlen d <=? n | _, _ => true end
    | KOneOf =>
        match v with
        | JArr ss => Nat.eqb (List.length (filter (fun s1 => rec s1 x) ss)) 1
        | _ => true
        end
    | KRef => match v with JStr r => refsat r x | _ => true end
    | KOther => true
    end.

  Fixpoint sat (s : json) (x : pyval) {struct s} : bool :=
    match s with
    | JBool b => b
    | JObj kvs => (nullable kvs && is_none x) || forallb (entry_sat sat kvs x) kvs
    | _ => false
    end.
End Sat.

(* named recursive schemas: every $ref resolves to the root again; fuel bounds the unfolding *)
Fixpoint sat_fuel (re_search : jstring -> list Z -> bool) (fuel : nat) (root : json) (s : json)
         (x : pyval) : bool :=
  sat re_search
      (fun _ y => match fuel with O => false | S n => sat_fuel re_search n root root y end) s x.
