(* Signature: validate_signature's wrapper (signature.py _wrap_fn) as a function of the
   parameter list, the decorator's options and one call. Names are numbers; the decorated
   function is an arbitrary [body] taking what the wrapper passes on. *)
From Coq Require Import ZArith List Bool.
From KV Require Import Base.PyVal Base.Prims Model.Validator Model.Sem.
Import ListNotations.

Inductive pkind := PosOnly | PosOrKw | VarPos | KwOnly | VarKw.

Record param := {
  p_name : nat;
  p_kind : pkind;
  p_ann : option validator;      (* what the annotation resolves to; None = no annotation *)
  p_ovr : option validator       (* overrides[name] *)
}.

Record deco := {
  d_params : list param;
  d_ignore : list nat;           (* ignore_args *)
  d_ignore_return : bool;
  d_ret_ann : option validator;
  d_ret_ovr : option validator
}.

Definition mem (n : nat) (l : list nat) : bool := existsb (Nat.eqb n) l.

(* _get_validator: the override wins over the annotation *)
Definition p_validator (p : param) : option validator :=
  match p_ovr p with Some v => Some v | None => p_ann p end.

(* the parameter is checked: it has an annotation or an override, and is not ignored *)
Definition p_check (ign : list nat) (p : param) : option validator :=
  if mem (p_name p) ign then None else p_validator p.

Record tables := {
  t_positional : list (option (nat * validator));
  t_schema : list (nat * option validator);
  t_varargs : option (nat * validator);
  t_kwargs : option validator;
  t_ignored_extra : list nat;
  t_return : option validator
}.

Fixpoint first_some {A B} (f : A -> option B) (l : list A) : option B :=
  match l with
  | [] => None
  | x :: r => match f x with Some y => Some y | None => first_some f r end
  end.

Definition mk_tables (d : deco) : tables :=
  let ign := d_ignore d in
  let ps := d_params d in
  let schema :=
      flat_map (fun p => match p_kind p with
                         | PosOrKw | KwOnly => [(p_name p, p_check ign p)]
                         | _ => []
                         end) ps in
  {| t_positional :=
       flat_map (fun p => match p_kind p with
                          | PosOnly | PosOrKw =>
                              [match p_check ign p with Some v => Some (p_name p, v) | None => None end]
                          | _ => []
                          end) ps;
     t_schema := schema;
     (* a later parameter of the same kind would overwrite; Python allows one of each *)
     t_varargs := first_some (fun p => match p_kind p with
                                       | VarPos => match p_check ign p with
                                                   | Some v => Some (p_name p, v) | None => None end
                                       | _ => None end) ps;
     t_kwargs := first_some (fun p => match p_kind p with VarKw => p_check ign p | _ => None end) ps;
     t_ignored_extra := filter (fun n => negb (mem n (map fst schema))) ign;
     t_return := if d_ignore_return d then None
                 else match d_ret_ovr d with Some v => Some v | None => d_ret_ann d end |}.

(* what the decorated function does with the arguments it is given *)
Inductive bres := BReturn (v : pyval) | BRaise (e : nat).

Inductive wres :=
| WArgsErr (errs : list (nat * invalid))       (* InvalidArgsError(errs), keys in dict order *)
| WRetErr (i : invalid)                        (* InvalidReturnError *)
| WReturn (v : pyval)
| WRaise (e : nat)                             (* the function's own exception *)
| WAbort (o : outcome).                        (* a validator itself raised *)

(* errs[k] = i *)
Fixpoint err_set (errs : list (nat * invalid)) (k : nat) (i : invalid) : list (nat * invalid) :=
  match errs with
  | [] => [(k, i)]
  | (k', i') :: r => if Nat.eqb k' k then (k', i) :: r else (k', i') :: err_set r k i
  end.

Fixpoint kw_set (kws : list (nat * pyval)) (k : nat) (v : pyval) : list (nat * pyval) :=
  match kws with
  | [] => [(k, v)]
  | (k', v') :: r => if Nat.eqb k' k then (k', v) :: r else (k', v') :: kw_set r k v
  end.

Fixpoint lookup {A} (l : list (nat * A)) (k : nat) : option A :=
  match l with
  | [] => None
  | (k', a) :: r => if Nat.eqb k' k then Some a else lookup r k
  end.

Record vstate := {
  s_errs : list (nat * invalid);
  s_var_errs : list (pyval * invalid);
  s_args : list pyval;                 (* ok_args, built left to right *)
  s_kwargs : list (nat * pyval)        (* ok_kw_args *)
}.

Section Wrap.
  Variable rec : runner.               (* the validators' entry point: sync call or awaited async *)
  Variable t : tables.

  (* the positional loop *)
  Fixpoint pos_loop (i : nat) (args : list pyval) (s : vstate) : outcome + vstate :=
    match args with
    | [] => inr s
    | a :: rest =>
        let keep := {| s_errs := s_errs s; s_var_errs := s_var_errs s;
                       s_args := s_args s ++ [a]; s_kwargs := s_kwargs s |} in
        match nth_error (t_positional t) i with
        | Some None => pos_loop (S i) rest keep
        | Some (Some (k, v)) =>
            match rec v a with
            | OValid w => pos_loop (S i) rest {| s_errs := s_errs s; s_var_errs := s_var_errs s;
                                                 s_args := s_args s ++ [w]; s_kwargs := s_kwargs s |}
            | OInvalid inv => pos_loop (S i) rest {| s_errs := err_set (s_errs s) k inv;
                                                     s_var_errs := s_var_errs s;
                                                     s_args := s_args s ++ [a]; s_kwargs := s_kwargs s |}
            | o => inl o
            end
        | None =>
            match t_varargs t with
            | None => pos_loop (S i) rest keep
            | Some (_, v) =>
                match rec v a with
                | OValid w => pos_loop (S i) rest {| s_errs := s_errs s; s_var_errs := s_var_errs s;
                                                     s_args := s_args s ++ [w]; s_kwargs := s_kwargs s |}
                | OInvalid inv => pos_loop (S i) rest {| s_errs := s_errs s;
                                                         s_var_errs := s_var_errs s ++ [(a, inv)];
                                                         s_args := s_args s ++ [a]; s_kwargs := s_kwargs s |}
                | o => inl o
                end
            end
        end
    end.

  Fixpoint number {A} (i : nat) (l : list A) : list (nat * A) :=
    match l with [] => [] | x :: r => (i, x) :: number (S i) r end.

  (* the *args failures become one entry under the *args parameter's name *)
  Definition close_varargs (s : vstate) : vstate :=
    match s_var_errs s, t_varargs t with
    | _ :: _, Some (k, v) =>
        {| s_errs := err_set (s_errs s) k
                             (Invalid (IndexErrs (number 0 (map snd (s_var_errs s))))
                                      (VTuple (map fst (s_var_errs s))) v);
           s_var_errs := s_var_errs s; s_args := s_args s; s_kwargs := s_kwargs s |}
    | _, _ => s
    end.

  (* the keyword loop *)
  Fixpoint kw_loop (kws : list (nat * pyval)) (s : vstate) : outcome + vstate :=
    match kws with
    | [] => inr s
    | (k, a) :: rest =>
        let check (v : validator) :=
            match rec v a with
            | OValid w => kw_loop rest {| s_errs := s_errs s; s_var_errs := s_var_errs s;
                                          s_args := s_args s; s_kwargs := kw_set (s_kwargs s) k w |}
            | OInvalid inv => kw_loop rest {| s_errs := err_set (s_errs s) k inv;
                                              s_var_errs := s_var_errs s;
                                              s_args := s_args s; s_kwargs := s_kwargs s |}
            | o => inl o
            end in
        match lookup (t_schema t) k with
        | Some (Some v) => check v
        | Some None => kw_loop rest s
        | None =>
            match t_kwargs t with
            | Some v => if mem k (t_ignored_extra t) then kw_loop rest s else check v
            | None => kw_loop rest s
            end
        end
    end.

  Definition validate_call (args : list pyval) (kwargs : list (nat * pyval)) : outcome + vstate :=
    match pos_loop 0 args {| s_errs := []; s_var_errs := []; s_args := []; s_kwargs := kwargs |} with
    | inl o => inl o
    | inr s => kw_loop kwargs (close_varargs s)
    end.

  Definition wrap (body : list pyval -> list (nat * pyval) -> bres)
             (args : list pyval) (kwargs : list (nat * pyval)) : wres :=
    match validate_call args kwargs with
    | inl o => WAbort o
    | inr s =>
        match s_errs s with
        | _ :: _ => WArgsErr (s_errs s)
        | [] =>
            match body (s_args s) (s_kwargs s) with
            | BRaise e => WRaise e
            | BReturn r =>
                match t_return t with
                | None => WReturn r
                | Some v =>
                    match rec v r with
                    | OValid _ => WReturn r
                    | OInvalid inv => WRetErr inv
                    | o => WAbort o
                    end
                end
            end
        end
    end.
End Wrap.

(* for the correspondence: what the body was given (if it ran) and what the caller got *)
Definition wrap_trace (rec : runner) (t : tables) (b : bres) (args : list pyval)
           (kwargs : list (nat * pyval)) : option (list pyval * list (nat * pyval)) * wres :=
  (match validate_call rec t args kwargs with
   | inr s => match s_errs s with [] => Some (s_args s, s_kwargs s) | _ => None end
   | inl _ => None
   end,
   wrap rec t (fun _ _ => b) args kwargs).
