(* Render: serialization/errors.py:to_serializable_errs and the signature message renderer,
   modelled at the level of structure.  Leaf message strings are abstract (their text is
   built with str()/repr() of Python values); what is exact is the shape: how many messages,
   which keys / indexes / members / variants, where the next-level callback is applied. *)
From Coq Require Import ZArith List Bool.
From KV Require Import Base.PyVal Base.Prims Model.Validator.
Import ListNotations.
Open Scope nat_scope.

(* one level of rendering; [A] is what the next-level callback returns *)
Inductive rnode (A : Type) :=
| RMsgs (n : nat)                               (* a list of n message strings *)
| RContainerMsg                                 (* {"__container__": [message]} *)
| RUnknownKeys                                  (* {"__unknown_keys__": message} *)
| RCustom (id : nat)                            (* SerializableErr: the user's own serialisable object *)
| RIndex (xs : list (nat * A))                  (* [[i, next(child)], ...] *)
| RKeys (xs : list (pyval * A))                 (* {str(k): next(child), ...} *)
| RMap (xs : list (pyval * (option A * option A)))   (* {str(k): {"key": next(..), "value": next(..)}} *)
| RMembers (xs : list A)                        (* {"member_errors": [next(child), ...]} *)
| RVariants (xs : list A)                       (* {"variants": [next(child), ...]} *)
| RChild (a : A).                               (* ContainerErr: next(child) *)

Arguments RMsgs {A} n.
Arguments RContainerMsg {A}.
Arguments RUnknownKeys {A}.
Arguments RCustom {A} id.
Arguments RIndex {A} xs.
Arguments RKeys {A} xs.
Arguments RMap {A} xs.
Arguments RMembers {A} xs.
Arguments RVariants {A} xs.
Arguments RChild {A} a.

(* custom error ids >= 100 stand for SerializableErr instances, the others for user error
   classes the renderer does not know *)
Definition is_serializable_err (id : nat) : bool := Nat.leb 100 id.

(* pred_to_err_message is defined for the built-in predicates only.  Choices lists its members sorted;
   members that cannot be ordered against each other (1 and "a") are listed in repr order (since the
   C12 repair - before it, sorted() raised TypeError and this definition carried a "sortable" side condition) *)
Definition pred_message_ok (p : predref) : bool :=
  match p with
  | PRAsync _ => false
  | PRSync (PUser _) => false
  | PRSync _ => true
  end.

Definition scalar_special (v : validator) : bool :=
  match v with
  | Scalar (KUuid | KDecimal | KDatetime | KDate) _ _ _ _ => true
  | _ => false
  end.

Definition is_record_class (v : validator) : bool :=
  match v with ClassV (RkData | RkNamed) _ _ _ _ _ _ => true | _ => false end.

Section Render.
  Variable A : Type.
  Variable nl : invalid -> A.

  Definition render1 (i : invalid) : pres (rnode A) :=
    match i with
    | Invalid e _ who =>
        match e with
        | CoercionErr _ dest =>
            if scalar_special who then Ok (RMsgs 1)
            else match dest with
                 | TList | TTuple => Ok RContainerMsg
                 | _ => if is_record_class who then Ok RContainerMsg else Ok (RMsgs 1)
                 end
        | CustomErr id => if is_serializable_err id then Ok (RCustom id) else Exn ExType
        | ExtraKeysErr _ => Ok RUnknownKeys
        | TypeErr t =>
            match t with
            | TDict | TList | TTuple => Ok RContainerMsg
            | _ => Ok (RMsgs 1)
            end
        | PredicateErrs ps =>
            if forallb pred_message_ok ps then Ok (RMsgs (length ps)) else Exn ExType
        | IndexErrs ix => Ok (RIndex (map (fun kv => (fst kv, nl (snd kv))) ix))
        | MissingKeyErr => Ok (RMsgs 1)
        | MapErr ks =>
            Ok (RMap (map (fun k => (fst k, (option_map nl (fst (snd k)), option_map nl (snd (snd k))))) ks))
        | SetErrs xs => Ok (RMembers (map nl xs))
        | KeyErrs ks => Ok (RKeys (map (fun kv => (fst kv, nl (snd kv))) ks))
        | UnionErrs xs => Ok (RVariants (map nl xs))
        | ContainerErr c => Ok (RChild (nl c))
        end
    end.

  (* where the callback's results sit in a rendered node, in order *)
  Definition rnode_children (r : rnode A) : list A :=
    match r with
    | RIndex xs => map snd xs
    | RKeys xs => map snd xs
    | RMap xs => flat_map (fun k => match fst (snd k) with Some a => [a] | None => [] end
                                    ++ match snd (snd k) with Some b => [b] | None => [] end) xs
    | RMembers xs | RVariants xs => xs
    | RChild a => [a]
    | _ => []
    end.
End Render.

(* the full default rendering (next_level = to_serializable_errs itself) *)
Inductive rtree :=
| RT (r : rnode rtree)
| RTRaise (e : exn).

Fixpoint render_all (i : invalid) : rtree :=
  match render1 rtree render_all i with
  | Ok r => RT r
  | Exn e => RTRaise e
  end.

(* ---------- the InvalidArgsError / InvalidReturnError message (signature._get_arg_fail_message) ----------
   One line per entry; what is modelled is the line structure: the indentation level of every line,
   in order (level = leading blanks / 4).  Texts are abstract.  A ContainerErr hands its prefix on as
   the indentation of its child, so the child starts again at level 0 - as the code does. *)
Fixpoint msg_levels (l : nat) (i : invalid) : list nat :=
  match i with
  | Invalid e _ _ => msg_levels_err l e
  end
with msg_levels_err (l : nat) (e : errtype) : list nat :=
  match e with
  | TypeErr _ | CoercionErr _ _ | MissingKeyErr | CustomErr _ => [l]
  | PredicateErrs ps => l :: map (fun _ => S l) ps
  | ExtraKeysErr _ => [l; S l]
  | ContainerErr c => msg_levels 0 c
  | UnionErrs xs => l :: flat_map (msg_levels (S l)) xs
  | SetErrs xs => l :: flat_map (msg_levels (S l)) xs
  | KeyErrs ks => l :: flat_map (fun kv => msg_levels (S l) (snd kv)) ks
  | IndexErrs ix => l :: flat_map (fun kv => msg_levels (S l) (snd kv)) ix
  | MapErr ks =>
      l :: flat_map (fun k => match fst (snd k) with Some a => msg_levels (S l) a | None => [] end
                              ++ match snd (snd k) with Some b => msg_levels (S l) b | None => [] end) ks
  end.

(* what the error tree holds: failures (one per predicate, per type / coercion / missing-key / unknown-keys /
   custom error) and container nodes (one header each; ContainerErr has none) *)
Fixpoint failures (i : invalid) : nat :=
  match i with Invalid e _ _ => failures_err e end
with failures_err (e : errtype) : nat :=
  match e with
  | TypeErr _ | CoercionErr _ _ | MissingKeyErr | CustomErr _ | ExtraKeysErr _ => 1
  | PredicateErrs ps => length ps
  | ContainerErr c => failures c
  | UnionErrs xs | SetErrs xs => list_sum (map failures xs)
  | KeyErrs ks => list_sum (map (fun kv => failures (snd kv)) ks)
  | IndexErrs ix => list_sum (map (fun kv => failures (snd kv)) ix)
  | MapErr ks => list_sum (map (fun k => match fst (snd k) with Some a => failures a | None => 0 end
                                         + match snd (snd k) with Some b => failures b | None => 0 end) ks)
  end.

Fixpoint headers (i : invalid) : nat :=
  match i with Invalid e _ _ => headers_err e end
with headers_err (e : errtype) : nat :=
  match e with
  | TypeErr _ | CoercionErr _ _ | MissingKeyErr | CustomErr _ => 0
  | PredicateErrs _ | ExtraKeysErr _ => 1
  | ContainerErr c => headers c
  | UnionErrs xs | SetErrs xs => S (list_sum (map headers xs))
  | KeyErrs ks => S (list_sum (map (fun kv => headers (snd kv)) ks))
  | IndexErrs ix => S (list_sum (map (fun kv => headers (snd kv)) ix))
  | MapErr ks => S (list_sum (map (fun k => match fst (snd k) with Some a => headers a | None => 0 end
                                            + match snd (snd k) with Some b => headers b | None => 0 end) ks))
  end.
