(* Schema: serialization/json_schema.py as a function from validator trees to JSON values.
   JNon marks a Python object that is not a JSON type (bytes, Decimal, dates, sets, ...): the
   model never produces one; it exists so that an implementation which does can be written
   down and compared. *)
From Coq Require Import ZArith List Bool String Ascii.
From KV Require Import Base.PyVal Base.Prims Model.Validator.
Import ListNotations.
Open Scope Z_scope.

Definition jstring := list Z.

Definition lit (s : string) : jstring :=
  map (fun a => Z.of_nat (nat_of_ascii a)) (list_ascii_of_string s).

Inductive json :=
| JNull
| JBool (b : bool)
| JInt (z : Z)
| JFloat (f : pyfloat)
| JStr (s : jstring)
| JArr (xs : list json)
| JObj (kvs : list (jstring * json))
| JNon (v : pyval).

Definition jstr_eqb : jstring -> jstring -> bool := list_eqb Z.eqb.

(* d[k] = v: an existing key keeps its position *)
Fixpoint obj_set (kvs : list (jstring * json)) (k : jstring) (v : json) : list (jstring * json) :=
  match kvs with
  | [] => [(k, v)]
  | (k', v') :: r => if jstr_eqb k' k then (k', v) :: r else (k', v') :: obj_set r k v
  end.

(* d.update(e) *)
Definition obj_update (a b : list (jstring * json)) : list (jstring * json) :=
  fold_left (fun acc kv => obj_set acc (fst kv) (snd kv)) b a.

Fixpoint obj_get (kvs : list (jstring * json)) (k : jstring) : option json :=
  match kvs with
  | [] => None
  | (k', v) :: r => if jstr_eqb k' k then Some v else obj_get r k
  end.

(* re.escape *)
Definition re_special (c : Z) : bool :=
  existsb (Z.eqb c)
    [40; 41; 91; 93; 123; 125; 63; 42; 43; 45; 124; 94; 36; 92; 46; 38; 126; 35; 32; 9; 10; 13; 11; 12].

Definition re_escape (s : jstring) : jstring :=
  flat_map (fun c => if re_special c then [92; c] else [c]) s.

(* Python text functions the schema embeds verbatim; supplied per case, quantified in theorems *)
Inductive textkind :=
| TkStr            (* str(x): Decimal, UUID, record labels *)
| TkIso            (* x.isoformat() *)
| TkDecodeUtf8     (* bytes.decode("utf-8"); None = UnicodeDecodeError *)
| TkPrefixBytes    (* rf"^{re.escape(b)}" for a bytes prefix *)
| TkSuffixBytes    (* rf"{re.escape(b)}$" for a bytes suffix *)
| TkPattern        (* pattern.pattern of regex number n (VInt n) *)
| TkNtuple.        (* the n-tuple description text for n fields (VInt n) *)

Definition float_finite (f : pyfloat) : bool :=
  match f with FFin _ _ _ => true | _ => false end.

Section Schema.
  Variable text_of : textkind -> pyval -> option jstring.

  Definition text (k : textkind) (v : pyval) : jstring :=
    match text_of k v with Some s => s | None => lit "?" end.

  Definition key_label (k : pyval) : jstring :=
    match k with VStr s => s | _ => text TkStr k end.

  (* sorted(xs): insertion from the right; on a total order without ties every correct sort agrees *)
  Fixpoint insert_sorted (x : pyval) (xs : list pyval) : pres (list pyval) :=
    match xs with
    | [] => Ok [x]
    | y :: ys =>
        match py_lt x y with
        | Exn e => Exn e
        | Ok true => Ok (x :: xs)
        | Ok false => pbind (insert_sorted x ys) (fun r => Ok (y :: r))
        end
    end.

  Fixpoint py_sorted (xs : list pyval) : pres (list pyval) :=
    match xs with
    | [] => Ok []
    | x :: r => pbind (py_sorted r) (insert_sorted x)
    end.

  Fixpoint insert_str (x : jstring) (xs : list jstring) : list jstring :=
    match xs with
    | [] => [x]
    | y :: ys => if lex_leb false x y then x :: xs else y :: insert_str x ys
    end.

  Definition sort_strings (xs : list jstring) : list jstring := fold_right insert_str [] xs.

  Fixpoint pmap {A B} (f : A -> pres B) (xs : list A) : pres (list B) :=
    match xs with
    | [] => Ok []
    | x :: r => pbind (f x) (fun y => pbind (pmap f r) (fun ys => Ok (y :: ys)))
    end.

  (* _choice_to_json *)
  Fixpoint choice_json (v : pyval) : pres json :=
    match v with
    | VStr s => Ok (JStr s)
    | VInt z => Ok (JInt z)
    | VNone => Ok JNull
    | VBool b => Ok (JBool b)
    | VFloat f => if float_finite f then Ok (JFloat f) else Exn ExType
    | VDate _ | VDatetime _ _ => Ok (JStr (text TkIso v))
    | VDecimal _ | VUuid _ => Ok (JStr (text TkStr v))
    | VBytes _ =>
        match text_of TkDecodeUtf8 v with
        | Some s => Ok (JStr s)
        | None => Exn ExType
        end
    | VTuple xs =>
        pbind ((fix go (l : list pyval) : pres (list json) :=
                  match l with
                  | [] => Ok []
                  | x :: r => pbind (choice_json x) (fun y => pbind (go r) (fun ys => Ok (y :: ys)))
                  end) xs)
              (fun ys => Ok (JArr ys))
    | _ => Exn ExType
    end.

  Definition bound_key (is_min excl fmt : bool) : jstring :=
    match fmt, is_min, excl with
    | true, true, true => lit "formatExclusiveMinimum"
    | true, true, false => lit "formatMinimum"
    | true, false, true => lit "formatExclusiveMaximum"
    | true, false, false => lit "formatMaximum"
    | false, true, true => lit "exclusiveMinimum"
    | false, true, false => lit "minimum"
    | false, false, true => lit "exclusiveMaximum"
    | false, false, false => lit "maximum"
    end.

  (* Min / Max *)
  Definition bound_schema (is_min : bool) (m : pyval) (excl : bool) : pres (list (jstring * json)) :=
    match m with
    | VDecimal _ => Ok [(bound_key is_min excl true, JStr (text TkStr m))]
    | VDate _ | VDatetime _ _ => Ok [(bound_key is_min excl true, JStr (text TkIso m))]
    | VInt z => Ok [(bound_key is_min excl false, JInt z)]
    | VFloat f =>
        if float_finite f then Ok [(bound_key is_min excl false, JFloat f)] else Exn ExType
    | _ => Exn ExType
    end.

  (* generate_schema_predicate *)
  Definition pred_schema (p : predicate) : pres (list (jstring * json)) :=
    match p with
    | PEmail => Ok [(lit "format", JStr (lit "email"))]
    | PMaxLength n => Ok [(lit "maxLength", JInt n)]
    | PMinLength n => Ok [(lit "minLength", JInt n)]
    | PExactLength n => Ok [(lit "minLength", JInt n); (lit "maxLength", JInt n)]
    | PChoices cs =>
        pbind (py_sorted cs) (fun s => pbind (pmap choice_json s) (fun js => Ok [(lit "enum", JArr js)]))
    | PNotBlank => Ok [(lit "pattern", JStr (lit "^(?!\s*$).+"))]
    | PRegex id => Ok [(lit "pattern", JStr (text TkPattern (VInt (Z.of_nat id))))]
    | PStartsWith s =>
        match unsub s with
        | VStr t => Ok [(lit "pattern", JStr (94 :: re_escape t))]
        | VBytes _ => Ok [(lit "pattern", JStr (text TkPrefixBytes (unsub s)))]
        | _ => Exn ExType
        end
    | PEndsWith s =>
        match unsub s with
        | VStr t => Ok [(lit "pattern", JStr (re_escape t ++ [36]))]
        | VBytes _ => Ok [(lit "pattern", JStr (text TkSuffixBytes (unsub s)))]
        | _ => Exn ExType
        end
    | PMin m ex => bound_schema true m ex
    | PMax m ex => bound_schema false m ex
    | PEqualTo m => pbind (choice_json m) (fun j => Ok [(lit "enum", JArr [j])])
    | PMinKeys n => Ok [(lit "minProperties", JInt n)]
    | PMaxKeys n => Ok [(lit "maxProperties", JInt n)]
    | PMinItems n => Ok [(lit "minItems", JInt n)]
    | PMaxItems n => Ok [(lit "maxItems", JInt n)]
    | PUniqueItems => Ok [(lit "uniqueItems", JBool true)]
    | PMultipleOf _ | PExactItemCount _ | PUser _ => Exn ExType
    end.

  Fixpoint preds_update (base : list (jstring * json)) (ps : list predicate)
    : pres (list (jstring * json)) :=
    match ps with
    | [] => Ok base
    | p :: r => pbind (pred_schema p) (fun d => preds_update (obj_update base d) r)
    end.

  (* async predicates are user classes: unhandled *)
  Definition apreds_schema (aps : list apredicate) : pres unit :=
    match aps with [] => Ok tt | _ => Exn ExType end.

  Definition decimal_pattern : jstring := lit "^(\-|\+)?((\d+(\.\d*)?)|(\.\d+))$".

  Definition tstring := JStr (lit "string").

  (* get_base *)
  Definition base_of_type (t : pytype) : pres (list (jstring * json)) :=
    match t with
    | TStr => Ok [(lit "type", tstring)]
    | TBytes => Ok [(lit "type", tstring); (lit "format", JStr (lit "byte"))]
    | TInt => Ok [(lit "type", JStr (lit "integer"))]
    | TDecimal => Ok [(lit "type", tstring); (lit "format", JStr (lit "number"));
                      (lit "pattern", JStr decimal_pattern)]
    | TFloat => Ok [(lit "type", JStr (lit "number"))]
    | TDate => Ok [(lit "type", tstring); (lit "format", JStr (lit "date"))]
    | TDatetime => Ok [(lit "type", tstring); (lit "format", JStr (lit "date-time"))]
    | TBool => Ok [(lit "type", JStr (lit "boolean"))]
    | TUuid => Ok [(lit "type", tstring); (lit "format", JStr (lit "uuid"))]
    | _ => Exn ExType
    end.

  Definition kind_type (k : scalar_kind) : option pytype :=
    match k with
    | KStr => Some TStr | KInt => Some TInt | KFloat => Some TFloat | KBool => Some TBool
    | KBytes => Some TBytes | KDecimal => Some TDecimal | KUuid => Some TUuid | KDate => Some TDate
    | KDatetime => Some TDatetime
    | KType _ => None                                   (* TypeValidator: unhandled *)
    end.

  Definition is_knr (v : validator) : bool :=
    match v with KeyNotRequired _ => true | _ => false end.

  Definition object_schema (strict : bool) (required : list jstring) (props : list (jstring * json)) : json :=
    JObj [(lit "type", JStr (lit "object")); (lit "additionalProperties", JBool (negb strict));
          (lit "required", JArr (map JStr required)); (lit "properties", JObj props)].

  (* properties[str_label] = ... in key order *)
  Definition props_of (ls : list jstring) (js : list json) : list (jstring * json) :=
    fold_left (fun acc kv => obj_set acc (fst kv) (snd kv)) (combine ls js) [].

  (* Some ref: to_named_json_schema, with ref = ref_location ++ schema_name *)
  Variable named : option jstring.

  Fixpoint to_schema (v : validator) : pres json :=
    let many := fix many (vs : list validator) : pres (list json) :=
      match vs with
      | [] => Ok []
      | x :: r => pbind (to_schema x) (fun j => pbind (many r) (fun js => Ok (j :: js)))
      end in
    let many_k := fix many_k (ks : list (pyval * validator)) : pres (list json) :=
      match ks with
      | [] => Ok []
      | (_, x) :: r => pbind (to_schema x) (fun j => pbind (many_k r) (fun js => Ok (j :: js)))
      end in
    let many_c := fix many_c (ks : list (pyval * (validator * bool))) : pres (list json) :=
      match ks with
      | [] => Ok []
      | (_, (x, _)) :: r => pbind (to_schema x) (fun j => pbind (many_c r) (fun js => Ok (j :: js)))
      end in
    match v with
    | Scalar k _ _ ps aps =>
        match kind_type k with
        | None => Exn ExType
        | Some t =>
            pbind (base_of_type t) (fun base =>
            pbind (preds_update base ps) (fun d =>
            pbind (apreds_schema aps) (fun _ => Ok (JObj d))))
        end
    | OptionalV _ inner =>
        pbind (to_schema inner) (fun j =>
        match j with
        | JObj d => Ok (JObj (obj_set d (lit "nullable") (JBool true)))
        | _ => Exn ExOther                       (* AssertionError("must be a dict") *)
        end)
    | MapV _ vv ps aps _ =>
        pbind (to_schema vv) (fun j =>
        pbind (preds_update [(lit "type", JStr (lit "object")); (lit "additionalProperties", j)] ps)
              (fun d => pbind (apreds_schema aps) (fun _ => Ok (JObj d))))
    | RecordV keys _ _ _ strict =>
        pbind (many_k keys) (fun js =>
        Ok (object_schema strict
              (map (fun kv => key_label (fst kv)) (filter (fun kv => negb (is_knr (snd kv))) keys))
              (props_of (map (fun kv => key_label (fst kv)) keys) js)))
    | DictAnyV schema _ _ strict =>
        pbind (many_k schema) (fun js =>
        Ok (object_schema strict
              (map (fun kv => key_label (fst kv)) (filter (fun kv => negb (is_knr (snd kv))) schema))
              (props_of (map (fun kv => key_label (fst kv)) schema) js)))
    | ClassV rk _ schema _ _ strict _ =>
        pbind (many_c schema) (fun js =>
        let req := map (fun kv => key_label (fst kv)) (filter (fun kv => snd (snd kv)) schema) in
        Ok (object_schema strict
              (match rk with RkTyped => sort_strings req | _ => req end)
              (props_of (map (fun kv => key_label (fst kv)) schema) js)))
    | EqualsV mt _ =>
        pbind (base_of_type (type_of mt)) (fun base =>
        pbind (pred_schema (PEqualTo mt)) (fun d => Ok (JObj (obj_update base d))))
    | KeyNotRequired inner => to_schema inner
    | ListV item ps aps _ | UTupleV item ps aps _ =>
        pbind (to_schema item) (fun j =>
        pbind (preds_update [(lit "type", JStr (lit "array")); (lit "items", j)] ps) (fun d =>
        pbind (apreds_schema aps) (fun _ => Ok (JObj d))))
    | IsDictV => Ok (JObj [(lit "type", JStr (lit "object"))])
    | UnionV vs => pbind (many vs) (fun js => Ok (JObj [(lit "oneOf", JArr js)]))
    | NTupleV fields _ _ =>
        pbind (many fields) (fun js =>
        let n := Z.of_nat (List.length fields) in
        Ok (JObj [(lit "description", JStr (text TkNtuple (VInt n)));
                  (lit "type", JStr (lit "array")); (lit "additionalItems", JBool false);
                  (lit "maxItems", JInt n); (lit "minItems", JInt n);
                  (lit "prefixItems", JArr js)]))
    | CacheV inner => to_schema inner
    | LazyV _ recurrent =>
        match named with
        | Some ref => if recurrent then Ok (JObj [(lit "$ref", JStr ref)]) else Ok (JObj [])
        | None => Exn ExType
        end
    | NoneV _ | AlwaysValid | SetV _ _ _ _ | MaybeV _ | UserV _ _ => Exn ExType
    end.

  (* to_json_schema / to_named_json_schema on a predicate *)
  Definition pred_to_schema (p : predicate) : pres json :=
    pbind (pred_schema p) (fun d => Ok (JObj d)).
End Schema.

(* to_named_json_schema name v ref_location *)
Definition to_named_schema (text_of : textkind -> pyval -> option jstring)
           (name ref_location : jstring) (v : validator) : pres json :=
  pbind (to_schema text_of (Some (ref_location ++ name)) v) (fun j => Ok (JObj [(name, j)])).
