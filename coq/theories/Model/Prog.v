(* Prog: resumable computations over a shared store, for reasoning about interleavings.
   A validation in flight is a [prog]: at each resumption it may read the shared store
   (the validator objects' attributes) and - as far as the effect summary allows - write it. *)
From Coq Require Import List Arith.
Import ListNotations.

Section Prog.
  Variable St : Type.     (* shared state: attributes of the validator objects *)
  Variable Res : Type.    (* results *)

  Inductive prog :=
  | Done (o : Res)
  | Step (k : St -> St * prog).     (* one resumption: runs until the next await *)

  (* a program that never writes the shared store *)
  Inductive pure_prog : prog -> Prop :=
  | pure_done o : pure_prog (Done o)
  | pure_step k : (forall s, fst (k s) = s /\ pure_prog (snd (k s))) -> pure_prog (Step k).

  (* resume a task once *)
  Definition resume (s : St) (p : prog) : St * prog :=
    match p with Done _ => (s, p) | Step k => k s end.

  (* running alone: j resumptions from store s *)
  Fixpoint advance (j : nat) (s : St) (p : prog) : St * prog :=
    match j with
    | O => (s, p)
    | S j' => let '(s', p') := resume s p in advance j' s' p'
    end.

  Fixpoint set_nth {A} (n : nat) (a : A) (l : list A) : list A :=
    match l, n with
    | [], _ => []
    | _ :: r, O => a :: r
    | x :: r, S n' => x :: set_nth n' a r
    end.

  (* an arbitrary schedule: the sequence of task indices the event loop resumes *)
  Fixpoint interleave (s : St) (ts : list prog) (sc : list nat) : St * list prog :=
    match sc with
    | [] => (s, ts)
    | i :: rest =>
        match nth_error ts i with
        | Some p => let '(s', p') := resume s p in interleave s' (set_nth i p' ts) rest
        | None => interleave s ts rest
        end
    end.

  Definition count (i : nat) (sc : list nat) : nat := length (filter (Nat.eqb i) sc).
End Prog.

Arguments Done {St Res} o.
Arguments Step {St Res} k.
