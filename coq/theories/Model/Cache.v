(* Cache: the state machine of CacheValidatorBase (base.py:212-228) over a store of
   (input, result) pairs, for histories of calls and for interleaved asynchronous calls. *)
From Coq Require Import ZArith List Bool.
From KV Require Import Base.PyVal Base.Prims Model.Validator Model.Sem.
Import ListNotations.

Section Cache.
  (* the wrapped validator, per entry point *)
  Variable validate : mode -> pyval -> outcome.
  (* the store's notion of "same key" *)
  Variable key_eq : pyval -> pyval -> bool.

  Definition store := list (pyval * outcome).

  Definition lookup (s : store) (x : pyval) : option outcome :=
    match find (fun kv => key_eq (fst kv) x) s with
    | Some kv => Some (snd kv)
    | None => None
    end.

  Inductive event :=
  | EGet (x : pyval) (hit : bool)
  | ERun (m : mode) (x : pyval)
  | ESet (x : pyval) (r : outcome).

  (* __call__ / validate_async: get; on miss validate, set, return.
     An exception raised by the wrapped validator propagates before anything is stored. *)
  Definition cache_call (s : store) (m : mode) (x : pyval) : store * outcome * list event :=
    match lookup s x with
    | Some r => (s, r, [EGet x true])
    | None =>
        let r := validate m x in
        if normal r then (s ++ [(x, r)], r, [EGet x false; ERun m x; ESet x r])
        else (s, r, [EGet x false; ERun m x])
    end.

  Fixpoint history (s : store) (ops : list (mode * pyval))
    : store * list outcome * list (list event) :=
    match ops with
    | [] => (s, [], [])
    | (m, x) :: rest =>
        let '(s1, r, ev) := cache_call s m x in
        let '(s2, rs, evs) := history s1 rest in
        (s2, r :: rs, ev :: evs)
    end.

  (* ---------- interleaved asynchronous calls ---------- *)

  Inductive tstate :=
  | TStart                       (* about to await cache_get_async *)
  | TMiss                        (* lookup missed; about to await the wrapped validator *)
  | TVal (r : outcome)           (* validated; about to await cache_set_async *)
  | TDone (r : outcome)          (* returned r *)
  | TRaised (r : outcome).       (* the wrapped validator raised; propagated *)

  Record task := { tin : pyval; tst : tstate }.

  (* one resumption of a task: it runs until its next suspension point *)
  Definition tstep (s : store) (t : task) : store * task :=
    match tst t with
    | TStart =>
        match lookup s (tin t) with
        | Some r => (s, {| tin := tin t; tst := TDone r |})
        | None => (s, {| tin := tin t; tst := TMiss |})
        end
    | TMiss =>
        let r := validate Async (tin t) in
        (s, {| tin := tin t; tst := if normal r then TVal r else TRaised r |})
    | TVal r => (s ++ [(tin t, r)], {| tin := tin t; tst := TDone r |})
    | TDone _ | TRaised _ => (s, t)
    end.

  Fixpoint update_nth {A} (n : nat) (a : A) (l : list A) : list A :=
    match l, n with
    | [], _ => []
    | _ :: r, O => a :: r
    | x :: r, S n' => x :: update_nth n' a r
    end.

  (* a schedule is the sequence of task indices the event loop resumes *)
  Fixpoint schedule (s : store) (ts : list task) (sc : list nat) : store * list task :=
    match sc with
    | [] => (s, ts)
    | i :: rest =>
        match nth_error ts i with
        | Some t => let '(s', t') := tstep s t in schedule s' (update_nth i t' ts) rest
        | None => schedule s ts rest
        end
    end.
End Cache.
