(* Derive: typehints.get_typehint_validator_base (and signature.resolve_signature_typehint_default
   when [sig] is set) as a function from annotations to validator trees, and the exact-type
   reading [has_type] of an annotation. Record annotations carry their class's fields
   (name, annotation, required) inline, as the case generator builds them. *)
From Coq Require Import ZArith List Bool.
From KV Require Import Base.PyVal Base.Prims Model.Validator.
Import ListNotations.
Open Scope Z_scope.

Inductive ann :=
| AScalar (k : scalar_kind)                 (* str int float bool bytes Decimal UUID date datetime *)
| ANone | AAny
| ANakedList | ANakedSet | ANakedTuple | ANakedDict
| AList (a : ann) | ASet (a : ann) | ADict (k v : ann)
| ATupleU (a : ann)                          (* Tuple[a, ...] *)
| ATupleN (l : list ann)                     (* Tuple[a1, ..., an] *)
| AUnion (l : list ann)                      (* Union / Optional / | *)
| AMaybe (a : ann)                           (* Maybe[a] = Union[Just[a], Nothing] *)
| ALiteral (vs : list pyval)
| AAnnotated (a : ann) (v : option validator)  (* Annotated[a, ...]: the first Validator among the metadata *)
| AQual (a : ann)                            (* Required[a] / NotRequired[a] *)
| ARecord (rk : record_kind) (c : classid) (fields : list (pyval * (ann * bool)))
| AClass (c : classid).                      (* any other class *)

Definition default_co (sig : bool) (k : scalar_kind) : option coercer :=
  if sig then None else
  match k with
  | KDecimal => Some CoDecimal | KUuid => Some CoUuid | KDate => Some CoDate | KDatetime => Some CoDatetime
  | _ => None
  end.

Definition tuple_co (sig : bool) : option coercer := if sig then None else Some CoTupleOrList.

Definition record_co (sig : bool) (rk : record_kind) (c : classid) : option coercer :=
  if sig then match rk with
              | RkData => Some (CoDataclassNoCoerce c)
              | RkNamed => Some (CoNamedTupleNoCoerce c)
              | RkTyped => None
              end
  else None.

(* the members of a Literal all have this scalar kind *)
Definition literal_kind (vs : list pyval) : option scalar_kind :=
  match vs with
  | [] => None
  | v :: r =>
      let t := type_of v in
      if forallb (fun w => pytype_eqb (type_of w) t) r then
        match t with
        | TStr => Some KStr | TInt => Some KInt | TBool => Some KBool | TBytes => Some KBytes
        | _ => None
        end
      else None
  end.

Definition all_none (vs : list pyval) : bool :=
  match vs with [] => false | _ => forallb (fun w => match w with VNone => true | _ => false end) vs end.

Fixpoint pmap' {A B} (f : A -> pres B) (xs : list A) : pres (list B) :=
  match xs with
  | [] => Ok []
  | x :: r => pbind (f x) (fun y => pbind (pmap' f r) (fun ys => Ok (y :: ys)))
  end.

Section Derive.
  Variable sig : bool.

  Fixpoint derive (a : ann) : pres validator :=
    let many := fix many (l : list ann) : pres (list validator) :=
      match l with
      | [] => Ok []
      | x :: r => pbind (derive x) (fun v => pbind (many r) (fun vs => Ok (v :: vs)))
      end in
    let fields_of := fix fields_of (l : list (pyval * (ann * bool)))
        : pres (list (pyval * (validator * bool))) :=
      match l with
      | [] => Ok []
      | (k, (x, req)) :: r =>
          pbind (derive x) (fun v => pbind (fields_of r) (fun vs => Ok ((k, (v, req)) :: vs)))
      end in
    match a with
    | AScalar k =>
        match k with
        | KType _ => Exn ExType
        | _ => Ok (Scalar k (default_co sig k) [] [] [])
        end
    | ANone => Ok (NoneV None)
    | AAny => Ok AlwaysValid
    | ANakedList => Ok (ListV AlwaysValid [] [] None)
    | ANakedSet => Ok (SetV AlwaysValid [] [] None)
    | ANakedTuple => Ok (UTupleV AlwaysValid [] [] (tuple_co sig))
    | ANakedDict => Ok (MapV AlwaysValid AlwaysValid [] [] None)
    | AList x => pbind (derive x) (fun v => Ok (ListV v [] [] None))
    | ASet x => pbind (derive x) (fun v => Ok (SetV v [] [] None))
    | ADict k v => pbind (derive k) (fun kv => pbind (derive v) (fun vv => Ok (MapV kv vv [] [] None)))
    | ATupleU x => pbind (derive x) (fun v => Ok (UTupleV v [] [] (tuple_co sig)))
    | ATupleN l => pbind (many l) (fun vs => Ok (NTupleV vs None (tuple_co sig)))
    | AUnion l =>
        match l with
        | [] => Exn ExType
        | _ => pbind (many l) (fun vs => Ok (UnionV vs))
        end
    | AMaybe x => pbind (derive x) (fun v => Ok (MaybeV v))
    | ALiteral vs =>
        match vs with
        | [] => Exn ExType
        | _ =>
            match literal_kind vs with
            | Some k => Ok (Scalar k None [] [PChoices vs] [])
            | None => if all_none vs then Ok (NoneV None)
                      else Ok (UnionV (map (fun v => EqualsV v []) vs))
            end
        end
    | AAnnotated _ (Some v) => Ok v
    | AAnnotated _ None => Exn ExType
    | AQual x => derive x
    | ARecord rk c fields =>
        pbind (fields_of fields) (fun fs => Ok (ClassV rk c fs None None false (record_co sig rk c)))
    | AClass c => Ok (Scalar (KType (TClass c)) None [] [] [])
    end.
End Derive.

(* ---------- the exact-type reading of an annotation ---------- *)

Definition typed_lit (v x : pyval) : bool := pytype_eqb (type_of v) (type_of x) && py_eq x v.

Fixpoint keys_typed (has : ann -> pyval -> bool) (fields : list (pyval * (ann * bool)))
         (kvs : list (pyval * pyval)) : bool :=
  match fields, kvs with
  | [], [] => true
  | (k, (a, _)) :: fr, (k', v) :: kr => pyval_eqb k k' && has a v && keys_typed has fr kr
  | _, _ => false
  end.

Fixpoint has_type (a : ann) (x : pyval) {struct a} : bool :=
  match a with
  | AScalar k =>
      match k, x with
      | KStr, VStr _ | KInt, VInt _ | KFloat, VFloat _ | KBool, VBool _ | KBytes, VBytes _
      | KDecimal, VDecimal _ | KUuid, VUuid _ | KDate, VDate _ | KDatetime, VDatetime _ _ => true
      | _, _ => false
      end
  | ANone => match x with VNone => true | _ => false end
  | AAny => true
  | ANakedList => match x with VList _ => true | _ => false end
  | ANakedSet => match x with VSet _ => true | _ => false end
  | ANakedTuple => match x with VTuple _ => true | _ => false end
  | ANakedDict => match x with VDict _ => true | _ => false end
  | AList a' => match x with VList xs => forallb (has_type a') xs | _ => false end
  | ASet a' => match x with VSet xs => forallb (has_type a') xs | _ => false end
  | ADict ka va =>
      match x with
      | VDict kvs => forallb (fun kv => has_type ka (fst kv) && has_type va (snd kv)) kvs
      | _ => false
      end
  | ATupleU a' => match x with VTuple xs => forallb (has_type a') xs | _ => false end
  | ATupleN l =>
      match x with
      | VTuple xs =>
          (fix go (l : list ann) (xs : list pyval) : bool :=
             match l, xs with
             | [], [] => true
             | a1 :: lr, x1 :: xr => has_type a1 x1 && go lr xr
             | _, _ => false
             end) l xs
      | _ => false
      end
  | AUnion l => existsb (fun a' => has_type a' x) l
  | AMaybe a' => match x with VNothing => true | VJust y => has_type a' y | _ => false end
  | ALiteral vs => existsb (fun v => typed_lit v x) vs
  | AAnnotated a' _ => has_type a' x
  | AQual a' => has_type a' x
  | ARecord rk c fields =>
      match rk, x with
      | (RkData | RkNamed), VObj c' fs =>
          Nat.eqb c c' &&
          (fix go (fields : list (pyval * (ann * bool))) (fs : list (pyval * pyval)) : bool :=
             match fields, fs with
             | [], [] => true
             | (k, (a1, _)) :: fr, (k', v) :: kr => pyval_eqb k k' && has_type a1 v && go fr kr
             | _, _ => false
             end) fields fs
      | RkTyped, VDict kvs =>
          (* every key is declared and typed, every required key is present *)
          forallb (fun kv =>
                     (fix find (fields : list (pyval * (ann * bool))) : bool :=
                        match fields with
                        | [] => false
                        | (k, (a1, _)) :: fr => (py_eq k (fst kv) && has_type a1 (snd kv)) || find fr
                        end) fields) kvs
          && forallb (fun f => negb (snd (snd f)) || dict_has kvs (fst f)) fields
      | _, _ => false
      end
  | AClass c => pytype_eqb (type_of x) (TClass c)
  end.
