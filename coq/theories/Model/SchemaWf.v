(* SchemaWf: what "made only of JSON types" and "a valid Draft 2020-12 schema" mean for the
   keywords the generator can emit (a structural reading of the 2020-12 meta-schema), and the
   configurations the generator documents. *)
From Coq Require Import ZArith List Bool String.
From KV Require Import Base.PyVal Base.Prims Model.Validator Model.Schema.
Import ListNotations.
Open Scope Z_scope.

Fixpoint strs_unique (ks : list jstring) : bool :=
  match ks with
  | [] => true
  | k :: r => negb (existsb (jstr_eqb k) r) && strs_unique r
  end.

Definition keys_unique (kvs : list (jstring * json)) : bool := strs_unique (map fst kvs).

(* only JSON types, finite numbers, and objects that are dicts (one value per key) *)
Fixpoint json_ok (j : json) : bool :=
  match j with
  | JNull | JBool _ | JInt _ | JStr _ => true
  | JFloat f => float_finite f
  | JArr xs => forallb json_ok xs
  | JObj kvs => keys_unique kvs && forallb (fun e => json_ok (snd e)) kvs
  | JNon _ => false
  end.

Inductive kwclass :=
| KwSchema | KwSchemaMap | KwSchemaArr | KwNonNeg | KwNumber | KwString | KwBool | KwType
| KwEnum | KwRequired | KwAny.

Definition kw_table : list (jstring * kwclass) :=
  [(lit "type", KwType); (lit "format", KwString); (lit "pattern", KwString);
   (lit "description", KwString); (lit "$ref", KwString);
   (lit "minLength", KwNonNeg); (lit "maxLength", KwNonNeg);
   (lit "minItems", KwNonNeg); (lit "maxItems", KwNonNeg);
   (lit "minProperties", KwNonNeg); (lit "maxProperties", KwNonNeg);
   (lit "minimum", KwNumber); (lit "maximum", KwNumber);
   (lit "exclusiveMinimum", KwNumber); (lit "exclusiveMaximum", KwNumber);
   (lit "enum", KwEnum); (lit "uniqueItems", KwBool);
   (lit "items", KwSchema); (lit "additionalProperties", KwSchema);
   (lit "properties", KwSchemaMap); (lit "required", KwRequired);
   (lit "oneOf", KwSchemaArr); (lit "prefixItems", KwSchemaArr)].

(* keywords outside the table (nullable, additionalItems, format bounds, ...) are unknown to
   the meta-schema and therefore unconstrained *)
Fixpoint kw_lookup (t : list (jstring * kwclass)) (k : jstring) : kwclass :=
  match t with
  | [] => KwAny
  | (k', c) :: r => if jstr_eqb k' k then c else kw_lookup r k
  end.

Definition kw_class (k : jstring) : kwclass := kw_lookup kw_table k.

Definition simple_types : list jstring :=
  [lit "string"; lit "integer"; lit "number"; lit "boolean"; lit "object"; lit "array"; lit "null"].

Definition is_jstr (j : json) : bool := match j with JStr _ => true | _ => false end.
Definition jstr_of (j : json) : jstring := match j with JStr s => s | _ => [] end.

Definition entry_ok (rec : json -> bool) (kv : jstring * json) : bool :=
  let (k, v) := kv in
  match kw_class k with
  | KwSchema => rec v
  | KwSchemaMap =>
      match v with JObj m => keys_unique m && forallb (fun e => rec (snd e)) m | _ => false end
  | KwSchemaArr => match v with JArr (x :: xs) => forallb rec (x :: xs) | _ => false end
  | KwNonNeg => match v with JInt n => 0 <=? n | _ => false end
  | KwNumber => match v with JInt _ => true | JFloat f => float_finite f | _ => false end
  | KwString => is_jstr v
  | KwBool => match v with JBool _ => true | _ => false end
  | KwType => match v with JStr s => existsb (jstr_eqb s) simple_types | _ => false end
  | KwEnum => match v with JArr _ => true | _ => false end
  | KwRequired =>
      match v with JArr xs => forallb is_jstr xs && strs_unique (map jstr_of xs) | _ => false end
  | KwAny => true
  end.

Fixpoint schema_ok (j : json) : bool :=
  match j with
  | JBool _ => true
  | JObj kvs => keys_unique kvs && forallb (entry_ok schema_ok) kvs
  | _ => false
  end.

(* ---------- documented configurations ---------- *)

Definition pred_cfg_ok (p : predicate) : bool :=
  match p with
  | PMinLength n | PMaxLength n | PExactLength n | PMinItems n | PMaxItems n
  | PMinKeys n | PMaxKeys n => 0 <=? n
  (* sorted() of the choices does not raise decimal.InvalidOperation (a NaN Decimal member) *)
  | PChoices cs => match py_sorted cs with Ok _ => true | Exn e => exn_eqb e ExType end
  | _ => true
  end.

Section Cfg.
  Variable text_of : textkind -> pyval -> option jstring.

  Definition labels_unique (ks : list pyval) : bool := strs_unique (map (key_label text_of) ks).

  Fixpoint cfg_ok (v : validator) : bool :=
    match v with
    | Scalar _ _ _ ps _ => forallb pred_cfg_ok ps
    | ListV item ps _ _ | UTupleV item ps _ _ | SetV item ps _ _ => cfg_ok item && forallb pred_cfg_ok ps
    | MapV kv vv ps _ _ => cfg_ok kv && cfg_ok vv && forallb pred_cfg_ok ps
    | NTupleV fields _ _ =>
        match fields with [] => false | _ => forallb cfg_ok fields end
    | RecordV keys _ _ _ _ =>
        labels_unique (map fst keys) && forallb (fun kv => cfg_ok (snd kv)) keys
    | DictAnyV schema _ _ _ =>
        labels_unique (map fst schema) && forallb (fun kv => cfg_ok (snd kv)) schema
    | ClassV _ _ schema _ _ _ _ =>
        labels_unique (map fst schema) && forallb (fun kv => cfg_ok (fst (snd kv))) schema
    | UnionV vs => match vs with [] => false | _ => forallb cfg_ok vs end
    | OptionalV nv inner => cfg_ok nv && cfg_ok inner
    | MaybeV inner | KeyNotRequired inner | CacheV inner => cfg_ok inner
    | NoneV _ | EqualsV _ _ | AlwaysValid | IsDictV | LazyV _ _ | UserV _ _ => true
    end.
End Cfg.
