(* Validator: configuration trees (the library's validator objects as data),
   error types and results. One constructor per validator class. *)
From Coq Require Import ZArith List Bool.
From KV Require Import Base.PyVal Base.Prims.
Import ListNotations.
Open Scope Z_scope.

Inductive predicate :=
| PMin (m : pyval) (excl : bool)
| PMax (m : pyval) (excl : bool)
| PMultipleOf (f : pyval)
| PChoices (cs : list pyval)
| PEqualTo (m : pyval)
| PMinItems (n : Z) | PMaxItems (n : Z) | PExactItemCount (n : Z) | PUniqueItems
| PMinLength (n : Z) | PMaxLength (n : Z) | PExactLength (n : Z)
| PStartsWith (s : pyval) | PEndsWith (s : pyval) | PNotBlank
| PRegex (id : nat) | PEmail
| PMinKeys (n : Z) | PMaxKeys (n : Z)
| PUser (id : nat).

(* async-only predicates are always user-written *)
Inductive apredicate := APred (id : nat).

Inductive predref := PRSync (p : predicate) | PRAsync (a : apredicate).

Inductive processor := Strip | Upper | Lower | ProcUser (id : nat).

Inductive coercer :=
| CoDecimal | CoUuid | CoDate | CoDatetime | CoTupleOrList
| CoDataclassNoCoerce (c : classid) | CoNamedTupleNoCoerce (c : classid)
| CoUser (id : nat).

Inductive scalar_kind :=
| KStr | KInt | KFloat | KBool | KBytes | KDecimal | KUuid | KDate | KDatetime
| KType (t : pytype).          (* TypeValidator(t) *)

Inductive record_kind := RkData | RkNamed | RkTyped.

Inductive validator :=
| Scalar (k : scalar_kind) (co : option coercer) (pre : list processor)
         (ps : list predicate) (aps : list apredicate)
| NoneV (co : option coercer)
| EqualsV (m : pyval) (pre : list processor)
| AlwaysValid
| IsDictV
| ListV (item : validator) (ps : list predicate) (aps : list apredicate) (co : option coercer)
| SetV (item : validator) (ps : list predicate) (aps : list apredicate) (co : option coercer)
| UTupleV (item : validator) (ps : list predicate) (aps : list apredicate) (co : option coercer)
| NTupleV (fields : list validator) (vobj : option nat) (co : option coercer)
| MapV (key value : validator) (ps : list predicate) (aps : list apredicate) (co : option coercer)
| RecordV (keys : list (pyval * validator)) (into : nat) (vobj avobj : option nat) (strict : bool)
| DictAnyV (schema : list (pyval * validator)) (vobj avobj : option nat) (strict : bool)
| ClassV (rk : record_kind) (c : classid) (schema : list (pyval * (validator * bool)))
         (vobj avobj : option nat) (strict : bool) (co : option coercer)
| UnionV (vs : list validator)
| OptionalV (nonev inner : validator)
| MaybeV (inner : validator)
| LazyV (ref : nat) (recurrent : bool)
| KeyNotRequired (inner : validator)
| CacheV (inner : validator)
| UserV (id : nat) (tuple_flavour : bool).

Inductive errtype :=
| TypeErr (t : pytype)
| CoercionErr (compat : list pytype) (dest : pytype)
| ContainerErr (child : invalid)
| ExtraKeysErr (expected : list pyval)
| KeyErrs (ks : list (pyval * invalid))
| MapErr (ks : list (pyval * (option invalid * option invalid)))
| MissingKeyErr
| IndexErrs (ix : list (nat * invalid))
| SetErrs (items : list invalid)
| UnionErrs (variants : list invalid)
| PredicateErrs (ps : list predref)
| CustomErr (id : nat)
with invalid :=
| Invalid (e : errtype) (value : pyval) (who : validator).

Inductive outcome :=
| OValid (w : pyval)
| OInvalid (i : invalid)
| OAssert                       (* the documented AssertionError of sync entry points *)
| ORaise (e : exn)              (* any other exception *)
| ONoFuel.

Inductive mode := Sync | Async.

Definition mode_eqb (a b : mode) : bool :=
  match a, b with Sync, Sync | Async, Async => true | _, _ => false end.

(* one entry of the class table *)
Record cls := {
  ckind_of : class_kind;
  chash_of : bool;
  cfields_of : list (pyval * option pyval)     (* field name, default *)
}.

Inductive okind := OkDecimal | OkUuid | OkDate | OkDatetime.

Record env := {
  classes : classid -> cls;
  upred : nat -> pyval -> bool;
  uapred : nat -> pyval -> bool;
  uproc : nat -> pyval -> pyval;
  ucoerce : nat -> pyval -> option pyval;
  ucompat : nat -> list pytype;
  uinto : nat -> list pyval -> pyval;
  uobj : nat -> pyval -> option errtype;
  uaobj : nat -> pyval -> option errtype;
  uvalid : nat -> bool -> mode -> pyval -> outcome;   (* id, tuple-flavour, entry point *)
  lazy_env : nat -> validator;
  oracle : okind -> pyval -> option pyval;    (* Decimal(x), UUID(x), fromisoformat(x): None = raised a caught exception *)
  re_match : nat -> list Z -> bool;
  email_match : list Z -> bool;
  case_map : bool -> list Z -> list Z
}.

Definition ckind (E : env) (c : classid) : class_kind := ckind_of (classes E c).
Definition chashable (E : env) (c : classid) : bool := chash_of (classes E c).
Definition cfields (E : env) (c : classid) := cfields_of (classes E c).
