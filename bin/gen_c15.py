#!/usr/bin/env python3
"""Regenerates coq/theories/Properties/C15.v from the Theorems of Proofs/Preds.v."""
import os, re
ROOT = os.path.dirname(os.path.dirname(os.path.abspath(__file__)))
src = open(os.path.join(ROOT, "coq/theories/Proofs/Preds.v")).read()
src_nc = re.sub(r"\(\*.*?\*\)", "", src, flags=re.S)
out = ['''(* C15 - Built-in predicates and processors compute exactly their documented relations.
   Listing of the theorems of Proofs/Preds.v, restated with explicit quantifiers
   (regenerate with bin/gen_c15.py after editing Preds.v). *)
From Coq Require Import ZArith List Bool QArith.
From KV Require Import Base.PyVal Base.Prims Model.Validator Model.Sem Proofs.Preds.
Import ListNotations.
Open Scope Z_scope.
''']
for m in re.finditer(r"^\s*Theorem\s+(\w+)(.*?)\.\s*\n\s*Proof\.", src_nc, flags=re.S | re.M):
    name, rest = m.group(1), m.group(2)
    depth, cut = 0, None
    for i, ch in enumerate(rest):
        if ch == "(":
            depth += 1
        elif ch == ")":
            depth -= 1
        elif ch == ":" and depth == 0 and rest[i + 1] != "=":
            cut = i
            break
    binders, stmt = rest[:cut].strip(), " ".join(rest[cut + 1:].split())
    usesE = re.search(r"\bE\b", stmt) is not None
    qs = (("E " if usesE else "") + " ".join(binders.split())).strip()
    head = f"forall {qs}, " if qs else ""
    out.append(f"Theorem C15_{name} : {head}{stmt}.\nProof. exact {name}. Qed.\nPrint Assumptions C15_{name}.\n")
open(os.path.join(ROOT, "coq/theories/Properties/C15.v"), "w").write("\n".join(out))
print(len(out) - 1, "theorems")
