#!/usr/bin/env python3
"""Regenerates MANIFEST.json from the table below (kept in one place so it stays valid)."""
import json, os, subprocess
ROOT = os.path.dirname(os.path.dirname(os.path.abspath(__file__)))
props = [json.loads(l) for l in open(os.path.join(ROOT, "properties.jsonl"))]
DONE = {
 "C01": ("Theorem C01_total (Coq, closed): for every well-formed validator tree (Total.wf), every input, both entry points and every fuel the outcome is Valid / Invalid / the sync-only AssertionError, never another exception; typed-annotation lemmas show scalar validators built as annotated are well-formed; six vm_compute refutations document the Decimal/datetime findings. Model tied to /repo by outcome-class correspondence on generated trees (hostile stream x3) + direct oracle (no exception, well-formed Invalid trees).", "8.C01"),
 "C02": ("Theorems C02_accept / C02_reject / C02_gate_* / C02_equals / C02_none over all scalar configurations and all values (Coq, closed) + full-outcome correspondence on generated scalar cases (both entry points) + direct oracle recomputing the pipeline from the configured objects.", "8.C02"),
 "C03": ("Theorems C03_{list,utuple,set,ntuple,map}_accept, *_index_errs / member_errs / map_errs (exact failing positions, child's own Invalid), container_failure_first, arity_first (Coq, closed, unbounded lengths) + correspondence incl. every valid/invalid element pattern for small n + per-element oracle.", "8.C03"),
 "C04": ("Theorems C04_{record,dictany,class}_accept, key_errs (one entry per missing/invalid key), no_undeclared_leak, unknown_first, class_gate, obj_stage (Coq, closed, any number of keys) + correspondence over every present/absent/valid/invalid/extra pattern + per-key oracle.", "8.C04"),
 "C05": ("Theorems C05_union_{accept,reject,first_wins}, optional, maybe, lazy, cache, key_not_required, always_valid, map_result (Coq, closed) + correspondence over all accept/reject patterns, wrappers around every kind, recursive definitions on deep data + variant-by-variant oracle with invocation logs.", "8.C05"),
 "C06": ("Theorem C06_agree: for all trees/inputs/fuel, if the sync call returns, the async call returns the same term for arbitrary async-only checks (so none is skipped); C06_returns: async-free trees never raise the assertion (Coq, closed). Tied by running both entry points on every case, an async-check invocation counter, and the regenerated twin-residue fact (python ast translator -> Facts_twins.v).", "8.C06"),
 "C15": ("42 theorems (Coq, closed): every built-in predicate/processor equals its documented relation over the mathematical object for all arguments of the admitted type (bounds on Z and exact rationals, NaN fails bounds, multiples as divisibility, lengths/counts, membership, prefix/suffix as list decomposition, not-blank <-> a non-whitespace char, strip decomposition and idempotence, ASCII case idempotence, typed uniqueness <-> typed_nodup). Tied by exhaustive evaluation of the bounded (parameter, argument) plane in Coq and on the implementation, plus an independent reference (Fraction arithmetic, slicing, pairwise comparison). Partial: regex and non-ASCII case mapping are oracles.", "8.C15"),
 "C16": ("Theorems C16_{decimal,uuid,date,datetime,tuple} (iff characterisations of the default coercers), never_coerced, subclass rejection, coercion error types (Coq, closed); C16_roundtrip_partial under the stated stdlib print/parse hypothesis. Tied by correspondence with per-case oracle tables from the real constructors, the regenerated coercer-shape fact (python ast -> Facts_coercers.v) and a direct comparison with the stdlib constructors. Partial: stdlib parsers are oracles.", "8.C16"),
 "C20": ("Theorems C20_call, C20_history (all finite histories of sync/async calls), C20_runs_iff_miss, C20_interleaved (every schedule of any number of overlapping async calls) on the cache state machine (Coq, closed). Tied by running exhaustive/sampled histories and all interleavings of 2-3 overlapping calls on a real CacheValidatorBase subclass with logged get/set and a run-counting wrapper, and by evaluating Model/Cache.history in Coq on the same histories.", "8.C20"),
 "C14": ("Theorems C14_node (who = the validator at that position or the validator a transparent wrapper stands for; type/coercion failures hold the argument itself; every directly nested Invalid is, unchanged, the result of a child validator's run or a missing-key marker) and C14_tree (every node of every error tree names a validator reachable from the root) for all trees, inputs, entry points and fuel (Coq, closed). Tied by full-outcome correspondence (who resolved by object identity, values structurally) and an identity-walking oracle on live objects.", "8.C14"),
 "C17": ("PARTIAL. Theorem C17_fixpoint_partial on the fragment Fixpoint.fp_ok (scalars, None, equality, lists / uniform tuples with count-only predicates, n-tuples, unions of input-returning variants, Optional, Maybe, Lazy, cache; arbitrarily nested) + stability of the built-in processors; the unrestricted statement is refuted in Coq (C17_refuted_container_predicates) and on the implementation - recorded as a known finding. Sets, maps and record validators are tied by re-feeding every accepted payload in model and implementation.", "8.C17"),
 "C18": ("Theorems C18_ctx_{list,utuple,ntuple,set,map_value,record,maybe,lazy} (one-element contexts return exactly the inner verdict, payload and error, for every inner validator), C18_union_iff, C18_refine_{scalar_pred,list_pred,record_strict,class_required} (Coq, closed). Tied by wrapping generated validators in every context to depth 2 and by base/refined pairs, with a relational oracle on the live objects.", "8.C18"),
}
checks, na = [], []
for p in props:
    pid = p["id"]
    if pid in DONE:
        checks.append({
            "property_id": pid, "quick_cmd": f"bin/check {pid} quick", "thorough_cmd": f"bin/check {pid} thorough",
            "evidence_file": f"/verif/evidence/{pid}.json", "replay_cmd_template": f"bin/check {pid} quick --replay {{path}}",
            "engine": "coq-model+correspondence",
            "level_claimed": {"category": "proof", "text": DONE[pid][0], "design_ref": DONE[pid][1]},
            "level_note": "Trusted: Coq 8.16.1 kernel + vm_compute; hand-written executable Gallina model of the library and of the Python values/primitives it uses, tied to /repo by differential execution on every run (harness/) and by facts regenerated from the source; no axioms (Print Assumptions parsed on every run); user callbacks and stdlib parsers are universally quantified in the theorems.",
            "technique": "machine-checked proof in Coq on an executable Gallina model, tied to the source by a correspondence check (and a python-ast fact translator where noted)"})
    else:
        na.append({"property_id": pid, "reason": "check not built yet in this session (work in progress; design in DESIGN.md section 8)"})
fixes = subprocess.run(["git", "-C", "/repo", "log", "--format=%h %s", "--grep=^fix:"], capture_output=True, text=True).stdout.strip().splitlines()
m = {"version": 1, "setup_cmd": "bin/setup",
     "hooks": {"guard": "KODA_VALIDATE_VERIF", "enable": "no hooks are needed: every observation point is a return value, an exception or a harness-supplied callback; the guard name is reserved and unused",
               "baseline_off_cmd": "cd /repo && /venv/bin/python -m pytest -ra -q -p no:cacheprovider --timeout=900 --continue-on-collection-errors",
               "source_commits": [], "add_only": True},
     "engines": [{"name": "coq-model+correspondence", "path": "/verif/coq", "serves_properties": sorted(DONE),
                  "kind_free_text": "Coq 8.16.1 development (model, proofs, property files) + Python harness evaluating model (vm_compute) and implementation on the same cases + python-ast fact translators"}],
     "checks": checks, "not_applicable": na,
     "notes": "Genuine defects repaired in /repo as 'fix:' commits (recorded in known_findings.json): " + "; ".join(fixes)}
json.dump(m, open(os.path.join(ROOT, "MANIFEST.json"), "w"), indent=1)
print(len(checks), "checks,", len(na), "not yet")
